package c18

import (
	"bytes"
	"context"
	"encoding/hex"
	"fmt"
	"github.com/attestantio/go-eth2-client/spec/phase0"
	"strconv"
	"strings"
	"sync"
	"testing"
	"time"

	spectypes "github.com/bloxapp/ssv-spec/types"
	"github.com/libp2p/go-libp2p/core/peer"
	"go.uber.org/zap"
	"pgregory.net/rapid"

	"github.com/bloxapp/ssv/message/validation"
	"github.com/bloxapp/ssv/network/commons"
	p2pv1 "github.com/bloxapp/ssv/network/p2p"
	"github.com/bloxapp/ssv/network/records"
	operatordatastore "github.com/bloxapp/ssv/operator/datastore"
	registrystorage "github.com/bloxapp/ssv/registry/storage"

	"verif/harness/internal/prog"
	"verif/harness/internal/valfx"
)

func TestMain(m *testing.M) { prog.Main(m) }

// recCtrl is a recording topics.Controller.
type recCtrl struct {
	subs   []string
	pubs   []pub
	unsubs []string
}
type pub struct {
	topic string
	data  []byte
}

func (c *recCtrl) Subscribe(_ *zap.Logger, name string) error {
	c.subs = append(c.subs, name)
	return nil
}
func (c *recCtrl) Unsubscribe(_ *zap.Logger, n string, _ bool) error {
	c.unsubs = append(c.unsubs, n)
	return nil
}
func (c *recCtrl) Peers(string) ([]peer.ID, error) { return nil, nil }
func (c *recCtrl) Topics() []string                { return nil }
func (c *recCtrl) Broadcast(t string, d []byte, _ time.Duration) error {
	c.pubs = append(c.pubs, pub{t, append([]byte(nil), d...)})
	return nil
}
func (c *recCtrl) Close() error { return nil }

// ---- (a) publisher / subscriber / validator agree on the topic -------------------------------------

type TopicProg struct {
	PK      []byte `json:"pk"`
	Payload []byte `json:"payload"`
	Role    int    `json:"role"`
	MsgType uint64 `json:"msg_type"`
	OpID    uint64 `json:"op_id"`
	Signed  bool   `json:"signed"`
}

func runTopic(p TopicProg) *prog.Result {
	res := &prog.Result{}
	fail := func(sig, f string, a ...any) *prog.Result {
		res.Fail = prog.Failf("C18:"+sig, f, a...)
		return res
	}
	env := valfx.NewEnv(p.Signed)
	ods := operatordatastore.New(&registrystorage.OperatorData{ID: p.OpID})
	ctrl := &recCtrl{}
	signerKey := env.OpKeys[1]
	n := p2pv1.New(zap.NewNop(), &p2pv1.Config{Ctx: context.Background(), Network: env.NetCfg, OperatorSigner: signerKey,
		OperatorDataStore: ods, RequestTimeout: time.Second}, nil)
	n = p2pv1.NewWithTopicsControllerVerif(n, ctrl)

	// subscriber side
	if err := n.Subscribe(p.PK); err != nil {
		return fail("subscribe-error", "Subscribe(%x): %v", p.PK, err)
	}
	if len(ctrl.subs) != 1 {
		return fail("subscribe-count", "Subscribe(%x) subscribed to %d topics: %v", p.PK, len(ctrl.subs), ctrl.subs)
	}
	sub := ctrl.subs[0]

	wellFormed := len(p.PK) == 48
	if len(p.PK) < 5 {
		// the mapping is undefined for keys shorter than 5 bytes (documented "unknown" topic); only absence of a crash is judged
		res.Classes = []string{"pk-too-short"}
		return res
	}
	idx, err := strconv.Atoi(sub)
	if err != nil || idx < 0 || idx >= commons.Subnets() {
		return fail("subscribed-outside-range", "Subscribe(%x) used topic %q, outside the advertised subnets [0,%d)", p.PK, sub, commons.Subnets())
	}
	inTopics := false
	for _, t := range commons.Topics() {
		if t == commons.GetTopicFullName(sub) {
			inTopics = true
		}
	}
	if !inTopics {
		return fail("subscribed-not-advertised", "topic %q is not in commons.Topics()", commons.GetTopicFullName(sub))
	}

	// publisher side
	msg := &spectypes.SSVMessage{MsgType: spectypes.MsgType(p.MsgType), MsgID: spectypes.NewMsgID(env.NetCfg.Domain, p.PK, spectypes.BeaconRole(p.Role)), Data: p.Payload}
	if err := n.Broadcast(msg); err != nil {
		return fail("broadcast-error", "Broadcast: %v", err)
	}
	if len(ctrl.pubs) != 1 {
		return fail("publish-count", "Broadcast published on %d topics", len(ctrl.pubs))
	}
	if ctrl.pubs[0].topic != sub {
		return fail("publish-subscribe-topic-differ", "key %x: published on %q but subscribed to %q", p.PK, ctrl.pubs[0].topic, sub)
	}
	// the unsubscribe path must name the same topic
	if err := n.Unsubscribe(zap.NewNop(), p.PK); err != nil {
		return fail("unsubscribe-error", "Unsubscribe: %v", err)
	}
	if len(ctrl.unsubs) != 1 || ctrl.unsubs[0] != sub {
		return fail("unsubscribe-topic-differ", "key %x: unsubscribed from %v but subscribed to %q", p.PK, ctrl.unsubs, sub)
	}

	// envelope as published
	data := ctrl.pubs[0].data
	if p.Signed {
		inner, op, sig, err := commons.DecodeSignedSSVMessage(data)
		if err != nil {
			return fail("published-envelope-undecodable", "%v", err)
		}
		if op != p.OpID {
			return fail("published-envelope-opid", "operator id %d published as %d", p.OpID, op)
		}
		if err := signerKey.Public().Verify(inner, sig); err != nil {
			return fail("published-envelope-signature", "published signature does not verify over the published payload: %v", err)
		}
		dec, err := commons.DecodeNetworkMsg(inner)
		if err != nil || !bytes.Equal(dec.Data, p.Payload) || dec.MsgID != msg.MsgID || dec.MsgType != msg.MsgType {
			return fail("published-payload", "published payload does not decode to the broadcast message (err=%v)", err)
		}
	}

	// receiving side: accepted topic == published topic, every other advertised topic refused
	now := env.Clock.Now()
	for i, full := range commons.Topics() {
		_, _, verr := validation.ValidateP2PMessageAt(env.MV, valfx.PMsg(full, data), now)
		notFound := verr != nil && validation.ErrorText(verr) == validation.ErrTopicNotFound.Text()
		if full == commons.GetTopicFullName(sub) {
			if notFound {
				return fail("validator-refuses-published-topic", "key %x: published on %q, validator answers %v", p.PK, full, verr)
			}
		} else if !notFound && len(data) > 0 {
			// other errors that precede the topic check (size, decoding) are not topic decisions
			if t := validation.ErrorText(verr); t == validation.ErrPubSubDataTooBig.Text() || t == validation.ErrMalformedPubSubMessage.Text() ||
				t == validation.ErrMalformedSignedMessage.Text() || t == validation.ErrPubSubMessageHasNoData.Text() {
				continue
			}
			return fail("validator-accepts-other-topic", "key %x: published on %q, validator does not refuse topic #%d %q (err=%v)", p.PK, sub, i, full, verr)
		}
	}
	res.NonTrivial = wellFormed && len(p.Payload) > 0
	res.Classes = []string{fmt.Sprintf("signed=%v", p.Signed)}
	if !wellFormed {
		res.Classes = append(res.Classes, "pk-short")
	}
	return res
}

func genPK(t *rapid.T) []byte {
	switch rapid.IntRange(0, 9).Draw(t, "pkshape") {
	case 0:
		return rapid.SliceOfN(rapid.Byte(), 0, 47).Draw(t, "shortpk")
	case 1: // structured prefixes
		b := make([]byte, 48)
		fill := rapid.SampledFrom([]byte{0x00, 0xff, 0x7f, 0x80}).Draw(t, "fill")
		for i := range b {
			b[i] = fill
		}
		k := rapid.IntRange(0, 8).Draw(t, "prefixlen")
		copy(b, rapid.SliceOfN(rapid.Byte(), k, k).Draw(t, "prefix"))
		return b
	default:
		return rapid.SliceOfN(rapid.Byte(), 48, 48).Draw(t, "pk")
	}
}

func genTopic(t *rapid.T) TopicProg {
	return TopicProg{
		PK:      genPK(t),
		Payload: rapid.SliceOfN(rapid.Byte(), 0, rapid.SampledFrom([]int{0, 8, 64, 4096}).Draw(t, "maxlen")).Draw(t, "payload"),
		Role:    rapid.IntRange(0, 7).Draw(t, "role"),
		MsgType: rapid.SampledFrom([]uint64{0, 1, 2, 3, 90, 1 << 40}).Draw(t, "msgtype"),
		OpID:    rapid.OneOf(rapid.Uint64Range(1, 20), rapid.Uint64Min(1)).Draw(t, "opid"),
		Signed:  rapid.Bool().Draw(t, "signed"),
	}
}

// ---- (a2) envelope agreement across the activation epoch, in one process ---------------------------------
//
// Publisher and validator decide per message, from the clock, whether the signed envelope applies (epoch > activation
// epoch). A node that runs across the activation epoch must switch with its peers. One case = one long-lived network
// object broadcasting at a non-decreasing sequence of epochs around the activation epoch; every published message
// must have the format the rule demands at that epoch (computed here) and must get past the envelope / size checks
// of a validator whose clock shows the same epoch.

type ForkProg struct {
	PK      []byte `json:"pk"`
	Payload []byte `json:"payload"`
	OpID    uint64 `json:"op_id"`
	Offs    []int  `json:"offs"` // epochs relative to the activation epoch, non-decreasing
}

func runFork(p ForkProg) *prog.Result {
	res := &prog.Result{}
	fail := func(sig, f string, a ...any) *prog.Result {
		res.Fail = prog.Failf("C18:"+sig, f, a...)
		return res
	}
	const actOff = 5
	env := valfx.NewEnvActivation(actOff)
	ods := operatordatastore.New(&registrystorage.OperatorData{ID: p.OpID})
	ctrl := &recCtrl{}
	signerKey := env.OpKeys[1]
	n := p2pv1.New(zap.NewNop(), &p2pv1.Config{Ctx: context.Background(), Network: env.NetCfg, OperatorSigner: signerKey,
		OperatorDataStore: ods, RequestTimeout: time.Second}, nil)
	n = p2pv1.NewWithTopicsControllerVerif(n, ctrl)
	b := env.NetCfg.Beacon
	msg := &spectypes.SSVMessage{MsgType: spectypes.SSVConsensusMsgType, MsgID: spectypes.NewMsgID(env.NetCfg.Domain, p.PK, spectypes.BNRoleAttester), Data: p.Payload}
	before, after := 0, 0
	for i, off := range p.Offs {
		epoch := phase0.Epoch(int(valfx.BaseEpoch) + actOff + off)
		now := b.GetSlotStartTime(b.FirstSlotAtEpoch(epoch)).Add(time.Second)
		env.Clock.Set(now)
		wantSigned := off > 0 // the rule: signed envelopes for epochs strictly after the activation epoch
		if wantSigned {
			after++
		} else {
			before++
		}
		k := len(ctrl.pubs)
		if err := n.Broadcast(msg); err != nil {
			return fail("broadcast-error", "Broadcast #%d at activation%+d: %v", i, off, err)
		}
		if len(ctrl.pubs) != k+1 {
			return fail("publish-count", "Broadcast #%d published %d messages", i, len(ctrl.pubs)-k)
		}
		data := ctrl.pubs[k].data
		if wantSigned {
			inner, op, sig, err := commons.DecodeSignedSSVMessage(data)
			if err != nil || op != p.OpID || signerKey.Public().Verify(inner, sig) != nil {
				return fail("envelope-format-across-activation", "broadcast #%d at activation epoch %+d (after %v earlier broadcasts at %v): the published bytes are not a signed envelope of operator %d (decode err=%v)", i, off, i, p.Offs[:i], p.OpID, err)
			}
			if dec, err := commons.DecodeNetworkMsg(inner); err != nil || !bytes.Equal(dec.Data, p.Payload) || dec.MsgID != msg.MsgID {
				return fail("envelope-payload-across-activation", "broadcast #%d at activation epoch %+d: signed payload does not decode to the message (err=%v)", i, off, err)
			}
		} else {
			if dec, err := commons.DecodeNetworkMsg(data); err != nil || !bytes.Equal(dec.Data, p.Payload) || dec.MsgID != msg.MsgID {
				return fail("envelope-format-across-activation", "broadcast #%d at activation epoch %+d (after earlier broadcasts at %v): the published bytes are not the bare message (err=%v)", i, off, p.Offs[:i], err)
			}
		}
		// the receiving side at the same epoch: must get past the envelope / size / decoding checks
		_, _, verr := validation.ValidateP2PMessageAt(env.MV, valfx.PMsg(commons.GetTopicFullName(ctrl.pubs[k].topic), data), now)
		if t := validation.ErrorText(verr); t == validation.ErrMalformedSignedMessage.Text() || t == validation.ErrMalformedPubSubMessage.Text() || t == validation.ErrPubSubDataTooBig.Text() {
			return fail("validator-rejects-envelope-across-activation", "broadcast #%d at activation epoch %+d (earlier broadcasts at %v): a validator whose clock shows the same epoch answers %v", i, off, p.Offs[:i], verr)
		}
	}
	res.NonTrivial = before > 0 && after > 0
	res.Classes = []string{fmt.Sprintf("crosses-activation=%v", before > 0 && after > 0), fmt.Sprintf("broadcasts=%d", len(p.Offs))}
	return res
}

func genFork(t *rapid.T) ForkProg {
	p := ForkProg{PK: genPK(t), Payload: rapid.SliceOfN(rapid.Byte(), 1, 300).Draw(t, "payload"), OpID: uint64(rapid.IntRange(1, 13).Draw(t, "op"))}
	for len(p.PK) < 48 {
		p.PK = append(p.PK, byte(len(p.PK)))
	}
	n := rapid.IntRange(2, 6).Draw(t, "nb")
	off := rapid.IntRange(-3, 0).Draw(t, "first")
	for i := 0; i < n; i++ {
		p.Offs = append(p.Offs, off)
		off += rapid.SampledFrom([]int{0, 0, 1, 1, 2}).Draw(t, "step")
	}
	return p
}

func TestPropEnvelopeAcrossActivation(t *testing.T) {
	prog.Check(t, "C18", "TestPropEnvelopeAcrossActivation", genFork, runFork)
}

func TestPropTopicAgreement(t *testing.T) {
	prog.Check(t, "C18", "TestPropTopicAgreement", genTopic, runTopic)
}

// ---- (b) envelope round trip -------------------------------------------------------------------

type EnvProg struct {
	Msg []byte `json:"msg"`
	Op  uint64 `json:"op"`
	Sig []byte `json:"sig"`
	Raw []byte `json:"raw"` // arbitrary bytes for the decode-only direction
}

func runEnvelope(p EnvProg) *prog.Result {
	res := &prog.Result{NonTrivial: len(p.Msg) > 0 && len(p.Sig) == 256}
	fail := func(sig, f string, a ...any) *prog.Result {
		res.Fail = prog.Failf("C18:"+sig, f, a...)
		return res
	}
	if len(p.Sig) == 256 {
		enc := commons.EncodeSignedSSVMessage(p.Msg, p.Op, p.Sig)
		m, op, sig, err := commons.DecodeSignedSSVMessage(enc)
		if err != nil {
			return fail("envelope-decode-error", "decode(encode(..)) failed: %v", err)
		}
		if !bytes.Equal(m, p.Msg) || op != p.Op || !bytes.Equal(sig, p.Sig) {
			return fail("envelope-roundtrip", "decode(encode(msg[%d], %d, sig)) returned (msg[%d] equal=%v, %d, sig equal=%v)", len(p.Msg), p.Op, len(m), bytes.Equal(m, p.Msg), op, bytes.Equal(sig, p.Sig))
		}
		if len(enc) != 256+8+len(p.Msg) {
			return fail("envelope-length", "encoded length %d", len(enc))
		}
	}
	m, op, sig, err := commons.DecodeSignedSSVMessage(p.Raw)
	if len(p.Raw) < 264 {
		if err == nil {
			return fail("envelope-short-accepted", "decoding %d bytes (< header) succeeded", len(p.Raw))
		}
	} else {
		if err != nil {
			return fail("envelope-long-refused", "decoding %d bytes failed: %v", len(p.Raw), err)
		}
		// decode then encode is the identity on well-sized input
		if re := commons.EncodeSignedSSVMessage(m, op, sig); !bytes.Equal(re, p.Raw) {
			return fail("envelope-reencode", "encode(decode(raw)) != raw")
		}
	}
	return res
}

func genEnvelope(t *rapid.T) EnvProg {
	return EnvProg{
		Msg: rapid.SliceOfN(rapid.Byte(), 0, 4096).Draw(t, "msg"),
		Op:  rapid.OneOf(rapid.Uint64Range(0, 20), rapid.Uint64()).Draw(t, "op"),
		Sig: rapid.SliceOfN(rapid.Byte(), 256, 256).Draw(t, "sig"),
		Raw: rapid.SliceOfN(rapid.Byte(), 0, rapid.SampledFrom([]int{10, 263, 264, 265, 600}).Draw(t, "rawmax")).Draw(t, "raw"),
	}
}

func TestPropEnvelope(t *testing.T) {
	prog.Check(t, "C18", "TestPropEnvelope", genEnvelope, runEnvelope)
}

// ---- (c) subnet bitmap string round trip -----------------------------------------------------------

type SubnetProg struct {
	Bits []byte `json:"bits"` // 128 entries, 0/1
}

func runSubnets(p SubnetProg) *prog.Result {
	res := &prog.Result{}
	fail := func(sig, f string, a ...any) *prog.Result {
		res.Fail = prog.Failf("C18:"+sig, f, a...)
		return res
	}
	s := records.Subnets(p.Bits)
	str := s.String()
	if len(str) != 32 {
		return fail("subnets-string-length", "String() of a 128-entry vector has length %d: %q", len(str), str)
	}
	back, err := records.Subnets{}.FromString(str)
	if err != nil {
		return fail("subnets-fromstring-error", "FromString(%q): %v", str, err)
	}
	if !bytes.Equal(back, p.Bits) {
		return fail("subnets-roundtrip", "FromString(String(v)) != v\nv   =%v\nback=%v", p.Bits, []byte(back))
	}
	back2, err := records.Subnets{}.FromString("0x" + strings.ToUpper(str))
	if err != nil || !bytes.Equal(back2, p.Bits) {
		return fail("subnets-roundtrip-0x", "FromString with 0x prefix / upper case differs (err=%v)", err)
	}
	ones := 0
	for _, b := range p.Bits {
		ones += int(b)
	}
	if s.Active() != ones {
		return fail("subnets-active", "Active()=%d, vector has %d ones", s.Active(), ones)
	}
	res.NonTrivial = ones > 0 && ones < 128
	return res
}

func genSubnets(t *rapid.T) SubnetProg {
	bits := make([]byte, 128)
	switch rapid.IntRange(0, 3).Draw(t, "shape") {
	case 0: // sparse
		for _, i := range rapid.SliceOfN(rapid.IntRange(0, 127), 0, 6).Draw(t, "set") {
			bits[i] = 1
		}
	case 1: // dense
		for i := range bits {
			bits[i] = 1
		}
		for _, i := range rapid.SliceOfN(rapid.IntRange(0, 127), 0, 6).Draw(t, "clear") {
			bits[i] = 0
		}
	default:
		raw := rapid.SliceOfN(rapid.Byte(), 16, 16).Draw(t, "raw")
		for i := range bits {
			bits[i] = (raw[i/8] >> (i % 8)) & 1
		}
	}
	return SubnetProg{Bits: bits}
}

func TestPropSubnets(t *testing.T) { prog.Check(t, "C18", "TestPropSubnets", genSubnets, runSubnets) }

// ---- (c2) the encoding of a vector does not depend on earlier or concurrent encodings --------------------------
//
// String() is called from connection handlers, the subnets-update loop and log fields, on vectors of 128 entries
// but also on empty ones (a node with no subnets) and on shorter ones (a peer's short announcement). A case is a list
// of vectors encoded one after another and then by several goroutines at once; every result must be the encoding
// computed here from the vector alone (entry i -> bit i%8 of byte i/8, absent entries 0, 32 hex digits).

type SubnetHistProg struct {
	Vecs    [][]byte `json:"vecs"` // 0..128 entries each, 0/1
	Workers int      `json:"workers"`
}

func encodeSubnets(v []byte) string {
	var b [16]byte
	for i, x := range v {
		if i < 128 && x > 0 {
			b[i/8] |= 1 << uint(i%8)
		}
	}
	return hex.EncodeToString(b[:])
}

func runSubnetHist(p SubnetHistProg) *prog.Result {
	res := &prog.Result{}
	short := false
	for i, v := range p.Vecs {
		short = short || len(v) < 128
		if got, want := records.Subnets(v).String(), encodeSubnets(v); got != want {
			res.Fail = prog.Failf("C18:subnets-string-depends-on-history", "vector #%d (%d entries) encoded after %d others: String() = %q, the vector alone encodes to %q", i, len(v), i, got, want)
			return res
		}
	}
	if p.Workers > 1 {
		var wg sync.WaitGroup
		bad := make(chan string, p.Workers)
		for w := 0; w < p.Workers; w++ {
			wg.Add(1)
			go func(w int) {
				defer wg.Done()
				for rep := 0; rep < 200; rep++ {
					v := p.Vecs[(w+rep)%len(p.Vecs)]
					if got, want := records.Subnets(v).String(), encodeSubnets(v); got != want {
						select {
						case bad <- fmt.Sprintf("worker %d: String() of a %d-entry vector = %q, want %q", w, len(v), got, want):
						default:
						}
						return
					}
				}
			}(w)
		}
		wg.Wait()
		select {
		case m := <-bad:
			res.Fail = prog.Failf("C18:subnets-string-concurrent", "%d goroutines encoding %d vectors at once: %s", p.Workers, len(p.Vecs), m)
			return res
		default:
		}
	}
	res.NonTrivial = len(p.Vecs) > 1
	res.Classes = []string{fmt.Sprintf("has-short-vector=%v", short), fmt.Sprintf("workers>1=%v", p.Workers > 1)}
	return res
}

func genSubnetHist(t *rapid.T) SubnetHistProg {
	n := rapid.IntRange(2, 6).Draw(t, "nvecs")
	p := SubnetHistProg{Workers: rapid.SampledFrom([]int{1, 4, 16}).Draw(t, "workers")}
	for i := 0; i < n; i++ {
		l := rapid.SampledFrom([]int{128, 128, 128, 0, 1, 8, 24, 127}).Draw(t, "len")
		v := make([]byte, l)
		switch rapid.IntRange(0, 2).Draw(t, "fill") {
		case 0:
			for j := range v {
				v[j] = 1
			}
		case 1:
			for _, j := range rapid.SliceOfN(rapid.IntRange(0, 127), 0, 8).Draw(t, "set") {
				if j < l {
					v[j] = 1
				}
			}
		}
		p.Vecs = append(p.Vecs, v)
	}
	return p
}

func TestPropSubnetsHistory(t *testing.T) {
	prog.Check(t, "C18", "TestPropSubnetsHistory", genSubnetHist, runSubnetHist)
}

// Native coverage-guided variants of (b) and (c) for the thorough tier.
func FuzzEnvelope(f *testing.F) {
	f.Add([]byte("payload"), uint64(7), []byte{1, 2, 3})
	f.Add([]byte{}, uint64(1<<63), make([]byte, 264))
	f.Fuzz(func(t *testing.T, msg []byte, op uint64, raw []byte) {
		sig := make([]byte, 256)
		for i := range sig {
			if len(raw) > 0 {
				sig[i] = raw[i%len(raw)]
			}
		}
		prog.CheckOne(t, "C18", "TestPropEnvelope", EnvProg{Msg: msg, Op: op, Sig: sig, Raw: raw}, runEnvelope)
	})
}

func FuzzSubnets(f *testing.F) {
	f.Add(make([]byte, 16))
	f.Add([]byte{0xff, 0, 0xaa, 0x55, 1, 2, 4, 8, 16, 32, 64, 128, 0, 0, 0, 0xff})
	f.Fuzz(func(t *testing.T, raw []byte) {
		bits := make([]byte, 128)
		for i := range bits {
			if len(raw) > 0 {
				bits[i] = (raw[(i/8)%len(raw)] >> (i % 8)) & 1
			}
		}
		prog.CheckOne(t, "C18", "TestPropSubnets", SubnetProg{Bits: bits}, runSubnets)
	})
}

func TestReplayMore(t *testing.T) {
	prog.Replay(t, "C18", "TestPropEnvelopeAcrossActivation", runFork)
	prog.Replay(t, "C18", "TestPropSubnetsHistory", runSubnetHist)
}

func TestReplay(t *testing.T) {
	prog.Replay(t, "C18", "TestPropTopicAgreement", runTopic)
	prog.Replay(t, "C18", "TestPropEnvelope", runEnvelope)
	prog.Replay(t, "C18", "TestPropSubnets", runSubnets)
}
