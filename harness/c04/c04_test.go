package c04

// C04 — "An operator never signs a slashable attestation or block, across restarts".
//
// Programs are operation sequences over 1..3 BLS key shares executed on the REAL ekm signer
// (ekm.NewETHKeyManagerSigner -> eth2-key-manager SimpleSigner + NormalProtection) on REAL Badger.
// The oracle is a history invariant written from the statement: the harness keeps every signature the
// signer ever returned per share (the history survives restarts and remove/re-add because the harness
// keeps it, not the signer) and checks every new successful signature against all earlier ones.

import (
	"bytes"
	"encoding/hex"
	"errors"
	"fmt"
	"os"
	"runtime"
	"sort"
	"strings"
	"sync"
	"sync/atomic"
	"testing"
	"time"

	apiv1capella "github.com/attestantio/go-eth2-client/api/v1/capella"
	"github.com/attestantio/go-eth2-client/spec/altair"
	"github.com/attestantio/go-eth2-client/spec/bellatrix"
	"github.com/attestantio/go-eth2-client/spec/capella"
	"github.com/attestantio/go-eth2-client/spec/phase0"
	"github.com/bloxapp/eth2-key-manager/core"
	spectypes "github.com/bloxapp/ssv-spec/types"
	ssz "github.com/ferranbt/fastssz"
	"github.com/herumi/bls-eth-go-binary/bls"
	"github.com/prysmaticlabs/go-bitfield"
	"go.uber.org/zap"
	"pgregory.net/rapid"

	"github.com/bloxapp/ssv/ekm"
	"github.com/bloxapp/ssv/networkconfig"
	"github.com/bloxapp/ssv/protocol/v2/blockchain/beacon"
	"github.com/bloxapp/ssv/storage/basedb"
	"github.com/bloxapp/ssv/storage/kv"

	"verif/harness/internal/prog"
)

func TestMain(m *testing.M) {
	code := m.Run()
	prog.Flush()
	if p := raceLogPath(); p != "" {
		_ = os.Remove(p)
	}
	os.Exit(code)
}

// ---- fixed material ------------------------------------------------------------------------

const (
	beaconNet     = spectypes.MainNetwork // genesis Dec 2020: the real clock is > 10^5 epochs ahead of the virtual one
	slotsPerEpoch = 32
	// db prefixes, copied from ekm/signer_storage.go (objPrefix = network name + constant)
	attPrefix  = string(beaconNet) + "signer_data-highest_att-"
	propPrefix = string(beaconNet) + "signer_data-highest_prop-"
	encKey     = "6b1f0c3e5a7d9b2f4c6e8a0b1d3f5a7c9e0b2d4f6a8c1e3f5b7d9a0c2e4f6a8b" // 32 bytes hex -> AES-256
)

var shareSKHex = []string{
	"3548db63ab5701878daf25fa877638dc7809778815b9d9ecd5369da33ca9e64f",
	"66dd37ae71b35c81022cdde98370e881cff896b689fa9136917f45afce43fd3b",
	"1f2e3d4c5b6a79880796a5b4c3d2e1f00112233445566778899aabbccddeeff0",
	"2a3b4c5d6e7f8091a2b3c4d5e6f708192a3b4c5d6e7f8091a2b3c4d5e6f70819", // 4th share: multi-share concurrency test only
}

var (
	initOnce   sync.Once
	shareSK    []*bls.SecretKey
	sharePK    [][]byte
	attDomain  phase0.Domain
	propDomain phase0.Domain
	clockSane  bool // the real clock is far above every virtual clock value the harness can reach
)

func setup() {
	initOnce.Do(func() {
		spectypes.InitBLS() // same as utils/threshold.Init: bls.Init(BLS12_381) + ETH mode
		for _, h := range shareSKHex {
			sk := &bls.SecretKey{}
			if err := sk.SetHexString(h); err != nil {
				panic(err)
			}
			shareSK = append(shareSK, sk)
			sharePK = append(sharePK, sk.GetPublicKey().Serialize())
		}
		fv := beaconNet.ForkVersion()
		attDomain, _ = spectypes.ComputeETHDomain(spectypes.DomainAttester, fv, phase0.Root{})
		propDomain, _ = spectypes.ComputeETHDomain(spectypes.DomainProposer, fv, phase0.Root{})
		// eth2-key-manager's far-future check (signer/far_future_protection.go) compares target/source/slot
		// with core.Network(<name>).EstimatedSlotAtTime(time.Now()+20min), i.e. the REAL clock. The virtual
		// clock stays below epoch 1000; the check can only fire if the machine clock is before ~Dec 2020.
		clockSane = core.Network(beaconNet).EstimatedCurrentEpoch() > 100000
	})
}

// clockNet is the real beacon.Network with the two wall-clock reads replaced by a virtual clock.
// ekm reads: GetBeaconNetwork (db prefix, core.Network name), EstimatedCurrentSlot, EstimatedEpochAtSlot.
type clockNet struct {
	beacon.Network
	slot *atomic.Uint64
}

func (c clockNet) EstimatedCurrentSlot() phase0.Slot { return phase0.Slot(c.slot.Load()) }
func (c clockNet) EstimatedCurrentEpoch() phase0.Epoch {
	return c.EstimatedEpochAtSlot(c.EstimatedCurrentSlot())
}

// faultDB sits between ekm (NewSignerStorage / NewETHKeyManagerSigner get it as their basedb.Database) and
// the real Badger store. It passes everything through except
//   - reads of keys marked unreadable (error until the next restart),
//   - the next failWrites Set/SetMany calls under the highest-attestation and/or highest-proposal prefix,
//     which are NOT performed and return an error (the storage medium refused the write).
//
// Using(nil)/UsingReader(nil) return the wrapper, as BadgerDB returns itself.
type faultDB struct {
	basedb.Database
	mu         sync.Mutex
	unreadable map[string]bool
	failWrites int    // remaining writes to fail
	failScope  string // att | prop | both
	fired      int    // writes failed so far
}

var (
	errInjectedRead  = errors.New("injected read error")
	errInjectedWrite = errors.New("injected write error")
)

func (f *faultDB) Get(prefix []byte, key []byte) (basedb.Obj, bool, error) {
	f.mu.Lock()
	bad := f.unreadable[string(prefix)+string(key)]
	f.mu.Unlock()
	if bad {
		return basedb.Obj{}, true, errInjectedRead // same shape as badgerTxn.Get on a non-"not found" error
	}
	return f.Database.Get(prefix, key)
}

func (f *faultDB) arm(k int, scope string) {
	f.mu.Lock()
	f.failWrites, f.failScope = k, scope
	f.mu.Unlock()
}

func (f *faultDB) firedCount() int {
	f.mu.Lock()
	defer f.mu.Unlock()
	return f.fired
}

func (f *faultDB) failNow(prefix []byte) bool {
	f.mu.Lock()
	defer f.mu.Unlock()
	if f.failWrites <= 0 {
		return false
	}
	isAtt, isProp := string(prefix) == attPrefix, string(prefix) == propPrefix
	if (isAtt && f.failScope != "prop") || (isProp && f.failScope != "att") {
		f.failWrites--
		f.fired++
		return true
	}
	return false
}

func (f *faultDB) Set(prefix []byte, key []byte, value []byte) error {
	if f.failNow(prefix) {
		return errInjectedWrite
	}
	return f.Database.Set(prefix, key, value)
}

func (f *faultDB) SetMany(prefix []byte, n int, next func(int) (basedb.Obj, error)) error {
	if f.failNow(prefix) {
		return errInjectedWrite
	}
	return f.Database.SetMany(prefix, n, next)
}

func (f *faultDB) Using(rw basedb.ReadWriter) basedb.ReadWriter {
	if rw == nil {
		return f
	}
	return rw
}

func (f *faultDB) UsingReader(r basedb.Reader) basedb.Reader {
	if r == nil {
		return f
	}
	return r
}

// ---- program ------------------------------------------------------------------------------

type Op struct {
	Op   string `json:"op"`             // add remove react att blk clock restart lose fault
	Sh   int    `json:"sh,omitempty"`   // share index
	DT   uint64 `json:"dt,omitempty"`   // att: target = clockEpoch-dt; blk: slot = clockSlot-dt
	DS   uint64 `json:"ds,omitempty"`   // att: source = target-1-ds
	V    int    `json:"v,omitempty"`    // content variant: same epochs/slot, different root
	Kind string `json:"kind,omitempty"` // blk: full|blinded; lose: att|prop|both|unreadable-att|unreadable-prop; fault: att|prop|both
	N    uint64 `json:"n,omitempty"`    // clock: slots to advance; fault: number of record writes that fail next
}

type Prog struct {
	Shares    int    `json:"shares"`
	Disk      bool   `json:"disk"`    // on-disk Badger, closed and re-opened at every restart
	Enc       bool   `json:"enc"`     // account encryption key set
	Builder   bool   `json:"builder"` // builderProposals flag of the signer
	StartSlot uint64 `json:"start_slot"`
	Ops       []Op   `json:"ops"`
}

type attRec struct {
	s, t uint64
	root [32]byte
	step int
	gen  [3]int // barrier counters at signing time: restarts, re-adds, reactivations
}

type blkRec struct {
	slot uint64
	root [32]byte
	step int
	gen  [3]int
}

// sharedMem is one in-memory Badger per process, emptied (all keys of the network prefix deleted and
// verified gone) before every sequential in-memory case: opening a Badger instance costs 10-20x more than
// a whole case. On-disk cases and the concurrency test always get their own instance.
var sharedMem *kv.BadgerDB

type world struct {
	builder bool
	enc     bool
	disk    bool
	shared  bool
	dir     string
	raw     *kv.BadgerDB
	fdb     *faultDB
	km      spectypes.KeyManager
	slot    *atomic.Uint64
	net     clockNet
}

func (w *world) openDB() error {
	var err error
	switch {
	case w.disk:
		w.raw, err = kv.New(zap.NewNop(), basedb.Options{Path: w.dir})
	case w.shared:
		if sharedMem == nil {
			if sharedMem, err = kv.NewInMemory(zap.NewNop(), basedb.Options{}); err != nil {
				return err
			}
		}
		w.raw = sharedMem
		if _, err = w.raw.DeletePrefix([]byte(beaconNet)); err == nil {
			var n int64
			if n, err = w.raw.CountPrefix(nil); err == nil && n != 0 {
				err = fmt.Errorf("shared db not empty: %d keys", n)
			}
		}
		if err != nil { // give up sharing, take a fresh instance
			_ = sharedMem.Close()
			sharedMem = nil
			w.shared = false
			w.raw, err = kv.NewInMemory(zap.NewNop(), basedb.Options{})
		}
	default:
		w.raw, err = kv.NewInMemory(zap.NewNop(), basedb.Options{})
	}
	if err != nil {
		return err
	}
	w.fdb = &faultDB{Database: w.raw, unreadable: map[string]bool{}}
	return nil
}

func (w *world) newSigner() error {
	nc := networkconfig.NetworkConfig{Name: "c04", Beacon: w.net, Domain: networkconfig.TestNetwork.Domain}
	key := ""
	if w.enc {
		key = encKey
	}
	km, err := ekm.NewETHKeyManagerSigner(zap.NewNop(), w.fdb, nc, w.builder, key)
	if err != nil {
		return err
	}
	w.km = km
	return nil
}

// restart drops signer and storage objects and builds new ones on the same database.
func (w *world) restart() error {
	w.km = nil
	if w.disk {
		if err := w.raw.Close(); err != nil {
			return err
		}
		if err := w.openDB(); err != nil {
			return err
		}
	} else {
		w.fdb = &faultDB{Database: w.raw, unreadable: map[string]bool{}}
	}
	return w.newSigner()
}

func (w *world) close() {
	if w.raw != nil && !w.shared {
		_ = w.raw.Close()
	}
	if w.dir != "" {
		_ = os.RemoveAll(w.dir)
	}
}

func (w *world) present(prefix string, pk []byte) bool {
	_, found, err := w.raw.Get([]byte(prefix), pk)
	return found && err == nil
}

func newWorld(disk, shared, enc, builder bool, startSlot uint64) (*world, error) {
	w := &world{disk: disk, shared: shared && !disk, enc: enc, builder: builder, slot: &atomic.Uint64{}}
	w.slot.Store(startSlot)
	w.net = clockNet{Network: beacon.NewNetwork(beaconNet), slot: w.slot}
	if disk {
		base := os.Getenv("VERIF_TMP")
		if base == "" {
			base = "/var/tmp"
		}
		d, err := os.MkdirTemp(base, "c04-db-")
		if err != nil {
			return nil, err
		}
		w.dir = d
	}
	if err := w.openDB(); err != nil {
		w.close()
		return nil, err
	}
	if err := w.newSigner(); err != nil {
		w.close()
		return nil, err
	}
	return w, nil
}

// ---- beacon objects -----------------------------------------------------------------------

func mkAtt(s, t uint64, v int) *phase0.AttestationData {
	d := &phase0.AttestationData{
		Slot:   phase0.Slot(t * slotsPerEpoch),
		Index:  1,
		Source: &phase0.Checkpoint{Epoch: phase0.Epoch(s)},
		Target: &phase0.Checkpoint{Epoch: phase0.Epoch(t)},
	}
	d.BeaconBlockRoot[0] = byte(v + 1)
	d.Source.Root[0] = 0xa0
	d.Target.Root[0] = 0xb0
	return d
}

func seq32(b byte) (r [32]byte) {
	for i := range r {
		r[i] = b + byte(i)
	}
	return
}

func mkBlock(slot uint64, v int) *capella.BeaconBlock {
	var sig phase0.BLSSignature
	for i := range sig {
		sig[i] = byte(i)
	}
	blockHash := seq32(0x60)
	return &capella.BeaconBlock{
		Slot:          phase0.Slot(slot),
		ProposerIndex: 7,
		ParentRoot:    seq32(byte(v + 1)),
		StateRoot:     seq32(0x20),
		Body: &capella.BeaconBlockBody{
			RANDAOReveal:      sig,
			ETH1Data:          &phase0.ETH1Data{DepositRoot: seq32(0x40), BlockHash: blockHash[:]},
			Graffiti:          seq32(0),
			ProposerSlashings: []*phase0.ProposerSlashing{},
			AttesterSlashings: []*phase0.AttesterSlashing{},
			Attestations:      []*phase0.Attestation{},
			Deposits:          []*phase0.Deposit{},
			VoluntaryExits:    []*phase0.SignedVoluntaryExit{},
			SyncAggregate:     &altair.SyncAggregate{SyncCommitteeBits: bitfield.NewBitvector512(), SyncCommitteeSignature: sig},
			ExecutionPayload: &capella.ExecutionPayload{
				ParentHash: seq32(1), StateRoot: seq32(2), ReceiptsRoot: seq32(3), PrevRandao: seq32(4),
				BaseFeePerGas: seq32(5), BlockHash: seq32(6),
				Transactions: []bellatrix.Transaction{}, Withdrawals: []*capella.Withdrawal{},
			},
			BLSToExecutionChanges: []*capella.SignedBLSToExecutionChange{},
		},
	}
}

func mkBlinded(slot uint64, v int) *apiv1capella.BlindedBeaconBlock {
	var sig phase0.BLSSignature
	for i := range sig {
		sig[i] = byte(i)
	}
	blockHash := seq32(0x60)
	return &apiv1capella.BlindedBeaconBlock{
		Slot:          phase0.Slot(slot),
		ProposerIndex: 7,
		ParentRoot:    seq32(byte(v + 1)),
		StateRoot:     seq32(0x20),
		Body: &apiv1capella.BlindedBeaconBlockBody{
			RANDAOReveal:      sig,
			ETH1Data:          &phase0.ETH1Data{DepositRoot: seq32(0x40), BlockHash: blockHash[:]},
			Graffiti:          seq32(0),
			ProposerSlashings: []*phase0.ProposerSlashing{},
			AttesterSlashings: []*phase0.AttesterSlashing{},
			Attestations:      []*phase0.Attestation{},
			Deposits:          []*phase0.Deposit{},
			VoluntaryExits:    []*phase0.SignedVoluntaryExit{},
			SyncAggregate:     &altair.SyncAggregate{SyncCommitteeBits: bitfield.NewBitvector512(), SyncCommitteeSignature: sig},
			ExecutionPayloadHeader: &capella.ExecutionPayloadHeader{
				ParentHash: seq32(1), StateRoot: seq32(2), ReceiptsRoot: seq32(3), PrevRandao: seq32(4),
				BaseFeePerGas: seq32(5), BlockHash: seq32(6), TransactionsRoot: seq32(8), WithdrawalsRoot: seq32(9),
			},
			BLSToExecutionChanges: []*capella.SignedBLSToExecutionChange{},
		},
	}
}

func mkBlk(slot uint64, v int, kind string) ssz.HashRoot {
	if kind == "blinded" {
		return mkBlinded(slot, v)
	}
	return mkBlock(slot, v)
}

// ---- oracle -------------------------------------------------------------------------------

// attConflict returns "" when signing b after a is not slashable, else the clause that is broken.
func attConflict(a, b attRec) string {
	if a.root == b.root {
		return "" // the identical attestation data: a set does not contain it twice
	}
	switch {
	case a.t == b.t:
		return "double-vote"
	case a.s < b.s && b.t < a.t:
		return "surrounded"
	case b.s < a.s && a.t < b.t:
		return "surrounding"
	}
	return ""
}

func between(old, now [3]int) string {
	var parts []string
	for i, n := range []string{"restart", "readd", "reactivate"} {
		if now[i] > old[i] {
			parts = append(parts, n)
		}
	}
	if len(parts) == 0 {
		return "same-lifetime"
	}
	return strings.Join(parts, "+")
}

func fail(res *prog.Result, sig, f string, a ...any) *prog.Result {
	res.Fail = prog.Failf("C04:"+sig, f, a...)
	return res
}

func discard(test, why string) *prog.Result {
	prog.Count(test, "discard:"+why, 1)
	return &prog.Result{Discard: true}
}

// ---- interpreter --------------------------------------------------------------------------

const seqTest = "TestPropNoSlashableSignature"

func run(p Prog) (res *prog.Result) {
	setup()
	if !clockSane {
		return discard(seqTest, "machine-clock-before-2021")
	}
	res = &prog.Result{}
	w, err := newWorld(p.Disk, true, p.Enc, p.Builder, p.StartSlot)
	if err != nil {
		return discard(seqTest, "db-open")
	}
	defer w.close()

	n := p.Shares
	added := make([]bool, n)
	everRemoved := make([]bool, n)
	gen := make([][3]int, n) // per share: restarts, re-adds, reactivations so far
	atts := make([][]attRec, n)
	blks := make([][]blkRec, n)
	classes := map[string]bool{}
	if p.Disk {
		classes["db=disk"] = true
	} else {
		classes["db=mem"] = true
	}
	if p.Enc {
		classes["encrypted-accounts"] = true
	}
	count := func(k string) { prog.Count(seqTest, k, 1) }

	for step, op := range p.Ops {
		k := 0
		if n > 0 {
			k = ((op.Sh % n) + n) % n
		}
		pk := sharePK[k]
		clockSlot := w.slot.Load()
		clockEpoch := clockSlot / slotsPerEpoch
		switch op.Op {
		case "clock":
			w.slot.Add(op.N)

		case "restart":
			if err := w.restart(); err != nil {
				return discard(seqTest, "restart-error")
			}
			for i := range gen {
				gen[i][0]++
			}
			classes["restart"] = true

		case "add":
			// handleShareCreation -> keyManager.AddShare(shareSecret); on an existing account it is the
			// idempotent re-execution after a crash before the registry transaction committed.
			err := w.km.AddShare(shareSK[k])
			if err != nil {
				if strings.Contains(err.Error(), errInjectedRead.Error()) {
					classes["add-refused-unreadable"] = true
					continue
				}
				if strings.Contains(err.Error(), errInjectedWrite.Error()) {
					// the bump failed before saveShare: the account was not created
					classes["add-refused-write-fault"] = true
					continue
				}
				return discard(seqTest, "addshare-error")
			}
			if !added[k] {
				added[k] = true
				if everRemoved[k] {
					gen[k][1]++
					classes["re-add"] = true
				}
			} else {
				classes["add-existing"] = true
			}

		case "remove":
			// handleValidatorRemoved -> keyManager.RemoveShare(hex(sharePubKey))
			if err := w.km.RemoveShare(hex.EncodeToString(pk)); err != nil {
				return discard(seqTest, "removeshare-error")
			}
			if added[k] {
				added[k] = false
				everRemoved[k] = true
				classes["remove"] = true
			}

		case "react":
			// handleClusterReactivated -> keyManager.(ekm.StorageProvider).BumpSlashingProtection(share.SharePubKey)
			// only for shares of the operator that are in the registry, i.e. that were added before.
			if !added[k] {
				count("skipped-op")
				continue
			}
			if err := w.km.(ekm.StorageProvider).BumpSlashingProtection(pk); err != nil {
				if strings.Contains(err.Error(), errInjectedRead.Error()) {
					classes["reactivate-refused-unreadable"] = true
					continue
				}
				if strings.Contains(err.Error(), errInjectedWrite.Error()) {
					classes["reactivate-refused-write-fault"] = true
					continue
				}
				return discard(seqTest, "bump-error")
			}
			gen[k][2]++
			classes["reactivate"] = true

		case "lose":
			if !added[k] {
				count("skipped-op")
				continue
			}
			switch op.Kind {
			case "att", "both":
				_ = w.raw.Delete([]byte(attPrefix), pk)
			}
			switch op.Kind {
			case "prop", "both":
				_ = w.raw.Delete([]byte(propPrefix), pk)
			}
			w.fdb.mu.Lock()
			switch op.Kind {
			case "unreadable-att":
				w.fdb.unreadable[attPrefix+string(pk)] = true
			case "unreadable-prop":
				w.fdb.unreadable[propPrefix+string(pk)] = true
			}
			w.fdb.mu.Unlock()
			classes["lose-record:"+op.Kind] = true

		case "fault":
			// the next op.N writes of high-water marks (scope op.Kind) are refused by the storage
			w.fdb.arm(int(op.N), op.Kind)
			classes["write-fault-armed:"+op.Kind] = true

		case "att":
			if !added[k] {
				count("skipped-op")
				continue
			}
			t := clockEpoch - op.DT
			s := t - 1 - op.DS
			data := mkAtt(s, t, op.V)
			objRoot, _ := data.HashTreeRoot()
			rec := attRec{s: s, t: t, root: objRoot, step: step, gen: gen[k]}
			conflict, with := "", attRec{}
			for _, a := range atts[k] {
				if c := attConflict(a, rec); c != "" {
					conflict, with = c, a
					break
				}
			}
			present := w.present(attPrefix, pk)
			w.fdb.mu.Lock()
			unreadable := w.fdb.unreadable[attPrefix+string(pk)]
			w.fdb.mu.Unlock()
			chk := w.km.IsAttestationSlashable(pk, data)
			firedBefore := w.fdb.firedCount()
			sig, _, err := w.km.SignBeaconObject(data, attDomain, pk, spectypes.DomainAttester)
			faulted := w.fdb.firedCount() > firedBefore
			switch {
			case (chk == nil) == (err == nil):
				count("check-agrees-with-sign")
			case faulted:
				count("check-ok-but-sign-failed-on-write-fault")
			default:
				count("check-disagrees-with-sign")
			}
			if err != nil || len(sig) == 0 {
				switch {
				case faulted:
					classes["write-fault-during-sign:att:refused"] = true
					count("att-refused-write-fault")
				case !present || unreadable:
					classes["refused:record-missing"] = true
					count("att-refused-record-missing")
				case conflict != "":
					classes["refused:slashable-att"] = true
					count("att-refused-slashable")
				default:
					count("att-refused-not-slashable")
				}
				continue
			}
			count("att-signed")
			if faulted {
				// released although the record write failed: it counts in the set like any other signature
				classes["write-fault-during-sign:att:released"] = true
			}
			if !present {
				return fail(res, "signed-without-record:att", "step %d: share %d attestation (source %d, target %d) was signed although no highest-attestation record exists in the db (clock epoch %d)", step, k, s, t, clockEpoch)
			}
			if unreadable {
				return fail(res, "signed-with-unreadable-record:att", "step %d: share %d attestation (source %d, target %d) was signed although the highest-attestation record cannot be read", step, k, s, t)
			}
			if conflict != "" {
				return fail(res, "slashable-att:"+conflict+":"+between(with.gen, rec.gen),
					"step %d: share %d signed attestation (source %d, target %d, root %x) which is %s w.r.t. the attestation (source %d, target %d, root %x) signed at step %d; between the two: %s; clock epoch %d",
					step, k, s, t, objRoot[:4], conflict, with.s, with.t, with.root[:4], with.step, between(with.gen, rec.gen), clockEpoch)
			}
			if len(atts[k]) > 0 {
				markBetween(res, classes, atts[k][len(atts[k])-1].gen, rec.gen)
			}
			atts[k] = append(atts[k], rec)

		case "blk":
			if !added[k] {
				count("skipped-op")
				continue
			}
			slot := clockSlot - op.DT
			kind := op.Kind
			if kind == "blinded" && !p.Builder {
				kind = "full" // a node without builder proposals never produces blinded blocks
			}
			obj := mkBlk(slot, op.V, kind)
			objRoot, _ := obj.HashTreeRoot()
			rec := blkRec{slot: slot, root: objRoot, step: step, gen: gen[k]}
			var with *blkRec
			for i := range blks[k] {
				if blks[k][i].slot == slot && blks[k][i].root != objRoot {
					with = &blks[k][i]
					break
				}
			}
			present := w.present(propPrefix, pk)
			w.fdb.mu.Lock()
			unreadable := w.fdb.unreadable[propPrefix+string(pk)]
			w.fdb.mu.Unlock()
			chk := w.km.IsBeaconBlockSlashable(pk, phase0.Slot(slot))
			firedBefore := w.fdb.firedCount()
			sig, _, err := w.km.SignBeaconObject(obj, propDomain, pk, spectypes.DomainProposer)
			faulted := w.fdb.firedCount() > firedBefore
			switch {
			case (chk == nil) == (err == nil):
				count("check-agrees-with-sign")
			case faulted:
				count("check-ok-but-sign-failed-on-write-fault")
			default:
				count("check-disagrees-with-sign")
			}
			if err != nil || len(sig) == 0 {
				switch {
				case faulted:
					classes["write-fault-during-sign:blk:refused"] = true
					count("blk-refused-write-fault")
				case !present || unreadable:
					classes["refused:record-missing"] = true
					count("blk-refused-record-missing")
				case with != nil:
					classes["refused:slashable-blk"] = true
					count("blk-refused-slashable")
				default:
					count("blk-refused-not-slashable")
				}
				continue
			}
			count("blk-signed")
			if faulted {
				classes["write-fault-during-sign:blk:released"] = true
			}
			if kind == "blinded" {
				classes["blinded-block-signed"] = true
			}
			if !present {
				return fail(res, "signed-without-record:blk", "step %d: share %d block at slot %d was signed although no highest-proposal record exists in the db (clock slot %d)", step, k, slot, clockSlot)
			}
			if unreadable {
				return fail(res, "signed-with-unreadable-record:blk", "step %d: share %d block at slot %d was signed although the highest-proposal record cannot be read", step, k, slot)
			}
			if with != nil {
				return fail(res, "double-proposal:"+between(with.gen, rec.gen),
					"step %d: share %d signed a block for slot %d (root %x) although a different block (root %x) for the same slot was signed at step %d; between the two: %s; clock slot %d",
					step, k, slot, objRoot[:4], with.root[:4], with.step, between(with.gen, rec.gen), clockSlot)
			}
			if len(blks[k]) > 0 {
				markBetween(res, classes, blks[k][len(blks[k])-1].gen, rec.gen)
			}
			blks[k] = append(blks[k], rec)

		default:
			panic("bad op " + op.Op)
		}
	}
	for c := range classes {
		res.Classes = append(res.Classes, c)
	}
	sort.Strings(res.Classes)
	return res
}

// markBetween applies the non-trivial rule: a restart or a remove/re-add lies between two successful
// signatures of one share.
func markBetween(res *prog.Result, classes map[string]bool, old, now [3]int) {
	if now[0] > old[0] {
		res.NonTrivial = true
		classes["signed-across:restart"] = true
	}
	if now[1] > old[1] {
		res.NonTrivial = true
		classes["signed-across:re-add"] = true
	}
	if now[2] > old[2] {
		classes["signed-across:reactivate"] = true
	}
}

// ---- generator ----------------------------------------------------------------------------

var opKinds = []string{
	"att", "att", "att", "att", "att", "att", "att", "att",
	"blk", "blk", "blk", "blk", "blk", "blk",
	"clock", "clock", "clock", "clock", "clock", "clock", "clock",
	"restart", "restart", "restart",
	"add", "add", "add",
	"remove", "remove",
	"react", "react",
	"lose",
	"fault",
}

func genOp(t *rapid.T) Op {
	o := Op{Op: rapid.SampledFrom(opKinds).Draw(t, "op"), Sh: rapid.IntRange(0, 2).Draw(t, "sh")}
	switch o.Op {
	case "att":
		o.DT = rapid.SampledFrom([]uint64{0, 0, 0, 1, 1, 2, 3}).Draw(t, "dt")
		o.DS = rapid.SampledFrom([]uint64{0, 0, 1, 2, 3}).Draw(t, "ds")
		o.V = rapid.IntRange(0, 2).Draw(t, "v")
	case "blk":
		o.DT = rapid.SampledFrom([]uint64{0, 0, 0, 1, 1, 2, 3}).Draw(t, "dt")
		o.V = rapid.IntRange(0, 2).Draw(t, "v")
		o.Kind = rapid.SampledFrom([]string{"full", "full", "blinded"}).Draw(t, "kind")
	case "clock":
		o.N = rapid.SampledFrom([]uint64{1, 1, 2, 5, 31, 32, 32, 33, 64, 70}).Draw(t, "n")
	case "lose":
		o.Kind = rapid.SampledFrom([]string{"att", "prop", "both", "unreadable-att", "unreadable-prop"}).Draw(t, "kind")
	case "fault":
		o.N = rapid.SampledFrom(faultK).Draw(t, "k")
		o.Kind = rapid.SampledFrom([]string{"att", "prop", "both"}).Draw(t, "scope")
	}
	return o
}

// number of consecutive record writes that fail: up to 4, so that a bounded retry loop cannot hide the fault
var faultK = []uint64{1, 2, 3, 3, 4, 4, 4}

// genChunk draws one op or a short idiom that makes a later signature possible at all (the record is
// pinned at the clock by AddShare / reactivation, so nothing is signable before the clock moved on).
func genChunk(t *rapid.T) []Op {
	sh := rapid.IntRange(0, 2).Draw(t, "csh")
	epochs := func() Op {
		return Op{Op: "clock", N: rapid.SampledFrom([]uint64{32, 32, 33, 40, 64, 70}).Draw(t, "cn")}
	}
	slots := func() Op { return Op{Op: "clock", N: rapid.SampledFrom([]uint64{1, 1, 2, 5}).Draw(t, "cs")} }
	att := func() Op {
		return Op{Op: "att", Sh: sh, DS: rapid.SampledFrom([]uint64{0, 0, 1}).Draw(t, "cds"), V: rapid.IntRange(0, 2).Draw(t, "cv")}
	}
	blk := func() Op {
		return Op{Op: "blk", Sh: sh, V: rapid.IntRange(0, 2).Draw(t, "cbv"), Kind: rapid.SampledFrom([]string{"full", "full", "blinded"}).Draw(t, "cbk")}
	}
	// after a lifecycle event: sign at once (the boundary where an off-by-one in the bump shows), after a
	// few slots, or after whole epochs
	after := func(ops ...Op) []Op {
		switch rapid.SampledFrom([]string{"now", "now", "slots", "epochs", "epochs"}).Draw(t, "after") {
		case "slots":
			ops = append(ops, slots())
		case "epochs":
			ops = append(ops, epochs())
		}
		a, b := att(), blk()
		a.DT = rapid.SampledFrom([]uint64{0, 0, 0, 1}).Draw(t, "adt")
		b.DT = rapid.SampledFrom([]uint64{0, 0, 0, 1}).Draw(t, "bdt")
		return append(ops, a, b)
	}
	switch rapid.SampledFrom([]string{"one", "one", "one", "one", "one", "one", "adv-att", "adv-att", "adv-blk", "restart-sign", "readd-sign", "readd-sign", "react-sign", "lose-sign", "fault-att", "fault-att", "fault-blk"}).Draw(t, "chunk") {
	case "fault-att":
		// an attestation is requested while the record write fails, then one that conflicts with it (same
		// target / surrounding / surrounded), in the same process or after a restart on the same db
		ops := []Op{{Op: "clock", N: rapid.SampledFrom([]uint64{64, 70, 96}).Draw(t, "fcn")},
			{Op: "fault", N: rapid.SampledFrom(faultK).Draw(t, "fk"), Kind: rapid.SampledFrom([]string{"att", "att", "both"}).Draw(t, "fs")}}
		v := rapid.IntRange(0, 2).Draw(t, "fv")
		wide := rapid.SampledFrom([]uint64{2, 3}).Draw(t, "fw")
		var a, b Op
		switch rapid.SampledFrom([]string{"double", "double", "surrounding", "surrounded"}).Draw(t, "fpat") {
		case "double":
			dt := rapid.SampledFrom([]uint64{0, 0, 1}).Draw(t, "fdt")
			a = Op{Op: "att", Sh: sh, DT: dt, DS: rapid.SampledFrom([]uint64{0, 1}).Draw(t, "fds"), V: v}
			b = Op{Op: "att", Sh: sh, DT: dt, DS: rapid.SampledFrom([]uint64{0, 1}).Draw(t, "fds2"), V: (v + 1) % 3}
		case "surrounding":
			a = Op{Op: "att", Sh: sh, DT: 1, DS: 0, V: v}
			b = Op{Op: "att", Sh: sh, DT: 0, DS: wide, V: v}
		default:
			a = Op{Op: "att", Sh: sh, DT: 0, DS: wide, V: v}
			b = Op{Op: "att", Sh: sh, DT: 1, DS: 0, V: v}
		}
		ops = append(ops, a)
		if rapid.IntRange(0, 3).Draw(t, "frs") == 0 {
			ops = append(ops, Op{Op: "restart"})
		}
		return append(ops, b)
	case "fault-blk":
		ops := []Op{slots(), {Op: "fault", N: rapid.SampledFrom(faultK).Draw(t, "fk"), Kind: rapid.SampledFrom([]string{"prop", "prop", "both"}).Draw(t, "fs")}}
		a := blk()
		b := a
		b.V = (a.V + 1) % 3
		ops = append(ops, a)
		if rapid.IntRange(0, 3).Draw(t, "frs") == 0 {
			ops = append(ops, Op{Op: "restart"})
		}
		return append(ops, b)
	case "adv-att":
		return []Op{epochs(), att()}
	case "adv-blk":
		return []Op{slots(), blk()}
	case "restart-sign":
		return after(Op{Op: "restart"})
	case "readd-sign":
		return after(Op{Op: "remove", Sh: sh}, Op{Op: "add", Sh: sh})
	case "react-sign":
		return after(Op{Op: "react", Sh: sh})
	case "lose-sign":
		kind := rapid.SampledFrom([]string{"att", "prop", "both", "unreadable-att", "unreadable-prop"}).Draw(t, "lk")
		return []Op{epochs(), {Op: "lose", Sh: sh, Kind: kind}, att(), blk()}
	}
	return []Op{genOp(t)}
}

func gen(t *rapid.T) Prog {
	p := Prog{
		Shares:    rapid.IntRange(1, 3).Draw(t, "shares"),
		Disk:      rapid.IntRange(0, 15).Draw(t, "disk") == 0,
		Enc:       rapid.Bool().Draw(t, "enc"),
		Builder:   rapid.Bool().Draw(t, "builder"),
		StartSlot: rapid.Uint64Range(10*slotsPerEpoch, 12*slotsPerEpoch+31).Draw(t, "start"),
	}
	// real callers add a share before anything else happens to it
	for i := 0; i < p.Shares; i++ {
		p.Ops = append(p.Ops, Op{Op: "add", Sh: i})
	}
	for _, c := range rapid.SliceOfN(rapid.Custom(genChunk), 1, 24).Draw(t, "chunks") {
		p.Ops = append(p.Ops, c...)
	}
	if len(p.Ops) > 60 {
		p.Ops = p.Ops[:60]
	}
	return p
}

func TestPropNoSlashableSignature(t *testing.T) { prog.Check(t, "C04", seqTest, gen, run) }

func TestReplay(t *testing.T) {
	prog.Replay(t, "C04", seqTest, run)
	prog.Replay(t, "C04", concTest, runConc)
	prog.Replay(t, "C04", msTest, func(p MSProg) *prog.Result { return runMS(msTest, p) })
	prog.Replay(t, "C04", msRaceTest, func(p MSProg) *prog.Result { return runMS(msRaceTest, p) })
}

// ---- concurrency clause -------------------------------------------------------------------

const concTest = "TestPropConcurrentSign"

type ConcProg struct {
	Builder   bool   `json:"builder"`
	StartSlot uint64 `json:"start_slot"`
	Warm      []Op   `json:"warm"`    // sequential prefix on share 0 (att/blk/clock/restart)
	Workers   [][]Op `json:"workers"` // each worker signs its objects in order, all workers at once, all for share 0
	Bump      bool   `json:"bump"`    // one more goroutine runs the reactivation bump concurrently
}

type signed struct {
	att  *attRec
	blk  *blkRec
	who  int
	conc bool
}

// leaked counts worker goroutines of earlier cases that are blocked for ever inside
// eth2-key-manager's SimpleSigner.lock/unlock (see deadlocked()).
var leaked int

// deadlocked reports whether every one of the `pending` unfinished goroutines of the current case is
// blocked inside (*SimpleSigner).lock / (*SimpleSigner).unlock. Those two functions only wait for the
// signer's own mutexes, which only such goroutines can release: if all of them wait, none ever proceeds.
func deadlocked(pending int) bool {
	buf := make([]byte, 1<<20)
	for {
		n := runtime.Stack(buf, true)
		if n < len(buf) {
			buf = buf[:n]
			break
		}
		buf = make([]byte, 2*len(buf))
	}
	blocked := 0
	for _, g := range bytes.Split(buf, []byte("\n\ngoroutine ")) {
		if !bytes.Contains(g, []byte("signer.(*SimpleSigner).lock(")) && !bytes.Contains(g, []byte("signer.(*SimpleSigner).unlock(")) {
			continue
		}
		head := g
		if i := bytes.IndexByte(g, '\n'); i >= 0 {
			head = g[:i]
		}
		if bytes.Contains(head, []byte("[running]")) || bytes.Contains(head, []byte("[runnable]")) {
			continue
		}
		if bytes.Contains(g, []byte("sync.(*RWMutex).Lock(")) || bytes.Contains(g, []byte("sync.(*RWMutex).RLock(")) || bytes.Contains(g, []byte("sync.(*Mutex).Lock(")) {
			blocked++
		}
	}
	return blocked >= leaked+pending
}

func runConc(p ConcProg) (res *prog.Result) {
	setup()
	if !clockSane {
		return discard(concTest, "machine-clock-before-2021")
	}
	res = &prog.Result{}
	w, err := newWorld(false, false, false, p.Builder, p.StartSlot)
	if err != nil {
		return discard(concTest, "db-open")
	}
	closeDB := true
	defer func() {
		if closeDB {
			w.close()
		}
	}()
	pk := sharePK[0]
	if err := w.km.AddShare(shareSK[0]); err != nil {
		return discard(concTest, "addshare-error")
	}
	var hist []signed
	signOne := func(op Op, who int, conc bool) *signed {
		clockSlot := w.slot.Load()
		switch op.Op {
		case "att":
			t := clockSlot/slotsPerEpoch - op.DT
			s := t - 1 - op.DS
			data := mkAtt(s, t, op.V)
			root, _ := data.HashTreeRoot()
			sig, _, err := w.km.SignBeaconObject(data, attDomain, pk, spectypes.DomainAttester)
			if err == nil && len(sig) > 0 {
				return &signed{att: &attRec{s: s, t: t, root: root}, who: who, conc: conc}
			}
		case "blk":
			slot := clockSlot - op.DT
			kind := op.Kind
			if !p.Builder {
				kind = "full"
			}
			obj := mkBlk(slot, op.V, kind)
			root, _ := obj.HashTreeRoot()
			sig, _, err := w.km.SignBeaconObject(obj, propDomain, pk, spectypes.DomainProposer)
			if err == nil && len(sig) > 0 {
				return &signed{blk: &blkRec{slot: slot, root: root}, who: who, conc: conc}
			}
		}
		return nil
	}
	for _, op := range p.Warm {
		switch op.Op {
		case "clock":
			w.slot.Add(op.N)
		case "restart":
			if err := w.restart(); err != nil {
				return discard(concTest, "restart-error")
			}
		default:
			if s := signOne(op, -1, false); s != nil {
				hist = append(hist, *s)
			}
		}
	}

	// all workers at once
	var mu sync.Mutex
	var done atomic.Int64
	start := make(chan struct{})
	total := len(p.Workers)
	if p.Bump {
		total++
	}
	for i, ops := range p.Workers {
		go func(i int, ops []Op) {
			defer done.Add(1)
			<-start
			for _, op := range ops {
				if s := signOne(op, i, true); s != nil {
					mu.Lock()
					hist = append(hist, *s)
					mu.Unlock()
				}
			}
		}(i, ops)
	}
	if p.Bump {
		go func() {
			defer done.Add(1)
			<-start
			_ = w.km.(ekm.StorageProvider).BumpSlashingProtection(pk)
		}()
	}
	close(start)
	began := time.Now()
	last, lastChange := int64(0), time.Now()
	for {
		d := done.Load()
		if int(d) == total {
			break
		}
		if d != last {
			last, lastChange = d, time.Now()
		}
		// wall clock is used only to decide when to LOOK for a deadlock or to give up judging, never as a verdict
		if time.Since(lastChange) > 50*time.Millisecond && deadlocked(total-int(d)) {
			// Re-check after a pause: the state must be stable.
			time.Sleep(20 * time.Millisecond)
			if d2 := done.Load(); d2 == d && deadlocked(total-int(d)) {
				leaked += total - int(d)
				prog.Count(concTest, "discard:signer-deadlock(eth2-key-manager SimpleSigner.lock/unlock)", 1)
				// every unfinished goroutine is parked on a mutex for ever; none touches the db again:
				// close it and cut the references the parked goroutines still hold
				w.close()
				closeDB = false
				w.fdb.Database, w.raw = nil, nil
				return &prog.Result{Discard: true}
			}
		}
		if time.Since(began) > 60*time.Second {
			closeDB = false // somebody may still be running: leave the db alone
			return discard(concTest, "watchdog")
		}
		time.Sleep(200 * time.Microsecond)
	}

	// oracle: the set of released signatures is pairwise non-slashable
	mu.Lock()
	defer mu.Unlock()
	nConc := 0
	for i := range hist {
		if hist[i].conc {
			nConc++
		}
		for j := 0; j < i; j++ {
			a, b := hist[j], hist[i]
			if !a.conc && !b.conc {
				continue // the sequential test judges those
			}
			if a.att != nil && b.att != nil {
				if c := attConflict(*a.att, *b.att); c != "" {
					if c == "surrounded" || c == "surrounding" {
						c = "surround"
					}
					return fail(res, "concurrent:slashable-att:"+c, "attestations (source %d, target %d, root %x) [worker %d] and (source %d, target %d, root %x) [worker %d] were both signed for one share",
						a.att.s, a.att.t, a.att.root[:4], a.who, b.att.s, b.att.t, b.att.root[:4], b.who)
				}
			}
			if a.blk != nil && b.blk != nil && a.blk.slot == b.blk.slot && a.blk.root != b.blk.root {
				return fail(res, "concurrent:double-proposal", "two different blocks for slot %d (roots %x [worker %d], %x [worker %d]) were both signed for one share",
					a.blk.slot, a.blk.root[:4], a.who, b.blk.root[:4], b.who)
			}
		}
	}
	res.NonTrivial = len(p.Workers) >= 2
	res.Classes = []string{fmt.Sprintf("workers=%d", len(p.Workers)), fmt.Sprintf("concurrent-successes=%d", min(nConc, 4))}
	if p.Bump {
		res.Classes = append(res.Classes, "with-concurrent-bump")
	}
	return res
}

func genConcSign(t *rapid.T) Op {
	o := Op{Op: rapid.SampledFrom([]string{"att", "att", "blk"}).Draw(t, "op")}
	o.DT = rapid.SampledFrom([]uint64{0, 0, 1, 2}).Draw(t, "dt")
	o.V = rapid.IntRange(0, 3).Draw(t, "v")
	if o.Op == "att" {
		o.DS = rapid.SampledFrom([]uint64{0, 1, 2, 3}).Draw(t, "ds")
	} else {
		o.Kind = rapid.SampledFrom([]string{"full", "blinded"}).Draw(t, "kind")
	}
	return o
}

func genConc(t *rapid.T) ConcProg {
	p := ConcProg{
		Builder:   rapid.Bool().Draw(t, "builder"),
		StartSlot: rapid.Uint64Range(10*slotsPerEpoch, 12*slotsPerEpoch+31).Draw(t, "start"),
		Bump:      rapid.Bool().Draw(t, "bump"),
	}
	nw := rapid.IntRange(0, 3).Draw(t, "warm")
	for i := 0; i < nw; i++ {
		p.Warm = append(p.Warm, genConcSign(t))
	}
	// AddShare pins the record at the clock: move on so that the workers' objects are signable at all
	p.Warm = append(p.Warm, Op{Op: "clock", N: rapid.SampledFrom([]uint64{32, 64, 96, 130}).Draw(t, "adv")})
	if rapid.Bool().Draw(t, "restart") {
		p.Warm = append(p.Warm, Op{Op: "restart"})
	}
	k := rapid.IntRange(2, 3).Draw(t, "k")
	for i := 0; i < k; i++ {
		p.Workers = append(p.Workers, rapid.SliceOfN(rapid.Custom(genConcSign), 1, 2).Draw(t, "w"))
	}
	return p
}

func TestPropConcurrentSign(t *testing.T) { prog.Check(t, "C04", concTest, genConc, runConc) }

// ---- concurrent requests for DIFFERENT shares ---------------------------------------------
//
// The ekm storage object is shared by all shares of the node and its read paths take only a read lock.
// 2..4 shares, each with its own history, some with a much lower highest attestation than others, get
// signing requests at the same time: one goroutine per share (never two for one share: that is the
// dependency's deadlock, see above) runs the share's request list many times per round, while Spin more
// goroutines hammer the slashing pre-check / record lookup of the LOW shares. Every share's released set is
// judged against its own model; per share the requests are sequential, so the oracle is exact whatever
// the schedule. The interference looked for: share A's slashing check sees share B's (lower) record.

const (
	msTest     = "TestPropConcurrentShares"
	msRaceTest = "TestPropConcurrentSharesRace"
)

type MSReq struct {
	Op   string `json:"op"` // att blk chk (chk = IsAttestationSlashable only)
	DT   uint64 `json:"dt,omitempty"`
	DS   uint64 `json:"ds,omitempty"`
	V    int    `json:"v,omitempty"`
	Kind string `json:"kind,omitempty"`
}

type MSRound struct {
	Adv  uint64    `json:"adv"`  // slots the clock advances before the round
	Reps int       `json:"reps"` // every share's list is run this many times, back to back
	Reqs [][]MSReq `json:"reqs"` // per share
}

type MSProg struct {
	Builder   bool      `json:"builder"`
	StartSlot uint64    `json:"start_slot"`
	Lag       []uint64  `json:"lag"`  // per share: epochs its duties (and its record) lag behind the clock; len = #shares
	Spin      int       `json:"spin"` // goroutines spinning on pre-checks / record lookups of the low shares
	Rounds    []MSRound `json:"rounds"`
}

type msShare struct {
	atts     []attRec
	blks     []blkRec
	requests int
	refusedC int // refused and conflicting with the own model
	refusedN int // refused although not conflicting
	chkOdd   int // pre-check returned nil for an attestation that conflicts with the own released set
	fail     *prog.Failure
}

func runMS(test string, p MSProg) (res *prog.Result) {
	setup()
	if !clockSane {
		return discard(test, "machine-clock-before-2021")
	}
	res = &prog.Result{}
	n := len(p.Lag)
	w, err := newWorld(false, true, false, p.Builder, p.StartSlot)
	if err != nil {
		return discard(test, "db-open")
	}
	defer w.close()
	// shares with the largest lag are added first; the clock then moves on before the next is added
	order := make([]int, n)
	maxLag := uint64(0)
	for i := range order {
		order[i] = i
		if p.Lag[i] > maxLag {
			maxLag = p.Lag[i]
		}
	}
	sort.SliceStable(order, func(a, b int) bool { return p.Lag[order[a]] > p.Lag[order[b]] })
	startEpoch := p.StartSlot / slotsPerEpoch
	for _, i := range order {
		want := (startEpoch + maxLag - p.Lag[i]) * slotsPerEpoch
		if cur := w.slot.Load(); want > cur {
			w.slot.Store(want + p.StartSlot%slotsPerEpoch)
		}
		if err := w.km.AddShare(shareSK[i]); err != nil {
			return discard(test, "addshare-error")
		}
	}
	var low []int
	for i := 0; i < n; i++ {
		if p.Lag[i] == maxLag {
			low = append(low, i)
		}
	}
	shares := make([]*msShare, n)
	for i := range shares {
		shares[i] = &msShare{}
	}
	sp := w.km.(ekm.StorageProvider)

	serve := func(i int, r MSReq) {
		sh := shares[i]
		pk := sharePK[i]
		clockSlot := w.slot.Load()
		sh.requests++
		switch r.Op {
		case "att", "chk":
			t := clockSlot/slotsPerEpoch - p.Lag[i] - r.DT
			s := t - 1 - r.DS
			data := mkAtt(s, t, r.V)
			root, _ := data.HashTreeRoot()
			rec := attRec{s: s, t: t, root: root, step: sh.requests}
			conflict, with := "", attRec{}
			for _, a := range sh.atts {
				if c := attConflict(a, rec); c != "" {
					conflict, with = c, a
					break
				}
			}
			if r.Op == "chk" {
				if w.km.IsAttestationSlashable(pk, data) == nil && conflict != "" {
					sh.chkOdd++
				}
				return
			}
			sig, _, err := w.km.SignBeaconObject(data, attDomain, pk, spectypes.DomainAttester)
			if err != nil || len(sig) == 0 {
				if conflict != "" {
					sh.refusedC++
				} else {
					sh.refusedN++
				}
				return
			}
			if conflict != "" && sh.fail == nil {
				if conflict != "double-vote" {
					conflict = "surround"
				}
				sh.fail = prog.Failf("C04:multishare:slashable-att:"+conflict,
					"share %d (lag %d epochs) signed attestation (source %d, target %d, root %x) which conflicts with its own earlier attestation (source %d, target %d, root %x) while %d other share(s) were served concurrently (lags %v, %d pre-check spinners)",
					i, p.Lag[i], s, t, root[:4], with.s, with.t, with.root[:4], n-1, p.Lag, p.Spin)
			}
			sh.atts = append(sh.atts, rec)
		case "blk":
			slot := clockSlot - p.Lag[i]*slotsPerEpoch - r.DT
			kind := r.Kind
			if !p.Builder {
				kind = "full"
			}
			obj := mkBlk(slot, r.V, kind)
			root, _ := obj.HashTreeRoot()
			var with *blkRec
			for k := range sh.blks {
				if sh.blks[k].slot == slot && sh.blks[k].root != root {
					with = &sh.blks[k]
					break
				}
			}
			sig, _, err := w.km.SignBeaconObject(obj, propDomain, pk, spectypes.DomainProposer)
			if err != nil || len(sig) == 0 {
				if with != nil {
					sh.refusedC++
				} else {
					sh.refusedN++
				}
				return
			}
			if with != nil && sh.fail == nil {
				sh.fail = prog.Failf("C04:multishare:double-proposal", "share %d signed a second, different block for slot %d (roots %x, %x) while other shares were served concurrently", i, slot, with.root[:4], root[:4])
			}
			sh.blks = append(sh.blks, blkRec{slot: slot, root: root})
		}
	}

	for _, rd := range p.Rounds {
		w.slot.Add(rd.Adv)
		var signers, spinners sync.WaitGroup
		var stop atomic.Bool
		start := make(chan struct{})
		for i := 0; i < n && i < len(rd.Reqs); i++ {
			signers.Add(1)
			go func(i int, reqs []MSReq) {
				defer signers.Done()
				<-start
				for rep := 0; rep < rd.Reps; rep++ {
					for _, r := range reqs {
						serve(i, r)
					}
				}
			}(i, rd.Reqs[i])
		}
		for j := 0; j < p.Spin; j++ {
			spinners.Add(1)
			go func(j int) {
				defer spinners.Done()
				i := low[j%len(low)]
				pk := sharePK[i]
				e := w.slot.Load()/slotsPerEpoch - p.Lag[i]
				data := mkAtt(e-1, e, j%3)
				<-start
				for c := 0; !stop.Load(); c++ {
					if c%2 == 0 {
						_ = w.km.IsAttestationSlashable(pk, data)
					} else {
						_, _, _ = sp.RetrieveHighestAttestation(pk)
					}
				}
			}(j)
		}
		close(start)
		done := make(chan struct{})
		go func() { signers.Wait(); stop.Store(true); spinners.Wait(); close(done) }()
		select {
		case <-done:
		case <-time.After(120 * time.Second): // never a verdict: the case is simply not judged
			stop.Store(true)
			sharedMem = nil // somebody may still use it: never hand it to another case
			w.raw = nil
			return discard(test, "watchdog")
		}
	}

	if reports := raceReports(); len(reports) > 0 {
		for _, r := range reports {
			if raceInCodeUnderTest(r) {
				return fail(res, "data-race", "the race detector reports a data race inside the code under test while different shares are served concurrently:\n%s", r)
			}
			fmt.Printf("C04: race report outside the code under test (not judged):\n%s\n", r)
			prog.Count(test, "race-report-outside-code-under-test", 1)
		}
	}
	released, refusedC, refusedN, chkOdd, requests := 0, 0, 0, 0, 0
	for _, sh := range shares {
		if sh.fail != nil {
			res.Fail = sh.fail
			return res
		}
		released += len(sh.atts) + len(sh.blks)
		refusedC += sh.refusedC
		refusedN += sh.refusedN
		chkOdd += sh.chkOdd
		requests += sh.requests
	}
	prog.Count(test, "requests", requests)
	prog.Count(test, "released", released)
	prog.Count(test, "refused-conflicting", refusedC)
	prog.Count(test, "refused-not-conflicting", refusedN)
	prog.Count(test, "precheck-nil-for-conflicting(not judged)", chkOdd)
	// non-trivial: at least two shares released signatures, and a share with a higher record refused conflicting requests
	active := 0
	for _, sh := range shares {
		if len(sh.atts)+len(sh.blks) > 0 {
			active++
		}
	}
	res.NonTrivial = active >= 2 && refusedC > 0
	res.Classes = []string{fmt.Sprintf("shares=%d", n), fmt.Sprintf("shares-releasing=%d", active)}
	switch {
	case maxLag == 0:
		res.Classes = append(res.Classes, "record-gap=0")
	case maxLag < 8:
		res.Classes = append(res.Classes, "record-gap=1..7-epochs")
	default:
		res.Classes = append(res.Classes, "record-gap>=8-epochs")
	}
	if refusedC > 0 {
		res.Classes = append(res.Classes, "conflicting-requests-refused-under-concurrency")
	}
	return res
}

func genMSReq(t *rapid.T) MSReq {
	r := MSReq{Op: rapid.SampledFrom([]string{"att", "att", "att", "att", "chk", "blk"}).Draw(t, "op")}
	r.DT = rapid.SampledFrom([]uint64{0, 0, 0, 1, 1, 2}).Draw(t, "dt")
	r.V = rapid.IntRange(0, 2).Draw(t, "v")
	if r.Op == "blk" {
		r.Kind = rapid.SampledFrom([]string{"full", "blinded"}).Draw(t, "kind")
	} else {
		r.DS = rapid.SampledFrom([]uint64{0, 0, 1, 2, 3}).Draw(t, "ds")
	}
	return r
}

func genMS(t *rapid.T) MSProg {
	n := rapid.IntRange(2, 4).Draw(t, "shares")
	p := MSProg{
		Builder:   rapid.Bool().Draw(t, "builder"),
		StartSlot: rapid.Uint64Range(10*slotsPerEpoch, 12*slotsPerEpoch+31).Draw(t, "start"),
		Spin:      rapid.IntRange(2, 16).Draw(t, "spin"),
	}
	// at least one share at the clock and, mostly, at least one far behind
	for i := 0; i < n; i++ {
		p.Lag = append(p.Lag, rapid.SampledFrom([]uint64{0, 0, 1, 3, 10, 25, 40}).Draw(t, "lag"))
	}
	p.Lag[rapid.IntRange(0, n-1).Draw(t, "hi")] = 0
	nr := rapid.IntRange(2, 6).Draw(t, "rounds")
	for r := 0; r < nr; r++ {
		rd := MSRound{
			Adv:  rapid.SampledFrom([]uint64{0, 1, 32, 32, 33, 64}).Draw(t, "adv"),
			Reps: rapid.IntRange(4, 40).Draw(t, "reps"),
		}
		if r == 0 {
			rd.Adv = 64 // the records were pinned at the clock by AddShare
		}
		for i := 0; i < n; i++ {
			reqs := []MSReq{{Op: "att", V: rapid.IntRange(0, 2).Draw(t, "v0")}} // a fresh vote first, then mostly conflicting ones
			reqs = append(reqs, rapid.SliceOfN(rapid.Custom(genMSReq), 1, 4).Draw(t, "reqs")...)
			rd.Reqs = append(rd.Reqs, reqs)
		}
		p.Rounds = append(p.Rounds, rd)
	}
	return p
}

func TestPropConcurrentShares(t *testing.T) {
	prog.Check(t, "C04", msTest, genMS, func(p MSProg) *prog.Result { return runMS(msTest, p) })
}

// Same programs under the race detector (thorough tier; GORACE=log_path=... lets the harness read the reports).
func TestPropConcurrentSharesRace(t *testing.T) {
	prog.Check(t, "C04", msRaceTest, genMS, func(p MSProg) *prog.Result { return runMS(msRaceTest, p) })
}

// ---- race detector reports ----------------------------------------------------------------

var (
	raceLogOff int64
	raceLogMu  sync.Mutex
)

// raceLogPath returns the file the race runtime writes its reports to when GORACE contains log_path=<p>
// (the runtime appends ".<pid>"). Without that setting (or in a build without -race) there is nothing to read.
func raceLogPath() string {
	for _, f := range strings.Fields(os.Getenv("GORACE")) {
		if v, ok := strings.CutPrefix(f, "log_path="); ok && v != "" && v != "stderr" && v != "stdout" {
			return fmt.Sprintf("%s.%d", v, os.Getpid())
		}
	}
	return ""
}

// raceReports returns the race reports written since the last call.
func raceReports() []string {
	path := raceLogPath()
	if path == "" {
		return nil
	}
	raceLogMu.Lock()
	defer raceLogMu.Unlock()
	b, err := os.ReadFile(path)
	if err != nil || int64(len(b)) <= raceLogOff {
		return nil
	}
	fresh := string(b[raceLogOff:])
	raceLogOff = int64(len(b))
	var out []string
	for _, blk := range strings.Split(fresh, "==================") {
		if strings.Contains(blk, "WARNING: DATA RACE") {
			out = append(out, strings.TrimSpace(blk))
		}
	}
	return out
}

// raceInCodeUnderTest: both conflicting accesses have their innermost non-runtime frame in a package of
// github.com/bloxapp/ssv (not in the harness, not in a dependency).
func raceInCodeUnderTest(report string) bool {
	lines := strings.Split(report, "\n")
	accesses, inCUT := 0, 0
	for i := 0; i < len(lines); i++ {
		l := strings.TrimSpace(lines[i])
		isAccess := false
		for _, pfx := range []string{"Write at ", "Read at ", "Previous write at ", "Previous read at ", "Atomic write at ", "Previous atomic write at ", "Atomic read at ", "Previous atomic read at "} {
			if strings.HasPrefix(l, pfx) {
				isAccess = true
			}
		}
		if !isAccess {
			continue
		}
		accesses++
		for j := i + 1; j < len(lines); j++ {
			f := strings.TrimSpace(lines[j])
			if f == "" {
				break
			}
			if !strings.HasSuffix(f, ")") || strings.HasPrefix(f, "/") { // file:line lines
				continue
			}
			if strings.HasPrefix(f, "runtime.") || strings.HasPrefix(f, "sync.") || strings.HasPrefix(f, "sync/atomic.") || strings.HasPrefix(f, "internal/") {
				continue
			}
			if strings.HasPrefix(f, "github.com/bloxapp/ssv/") {
				inCUT++
			}
			break
		}
	}
	return accesses >= 2 && inCUT == accesses
}
