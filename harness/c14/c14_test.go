package c14

import (
	"context"
	"fmt"
	"sort"
	"sync"
	"testing"
	"time"

	"github.com/attestantio/go-eth2-client/spec/phase0"
	specqbft "github.com/bloxapp/ssv-spec/qbft"
	spectypes "github.com/bloxapp/ssv-spec/types"
	"pgregory.net/rapid"

	ssvmessage "github.com/bloxapp/ssv/protocol/v2/message"
	"github.com/bloxapp/ssv/protocol/v2/ssv/queue"
	ssvtypes "github.com/bloxapp/ssv/protocol/v2/types"

	"verif/harness/internal/prog"
)

func TestMain(m *testing.M) { prog.Main(m) }

// ---- program ------------------------------------------------------------------------------

type MsgSpec struct {
	Kind    string `json:"kind"` // exec timeout proposal prepare commit rc decided pre post
	Height  uint64 `json:"h"`
	Round   uint64 `json:"r"`
	Slot    uint64 `json:"s"`
	Signers int    `json:"n"`
}

type StateSpec struct {
	Running bool   `json:"running"`
	Height  uint64 `json:"h"`
	Round   uint64 `json:"r"`
	Slot    uint64 `json:"s"`
	Quorum  uint64 `json:"q"`
}

type FilterSpec struct {
	Kind  string   `json:"kind"` // any none idle noproposal ids kinds
	IDs   []int    `json:"ids,omitempty"`
	Kinds []string `json:"kinds,omitempty"`
}

type Op struct {
	Op     string      `json:"op"` // push trypush trypop popc
	Msg    *MsgSpec    `json:"msg,omitempty"`
	State  *StateSpec  `json:"state,omitempty"`
	Filter *FilterSpec `json:"filter,omitempty"`
}

type Prog struct {
	Cap int  `json:"cap"`
	Ops []Op `json:"ops"`
}

var kinds = []string{"exec", "timeout", "proposal", "prepare", "commit", "rc", "decided", "pre", "post"}

func build(s MsgSpec) *queue.DecodedSSVMessage {
	m := &queue.DecodedSSVMessage{SSVMessage: &spectypes.SSVMessage{}}
	cons := func(t specqbft.MessageType, signers int) {
		m.MsgType = spectypes.SSVConsensusMsgType
		sg := make([]spectypes.OperatorID, signers)
		for i := range sg {
			sg[i] = spectypes.OperatorID(i + 1)
		}
		m.Body = &specqbft.SignedMessage{Signers: sg, Message: specqbft.Message{MsgType: t,
			Height: specqbft.Height(s.Height), Round: specqbft.Round(s.Round)}}
	}
	part := func(t spectypes.PartialSigMsgType) {
		m.MsgType = spectypes.SSVPartialSignatureMsgType
		m.Body = &spectypes.SignedPartialSignatureMessage{Signer: 1, Message: spectypes.PartialSignatureMessages{
			Type: t, Slot: phase0.Slot(s.Slot)}}
	}
	switch s.Kind {
	case "exec":
		m.MsgType = ssvmessage.SSVEventMsgType
		m.Body = &ssvtypes.EventMsg{Type: ssvtypes.ExecuteDuty}
	case "timeout":
		m.MsgType = ssvmessage.SSVEventMsgType
		m.Body = &ssvtypes.EventMsg{Type: ssvtypes.Timeout}
	case "proposal":
		cons(specqbft.ProposalMsgType, 1)
	case "prepare":
		cons(specqbft.PrepareMsgType, 1)
	case "commit":
		cons(specqbft.CommitMsgType, 1)
	case "rc":
		cons(specqbft.RoundChangeMsgType, 1)
	case "decided":
		cons(specqbft.CommitMsgType, s.Signers)
	case "pre":
		part(spectypes.SelectionProofPartialSig)
	case "post":
		part(spectypes.PostConsensusPartialSig)
	default:
		panic("bad kind " + s.Kind)
	}
	return m
}

// coarseRank is the documented coarse order, written from the statement: duty start, then timeout,
// then current-height traffic before other heights. It is deliberately NOT the implementation's Prior.
func coarseRank(s MsgSpec, st StateSpec) int {
	switch s.Kind {
	case "exec":
		return 3
	case "timeout":
		return 2
	case "pre", "post":
		if s.Slot == st.Slot {
			return 1
		}
		return 0
	default:
		if s.Height == st.Height {
			return 1
		}
		return 0
	}
}

type entry struct {
	id   int
	spec MsgSpec
	msg  *queue.DecodedSSVMessage
}

func mkFilter(f FilterSpec, st StateSpec, byPtr map[*queue.DecodedSSVMessage]*entry) func(*queue.DecodedSSVMessage) bool {
	switch f.Kind {
	case "any":
		return queue.FilterAny
	case "none":
		return func(*queue.DecodedSSVMessage) bool { return false }
	case "idle": // Validator.ConsumeQueue while no duty is running
		return func(m *queue.DecodedSSVMessage) bool {
			e, ok := m.Body.(*ssvtypes.EventMsg)
			return ok && e.Type == ssvtypes.ExecuteDuty
		}
	case "noproposal": // Validator.ConsumeQueue while no proposal accepted for the current round
		return func(m *queue.DecodedSSVMessage) bool {
			sm, ok := m.Body.(*specqbft.SignedMessage)
			if !ok {
				return true
			}
			if uint64(sm.Message.Height) != st.Height || uint64(sm.Message.Round) != st.Round {
				return true
			}
			return sm.Message.MsgType != specqbft.PrepareMsgType && sm.Message.MsgType != specqbft.CommitMsgType
		}
	case "ids":
		set := map[int]bool{}
		for _, i := range f.IDs {
			set[i] = true
		}
		return func(m *queue.DecodedSSVMessage) bool { e := byPtr[m]; return e != nil && set[e.id] }
	case "kinds":
		set := map[string]bool{}
		for _, k := range f.Kinds {
			set[k] = true
		}
		return func(m *queue.DecodedSSVMessage) bool { e := byPtr[m]; return e != nil && set[e.spec.Kind] }
	}
	panic("bad filter " + f.Kind)
}

// ---- interpreter + oracle -----------------------------------------------------------------

func run(p Prog) *prog.Result {
	res := &prog.Result{}
	q := queue.New(p.Cap)
	var model []*entry // queued, by push order
	byPtr := map[*queue.DecodedSSVMessage]*entry{}
	inboxUpper := 0 // upper bound on messages still in the inbox channel
	nextID := 0
	classes := map[string]bool{}
	remove := func(e *entry) bool {
		for i, x := range model {
			if x == e {
				model = append(model[:i:i], model[i+1:]...)
				return true
			}
		}
		return false
	}
	for step, op := range p.Ops {
		switch op.Op {
		case "push", "trypush":
			e := &entry{id: nextID, spec: *op.Msg, msg: build(*op.Msg)}
			nextID++
			byPtr[e.msg] = e
			if op.Op == "push" {
				if inboxUpper >= p.Cap {
					continue // would block: not generated as an effective op
				}
				q.Push(e.msg)
				model = append(model, e)
				inboxUpper++
			} else {
				ok := q.TryPush(e.msg)
				if ok {
					model = append(model, e)
					inboxUpper++
					if inboxUpper > p.Cap {
						inboxUpper = p.Cap
					}
				} else if inboxUpper < p.Cap {
					return fail(res, "trypush-refused-with-room", "step %d: TryPush returned false although at most %d of %d inbox slots are in use", step, inboxUpper, p.Cap)
				} else {
					classes["trypush-full"] = true
				}
			}
		case "trypop", "popc", "popd":
			filter := mkFilter(*op.Filter, *op.State, byPtr)
			opState := *op.State
			st := &queue.State{HasRunningInstance: opState.Running, Height: specqbft.Height(opState.Height),
				Round: specqbft.Round(opState.Round), Slot: phase0.Slot(opState.Slot), Quorum: opState.Quorum}
			var adm []*entry
			for _, e := range model {
				if filter(e.msg) {
					adm = append(adm, e)
				}
			}
			var got *queue.DecodedSSVMessage
			if op.Op == "trypop" {
				got = q.TryPop(queue.NewMessagePrioritizer(st), filter)
				inboxUpper = 0
			} else {
				ctx, cancel := context.WithCancel(context.Background())
				if op.Op == "popd" {
					cancel()
					ctx, cancel = context.WithTimeout(context.Background(), 300*time.Microsecond) // really waits in Pop's wait loop
				}
				cancel2 := cancel
				if op.Op == "popc" {
					cancel()
				}
				got = q.Pop(ctx, queue.NewMessagePrioritizer(st), filter)
				cancel2()
				// the early-return path of Pop may leave the inbox unread: keep the upper bound
				if got == nil {
					inboxUpper = 0
				}
			}
			if len(adm) > 0 && len(adm) < len(model) {
				classes["filter-partial"] = true
			}
			if len(adm) == 0 && len(model) > 0 {
				classes["filter-rejects-all"] = true
			}
			if got == nil {
				if len(adm) > 0 {
					return fail(res, "pop-nil-with-admissible", "step %d (%s): returned nil although %d admissible message(s) are queued, e.g. #%d %+v (queue holds %d)", step, op.Op, len(adm), adm[0].id, adm[0].spec, len(model))
				}
			} else {
				e := byPtr[got]
				if e == nil || !remove(e) {
					return fail(res, "pop-returned-unqueued", "step %d (%s): returned a message that is not queued (duplicate or invented)", step, op.Op)
				}
				if !filter(got) {
					return fail(res, "pop-returned-inadmissible", "step %d (%s): returned #%d %+v which the filter does not admit", step, op.Op, e.id, e.spec)
				}
				if op.Op == "trypop" {
					r := coarseRank(e.spec, opState)
					for _, a := range adm {
						if coarseRank(a.spec, opState) > r {
							return fail(res, "pop-not-maximal", "step %d: returned #%d %+v (rank %d) while admissible #%d %+v has rank %d", step, e.id, e.spec, r, a.id, a.spec, coarseRank(a.spec, opState))
						}
					}
				}
				// non-trivial: the filter rejected something queued with higher-or-equal coarse rank
				for _, x := range model {
					if !filter(x.msg) {
						res.NonTrivial = true
						classes["pop-past-rejected"] = true
						break
					}
				}
			}
		}
		if n := q.Len(); n != len(model) {
			return fail(res, lenSig(n, len(model)), "step %d (%s): Len()=%d but %d messages were pushed and not yet popped", step, op.Op, n, len(model))
		}
		if q.Empty() != (len(model) == 0) {
			return fail(res, "empty-mismatch", "step %d: Empty()=%v with %d queued", step, q.Empty(), len(model))
		}
	}
	// drain: everything still in the model must come out exactly once
	st := &queue.State{}
	for {
		got := q.TryPop(queue.NewMessagePrioritizer(st), queue.FilterAny)
		if got == nil {
			break
		}
		e := byPtr[got]
		if e == nil || !remove(e) {
			return fail(res, "drain-returned-unqueued", "drain returned a message that is not queued")
		}
	}
	if len(model) != 0 {
		return fail(res, "drain-lost", "drain ended with %d message(s) never returned, first #%d %+v", len(model), model[0].id, model[0].spec)
	}
	for c := range classes {
		res.Classes = append(res.Classes, c)
	}
	sort.Strings(res.Classes)
	return res
}

func lenSig(got, want int) string {
	if got < want {
		return "len-lost"
	}
	return "len-extra"
}

func fail(res *prog.Result, sig, f string, a ...any) *prog.Result {
	res.Fail = prog.Failf("C14:"+sig, f, a...)
	return res
}

// ---- generator ----------------------------------------------------------------------------

func genMsg(t *rapid.T) MsgSpec {
	return MsgSpec{
		Kind:    rapid.SampledFrom(kinds).Draw(t, "kind"),
		Height:  rapid.Uint64Range(0, 3).Draw(t, "h"),
		Round:   rapid.Uint64Range(1, 3).Draw(t, "r"),
		Slot:    rapid.Uint64Range(0, 3).Draw(t, "s"),
		Signers: rapid.IntRange(3, 4).Draw(t, "n"),
	}
}

func genState(t *rapid.T) StateSpec {
	return StateSpec{Running: rapid.Bool().Draw(t, "running"), Height: rapid.Uint64Range(0, 3).Draw(t, "sh"),
		Round: rapid.Uint64Range(1, 3).Draw(t, "sr"), Slot: rapid.Uint64Range(0, 3).Draw(t, "ss"), Quorum: 3}
}

func genFilter(t *rapid.T) FilterSpec {
	k := rapid.SampledFrom([]string{"any", "any", "none", "idle", "noproposal", "noproposal", "ids", "ids", "kinds"}).Draw(t, "filter")
	f := FilterSpec{Kind: k}
	switch k {
	case "ids":
		f.IDs = rapid.SliceOfNDistinct(rapid.IntRange(0, 24), 0, 12, rapid.ID[int]).Draw(t, "ids")
	case "kinds":
		f.Kinds = rapid.SliceOfNDistinct(rapid.SampledFrom(kinds), 0, len(kinds), rapid.ID[string]).Draw(t, "kinds")
	}
	return f
}

func genOp(t *rapid.T) Op {
	switch o := rapid.SampledFrom([]string{"push", "push", "push", "trypush", "trypush", "trypop", "trypop", "trypop", "popc", "popc", "popd"}).Draw(t, "op"); o {
	case "push", "trypush":
		m := genMsg(t)
		return Op{Op: o, Msg: &m}
	default:
		st, f := genState(t), genFilter(t)
		return Op{Op: o, State: &st, Filter: &f}
	}
}

func gen(t *rapid.T) Prog {
	return Prog{Cap: rapid.IntRange(1, 12).Draw(t, "cap"), Ops: rapid.SliceOfN(rapid.Custom(genOp), 1, 40).Draw(t, "ops")}
}

func TestPropQueueModel(t *testing.T) { prog.Check(t, "C14", "TestPropQueueModel", gen, run) }
func TestReplay(t *testing.T) {
	prog.Replay(t, "C14", "TestPropQueueModel", run)
	prog.Replay(t, "C14", "TestPropQueueConcurrent", runConc)
}

// ---- concurrent producers, one consumer ---------------------------------------------------

type ConcProg struct {
	Cap       int          `json:"cap"`
	Producers [][]MsgSpec  `json:"producers"`
	Filters   []FilterSpec `json:"filters"` // consumer cycles through these (kinds/any/none/idle/noproposal)
	State     StateSpec    `json:"state"`
	PopEvery  int          `json:"pop_every"`
}

func runConc(p ConcProg) *prog.Result {
	res := &prog.Result{NonTrivial: len(p.Producers) >= 2}
	q := queue.New(p.Cap)
	byPtr := map[*queue.DecodedSSVMessage]*entry{}
	var all [][]*entry
	id := 0
	total := 0
	for _, pr := range p.Producers {
		var es []*entry
		for _, s := range pr {
			e := &entry{id: id, spec: s, msg: build(s)}
			id++
			byPtr[e.msg] = e
			es = append(es, e)
		}
		total += len(es)
		all = append(all, es)
	}
	pushedOK := make([][]bool, len(all))
	var wg sync.WaitGroup
	for i, es := range all {
		pushedOK[i] = make([]bool, len(es))
		wg.Add(1)
		go func(i int, es []*entry) {
			defer wg.Done()
			for j, e := range es {
				if j%2 == 0 {
					q.Push(e.msg) // consumer keeps draining, so this cannot block forever
					pushedOK[i][j] = true
				} else {
					pushedOK[i][j] = q.TryPush(e.msg)
				}
			}
		}(i, es)
	}
	done := make(chan struct{})
	go func() { wg.Wait(); close(done) }()
	st := &queue.State{HasRunningInstance: p.State.Running, Height: specqbft.Height(p.State.Height),
		Round: specqbft.Round(p.State.Round), Slot: phase0.Slot(p.State.Slot), Quorum: p.State.Quorum}
	popped := map[int]int{}
	k := 0
	finished := false
	for !finished {
		select {
		case <-done:
			finished = true
		default:
		}
		f := FilterSpec{Kind: "any"}
		if len(p.Filters) > 0 {
			f = p.Filters[k%len(p.Filters)]
		}
		k++
		filter := mkFilter(f, p.State, byPtr)
		var got *queue.DecodedSSVMessage
		if k%3 == 0 {
			ctx, cancel := context.WithTimeout(context.Background(), 200*time.Microsecond)
			got = q.Pop(ctx, queue.NewMessagePrioritizer(st), filter) // blocks in the wait loop while producers push
			cancel()
		} else {
			got = q.TryPop(queue.NewMessagePrioritizer(st), filter)
		}
		if got != nil {
			e := byPtr[got]
			if e == nil {
				return fail(res, "conc-pop-invented", "popped a message nobody pushed")
			}
			if !filter(got) {
				return fail(res, "conc-pop-inadmissible", "popped #%d not admitted by filter %+v", e.id, f)
			}
			popped[e.id]++
		}
	}
	for {
		got := q.TryPop(queue.NewMessagePrioritizer(st), queue.FilterAny)
		if got == nil {
			break
		}
		e := byPtr[got]
		if e == nil {
			return fail(res, "conc-pop-invented", "drain popped a message nobody pushed")
		}
		popped[e.id]++
	}
	for i, es := range all {
		for j, e := range es {
			want := 0
			if pushedOK[i][j] {
				want = 1
			}
			if popped[e.id] != want {
				sig := "conc-lost"
				if popped[e.id] > want {
					sig = "conc-duplicated"
				}
				return fail(res, sig, "message #%d %+v pushed successfully=%v but returned %d time(s)", e.id, e.spec, pushedOK[i][j], popped[e.id])
			}
		}
	}
	if q.Len() != 0 {
		return fail(res, "conc-len", "Len()=%d after drain", q.Len())
	}
	res.Classes = []string{fmt.Sprintf("producers=%d", len(p.Producers))}
	return res
}

func genConc(t *rapid.T) ConcProg {
	p := ConcProg{Cap: rapid.IntRange(1, 8).Draw(t, "cap"), State: genState(t)}
	np := rapid.IntRange(1, 4).Draw(t, "np")
	for i := 0; i < np; i++ {
		p.Producers = append(p.Producers, rapid.SliceOfN(rapid.Custom(genMsg), 1, 12).Draw(t, "msgs"))
	}
	nf := rapid.IntRange(1, 4).Draw(t, "nf")
	for i := 0; i < nf; i++ {
		f := genFilter(t)
		if f.Kind == "ids" {
			f = FilterSpec{Kind: "none"}
		}
		p.Filters = append(p.Filters, f)
	}
	// the consumer must be able to make room for blocking pushes: guarantee an admitting filter in the cycle
	p.Filters = append(p.Filters, FilterSpec{Kind: "any"})
	return p
}

func TestPropQueueConcurrent(t *testing.T) {
	prog.Check(t, "C14", "TestPropQueueConcurrent", genConc, runConc)
}
