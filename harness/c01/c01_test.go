package c01

import (
	"bytes"
	"fmt"
	"sort"
	"testing"

	specqbft "github.com/bloxapp/ssv-spec/qbft"
	"pgregory.net/rapid"

	"verif/harness/internal/prog"
	"verif/harness/internal/qbftsim"
)

func TestMain(m *testing.M) { prog.Main(m) }

// run executes the program and checks agreement after every step: the set of values any correct operator
// reports as decided (instance state or decided message returned by ProcessMsg) has at most one element.
func run(p qbftsim.Prog) *prog.Result {
	res := &prog.Result{}
	s := qbftsim.New(p)
	type obs struct {
		value []byte
		who   string
	}
	firsts := map[specqbft.Height]*obs{}
	var first *obs
	reproposed := false
	check := func(ev *qbftsim.Event) bool {
		seeH := s.Height
		see := func(v []byte, who string) bool {
			first = firsts[seeH]
			if first == nil {
				first = &obs{v, who}
				firsts[seeH] = first
				return true
			}
			if !bytes.Equal(first.value, v) {
				res.Fail = prog.Failf("C01:disagreement", "%s reports decision %s but %s reported %s (N=%d byz=%v verify=%v)\nlog:\n%s",
					who, qbftsim.ValueName(v), first.who, qbftsim.ValueName(first.value), p.N, p.Byz, p.Verify, s.Dump())
				return false
			}
			return true
		}
		if ev.Returned != nil {
			seeH = ev.Returned.Message.Height
			if !see(ev.Returned.FullData, fmt.Sprintf("op%d (decided message for height %d returned by ProcessMsg at event %d)", ev.Op, seeH, len(s.Events))) {
				return false
			}
			seeH = s.Height
		}
		if ev.After.Decided {
			if !see(ev.After.Value, fmt.Sprintf("op%d (instance state after event %d)", ev.Op, len(s.Events))) {
				return false
			}
		}
		if ev.Kind == "deliver" && ev.Err == nil && ev.After.Proposal && ev.After.Round > 1 {
			if m := s.Pool[ev.Pool].Msg; m.Message.MsgType == specqbft.ProposalMsgType && len(m.Message.PrepareJustification) > 0 {
				reproposed = true
			}
		}
		return true
	}
	for _, op := range p.Ops {
		s.Step(op, check)
		if res.Fail != nil {
			return res
		}
	}
	// final sweep over all instances (also those not touched by the last events)
	first = firsts[s.Height]
	for id, v := range s.DecidedValues() {
		if first != nil && !bytes.Equal(first.value, v) {
			res.Fail = prog.Failf("C01:disagreement", "op%d decided %s, %s reported %s\nlog:\n%s", id, qbftsim.ValueName(v), first.who, qbftsim.ValueName(first.value), s.Dump())
			return res
		}
	}
	decided := len(s.DecidedValues())
	preparedRoots := map[string]bool{}
	for _, id := range s.Correct {
		if inst := s.Inst(id); inst != nil && inst.State.LastPreparedValue != nil {
			preparedRoots[string(inst.State.LastPreparedValue)] = true
		}
	}
	cl := []string{fmt.Sprintf("N=%d", p.N), fmt.Sprintf("maxround=%d", min(int(s.MaxRound), 6)), fmt.Sprintf("decided-ops=%d", decided), fmt.Sprintf("verify=%v", p.Verify)}
	if s.ByzAccepted > 0 {
		cl = append(cl, "byz-msg-accepted")
	}
	if reproposed {
		cl = append(cl, "prepared-value-reproposed")
	}
	if len(preparedRoots) > 1 {
		cl = append(cl, "two-prepared-values-coexist")
	}
	if s.LearntDecided > 0 {
		cl = append(cl, "decided-learnt-from-network")
	}
	sort.Strings(cl)
	res.Classes = cl
	res.NonTrivial = decided >= 2 && (s.MaxRound > 1 || s.ByzAccepted > 0)
	return res
}

func gen(t *rapid.T) qbftsim.Prog {
	return qbftsim.Gen(t, qbftsim.GenOpts{Ns: []int{4, 4, 4, 7}, MaxOps: 40, MultiHeight: true, NetFaults: true})
}

func genBig(t *rapid.T) qbftsim.Prog {
	return qbftsim.Gen(t, qbftsim.GenOpts{Ns: []int{7, 10, 13}, MaxOps: 60, ForceByz: true})
}

// genDirected: the maximum number of Byzantine operators and, in every script slot, one of the Byzantine strategy
// scripts (equivocation, lock split, lock split + decision, invalid value in a later round, replay from another
// height, commit broadcast fault, impersonated commit, type confusion in justifications).
func genDirected(t *rapid.T) qbftsim.Prog {
	return qbftsim.Gen(t, qbftsim.GenOpts{Ns: []int{4, 4, 4, 7}, MaxOps: 30, MultiHeight: true, NetFaults: true, ForceByz: true, Directed: true})
}

func TestPropAgreementDirected(t *testing.T) {
	prog.Check(t, "C01", "TestPropAgreementDirected", genDirected, run)
}
func TestPropAgreement(t *testing.T)    { prog.Check(t, "C01", "TestPropAgreement", gen, run) }
func TestPropAgreementBig(t *testing.T) { prog.Check(t, "C01", "TestPropAgreementBig", genBig, run) }
func TestReplay(t *testing.T) {
	prog.Replay(t, "C01", "TestPropAgreement", run)
	prog.Replay(t, "C01", "TestPropAgreementBig", run)
	prog.Replay(t, "C01", "TestPropAgreementDirected", run)
}
