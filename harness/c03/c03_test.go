package c03

// C03 — "Duty signatures are released only over the decided, validated duty data".
//
// A history for one of the five consensus roles is interpreted against a real validator.Validator with
// its real runners (internal/dutysim). The oracle is a history invariant over the key-manager recorder
// (and the network recorder for partial-signature broadcasts); it never looks at return values.

import (
	"encoding/json"
	"fmt"
	"os"
	"sort"
	"strings"
	"testing"

	"github.com/attestantio/go-eth2-client/spec/phase0"
	specqbft "github.com/bloxapp/ssv-spec/qbft"
	spectypes "github.com/bloxapp/ssv-spec/types"
	"pgregory.net/rapid"

	ssvmessage "github.com/bloxapp/ssv/protocol/v2/message"

	"verif/harness/internal/dutysim"
	"verif/harness/internal/fx"
	"verif/harness/internal/prog"
)

func TestMain(m *testing.M) { prog.Main(m) }

const testName = "TestPropSignOnlyDecided"

// lastLog is the operation log of the most recent run (TestShow prints it; tests run sequentially).
var lastLog []string

// ---- program ---------------------------------------------------------------------------------------

type Op struct {
	K string `json:"k"` // ab progress start prequorum pre agree cons cert flood post postquorum timeout replay loop
	// start: slot = previous started slot + D (first start: Prog.Slot0 + D)
	D int `json:"d,omitempty"`
	// sender (member id 1..N; Self is skipped for forged messages)
	From int `json:"from,omitempty"`
	// cons: message type
	T string `json:"t,omitempty"` // proposal prepare commit rc
	// cons / cert: height = current duty slot + H; round (0 = the running instance's round)
	H int `json:"h,omitempty"`
	R int `json:"r,omitempty"`
	// cons / cert / agree / post: consensus value variant (dutysim.ValueVariants)
	Val string `json:"val,omitempty"`
	// mutation applied to the otherwise well-formed message
	Mut string `json:"mut,omitempty"`
	// cert: number of signers = quorum + NS (clamped to 1..N-1)
	NS int `json:"ns,omitempty"`
	// agree / prequorum / postquorum: at most Limit deliveries (0 = until done)
	Limit int `json:"limit,omitempty"`
	// replay / loop: index into the pool of everything delivered or broadcast so far
	Idx int `json:"idx,omitempty"`
	// timeout: "" last armed, stale, other-height
	TK string `json:"tk,omitempty"`
}

type Prog struct {
	N      int    `json:"n"`
	Self   int    `json:"self"`
	Role   string `json:"role"` // attester proposer proposer-blinded aggregator sync-committee contribution
	Direct bool   `json:"direct,omitempty"`
	Slot0  uint64 `json:"slot0"`
	// Forks: epochs at which the beacon chain's fork version (hence every signing domain) changes
	Forks []uint64 `json:"forks,omitempty"`
	Ops   []Op     `json:"ops"`
}

var roleNames = []string{"attester", "proposer", "proposer-blinded", "aggregator", "sync-committee", "contribution"}

func beaconRole(r string) spectypes.BeaconRole {
	switch r {
	case "attester":
		return spectypes.BNRoleAttester
	case "proposer", "proposer-blinded":
		return spectypes.BNRoleProposer
	case "aggregator":
		return spectypes.BNRoleAggregator
	case "sync-committee":
		return spectypes.BNRoleSyncCommittee
	case "contribution":
		return spectypes.BNRoleSyncCommitteeContribution
	}
	panic("bad role " + r)
}

var consMuts = []string{"", "", "", "role-outer", "role-inner", "role-both", "validator-outer", "validator-inner", "validator-both", "bad-sig", "non-member"}
var certMuts = append([]string{"fulldata-swap"}, consMuts...)
var partMuts = []string{"", "", "wrong-slot", "wrong-slot-", "role-outer", "validator-outer", "bad-root", "garbage-sig", "non-member", "type-swap"}

// ---- domains ---------------------------------------------------------------------------------------

// Post-consensus domains (duty objects) and pre-consensus domains (slot-bound proofs) per role.
var postDomainRole = map[phase0.DomainType]spectypes.BeaconRole{
	spectypes.DomainAttester:             spectypes.BNRoleAttester,
	spectypes.DomainProposer:             spectypes.BNRoleProposer,
	spectypes.DomainAggregateAndProof:    spectypes.BNRoleAggregator,
	spectypes.DomainSyncCommittee:        spectypes.BNRoleSyncCommittee,
	spectypes.DomainContributionAndProof: spectypes.BNRoleSyncCommitteeContribution,
}
var preDomainRole = map[phase0.DomainType]spectypes.BeaconRole{
	spectypes.DomainRandao:                      spectypes.BNRoleProposer,
	spectypes.DomainSelectionProof:              spectypes.BNRoleAggregator,
	spectypes.DomainSyncCommitteeSelectionProof: spectypes.BNRoleSyncCommitteeContribution,
}

// ---- interpreter -----------------------------------------------------------------------------------

type dutyRec struct {
	duty      *spectypes.Duty
	slot      phase0.Slot
	startErr  error
	decided   bool
	finished  bool // something was submitted to the beacon node for it
	advCount  int  // adversarial deliveries since its start
	submitsAt int  // len(BN.Submits) when it started
}

type poolMsg struct {
	m   *spectypes.SSVMessage
	own bool
}

// signKey identifies "a decided object": the object of one duty. The same object root may legitimately
// recur in another duty (a sync-committee message over an unchanged head, the fixture's constant block).
type signKey struct {
	slot phase0.Slot
	root [32]byte
	dt   phase0.DomainType
}

type world struct {
	p           Prog
	s           *dutysim.Sim
	role        spectypes.BeaconRole
	id          spectypes.MessageID
	cur         *dutyRec
	duties      []*dutyRec
	last        phase0.Slot // slot of the most recent start attempt
	startedAny  bool
	startedAny2 bool
	straddled   bool
	pool        []poolMsg
	signed      map[signKey]int // (duty slot, object root, domain) -> op of the first signature
	sent        map[string]bool // agree bookkeeping: type/height/round/member
	log         []string
	cls         map[string]bool
	fail        *prog.Failure
}

func (w *world) logf(f string, a ...any) { w.log = append(w.log, fmt.Sprintf(f, a...)) }

func (w *world) dump() string {
	l := w.log
	if len(l) > 80 {
		l = append([]string{fmt.Sprintf("... (%d lines omitted)", len(l)-80)}, l[len(l)-80:]...)
	}
	return "  " + strings.Join(l, "\n  ")
}

func (w *world) failf(sig, f string, a ...any) {
	if w.fail == nil {
		w.fail = prog.Failf("C03:"+sig, f+"\n%s", append(a, w.dump())...)
	}
}

// attrs is what the harness reads off a wire message to decide whether it is "for another height /
// role / validator / a finished duty".
type attrs struct {
	kind      string // consensus partial event
	outerRole spectypes.BeaconRole
	outerOwn  bool // outer message id names this validator
	innerOK   bool // consensus: QBFT identifier == the focus role's identifier of this validator
	height    uint64
	cert      *specqbft.SignedMessage // consensus message with >= quorum signers
	desc      string
}

func (w *world) attrsOf(m *spectypes.SSVMessage) attrs {
	a := attrs{outerRole: m.MsgID.GetRoleType(), outerOwn: string(m.MsgID.GetPubKey()) == string(w.s.KS.ValidatorPK.Serialize())}
	switch m.MsgType {
	case spectypes.SSVConsensusMsgType:
		a.kind = "consensus"
		sm := &specqbft.SignedMessage{}
		if err := sm.Decode(m.Data); err != nil {
			a.desc = "undecodable consensus"
			return a
		}
		a.height = uint64(sm.Message.Height)
		a.innerOK = string(sm.Message.Identifier) == string(w.id[:])
		t := map[specqbft.MessageType]string{0: "proposal", 1: "prepare", 2: "commit", 3: "round-change"}[sm.Message.MsgType]
		if len(sm.Signers) > 1 {
			t = "cert"
			a.cert = sm
		}
		a.desc = fmt.Sprintf("%s h%d r%d root=%x signers=%v", t, sm.Message.Height, sm.Message.Round, sm.Message.Root[:3], sm.Signers)
	case spectypes.SSVPartialSignatureMsgType:
		a.kind = "partial"
		sm := &spectypes.SignedPartialSignatureMessage{}
		if err := sm.Decode(m.Data); err != nil {
			a.desc = "undecodable partial"
			return a
		}
		a.height = uint64(sm.Message.Slot)
		a.innerOK = true
		a.desc = fmt.Sprintf("partial type=%d slot=%d signer=%d n=%d", sm.Message.Type, sm.Message.Slot, sm.Signer, len(sm.Message.Messages))
	case ssvmessage.SSVEventMsgType:
		a.kind = "event"
		a.innerOK = true
		a.desc = "timeout event"
	}
	return a
}

// foreign: the message is for another height / role / validator, or for no running (finished) duty.
func (w *world) foreign(a attrs) bool {
	if a.kind == "event" {
		return false // a local timer event, not a message; judged by the state rule only
	}
	if w.cur == nil || w.cur.finished {
		return true
	}
	// In direct mode (runner methods called without Validator.ProcessMessage) nothing looks at the validator
	// key of the outer message id - that check is Validator.validateMessage's - so it cannot make a message foreign.
	outerOwn := a.outerOwn || w.p.Direct
	return !outerOwn || a.outerRole != w.role || !a.innerOK || a.height != uint64(w.cur.slot)
}

// deliver is one operation: hand m to the validator and judge every signing call / broadcast it caused.
func (w *world) deliver(m *spectypes.SSVMessage, adversarial bool, what string) {
	if w.fail != nil || m == nil {
		return
	}
	a := w.attrsOf(m)
	foreign := w.foreign(a)
	if foreign || adversarial {
		adversarial = true
		if w.cur != nil {
			w.cur.advCount++
		}
	}
	var certValue []byte
	if a.cert != nil && w.cur != nil && a.height == uint64(w.cur.slot) && (a.outerOwn || w.p.Direct) && a.outerRole == w.role && w.s.ValidCert(a.cert, w.id[:]) {
		certValue = a.cert.FullData
	}
	w.probes(a, certValue)
	op := w.s.NextOp()
	from := len(w.s.KM.Recs)
	err := w.s.Deliver(m)
	w.pool = append(w.pool, poolMsg{m: m})
	es := ""
	if err != nil {
		es = " err=" + err.Error()
		if len(es) > 150 {
			es = es[:150] + "…"
		}
	}
	w.logf("op %d %s [%s]%s%s%s", op, what, a.desc, map[bool]string{true: " FOREIGN"}[foreign], map[bool]string{true: " ADV"}[adversarial && !foreign], es)
	w.judge(op, from, "deliver", foreign, nil, certValue)
}

// probes labels deliveries that reach the situations the mechanisms of the property exist for (class
// histogram only; nothing here is judged).
func (w *world) probes(a attrs, certValue []byte) {
	if a.cert == nil || w.cur == nil || w.cur.finished || w.cur.startErr != nil {
		return
	}
	sn := w.s.Snap(w.role)
	if !sn.HasInstance {
		return
	}
	b := w.s.Runner(w.role).GetBaseRunner()
	evicted := b.QBFTController.StoredInstances.FindInstance(sn.InstHeight) == nil
	if certValue != nil {
		bad := w.s.OracleValueCheck(w.role)(certValue) != nil
		switch {
		case !sn.InstDecided && bad:
			w.cls["probe:valid-cert-with-invalid-value-for-running-undecided-instance"] = true
		case !sn.InstDecided && evicted:
			w.cls["probe:valid-cert-for-evicted-undecided-instance"] = true
		case !sn.InstDecided:
			w.cls["probe:valid-cert-decides-running-instance"] = true
		case sn.InstDecided && evicted:
			w.cls["probe:valid-cert-for-evicted-decided-instance"] = true
		default:
			w.cls["probe:valid-cert-for-decided-instance"] = true
		}
		return
	}
	if a.outerOwn && a.outerRole == w.role && a.height != uint64(w.cur.slot) && w.s.ValidCert(a.cert, w.id[:]) {
		w.cls["probe:valid-cert-for-other-height-while-duty-running"] = true
	}
}

// judge applies the history invariant to everything operation op did.
func (w *world) judge(op, fromSeq int, opKind string, foreign bool, startDuty *spectypes.Duty, certValue []byte) {
	s := w.s
	sharePK := string(s.KS.Shares[s.Cfg.Self].GetPublicKey().Serialize())
	signedRoots := map[[32]byte]bool{} // eth2 signing roots signed in this op
	for _, r := range s.KM.BeaconSince(fromSeq) {
		signedRoots[r.SigningRoot] = true
		w.logf("   SIGN obj=%x domain=%x", r.ObjRoot[:4], r.DomainType[:])
		if string(r.PK) != sharePK {
			w.failf("sig-with-other-key", "op %d: SignBeaconObject with a key that is not this operator's share key", op)
			return
		}
		if foreign {
			w.failf("sig-on-foreign-message", "op %d: a validator-key signature (domain %x, object %x) was made while processing a message for another height / role / validator / a finished duty", op, r.DomainType[:], r.ObjRoot[:6])
			return
		}
		if role, ok := preDomainRole[r.DomainType]; ok {
			// pre-consensus proofs: only while a duty of that role starts, only that duty's slot-bound objects
			if opKind != "start" || startDuty == nil || startDuty.Type != role {
				w.failf("pre-sig-outside-start", "op %d (%s): pre-consensus domain %x signed outside start(duty)", op, opKind, r.DomainType[:])
				return
			}
			objs, dt := s.PreObjects(startDuty)
			okObj := false
			okRoot := false
			for _, o := range objs {
				hr, _ := o.HashTreeRoot()
				if hr == r.ObjRoot && dt == r.DomainType {
					okObj = true
					okRoot = okRoot || r.SigningRoot == s.SigningRootAt(o, dt, startDuty.Slot)
				}
			}
			if okObj && !okRoot && r.Err == nil {
				w.failf("pre-sig-wrong-domain", "op %d: pre-consensus proof of the started duty (slot %d, epoch %d) signed under a domain that is not that epoch's", op, startDuty.Slot, dutysim.Network.EstimatedEpochAtSlot(startDuty.Slot))
				return
			}
			if !okObj {
				w.failf("pre-sig-wrong-object", "op %d: pre-consensus signature over %x is not a slot-bound proof of the started duty (slot %d)", op, r.ObjRoot[:6], startDuty.Slot)
				return
			}
			w.cls["pre-sig"] = true
			continue
		}
		role, ok := postDomainRole[r.DomainType]
		if !ok {
			w.failf("unexpected-domain", "op %d: validator-key signature in domain %x, which no consensus duty uses", op, r.DomainType[:])
			return
		}
		if role != w.role || opKind == "start" || w.cur == nil || w.cur.startErr != nil {
			w.failf("post-sig-without-duty", "op %d (%s): post-consensus domain %x signed by role %s without a started duty of that role", op, opKind, r.DomainType[:], role.String())
			return
		}
		sn := r.Snap[w.role]
		if !sn.HasInstance || sn.InstHeight != specqbft.Height(w.cur.slot) {
			w.failf("post-sig-wrong-height", "op %d: duty object signed while the running instance (present=%v height=%d) is not the one of the started duty's slot %d", op, sn.HasInstance, sn.InstHeight, w.cur.slot)
			return
		}
		var value []byte
		viaCert := false
		switch {
		case sn.InstDecided:
			value = sn.InstValue
		case certValue != nil:
			// The running instance object was evicted from the controller's 2-slot container and the
			// decision for the duty's height arrived as a quorum certificate (validated by the harness's
			// own predicate). The statement's "value its consensus instance decided" is taken to include it.
			value, viaCert = certValue, true
			w.cls["decided-via-cert-while-instance-evicted"] = true
		default:
			w.failf("post-sig-without-decision", "op %d: duty object signed while the running instance (height %d) is not decided", op, sn.InstHeight)
			return
		}
		if err := s.OracleValueCheck(w.role)(value); err != nil {
			w.failf("post-sig-invalid-value", "op %d: duty object signed although the decided value fails the role's value check: %v", op, err)
			return
		}
		objs, dt, err := dutysim.PostObjects(w.role, value)
		okObj := false
		okRoot := false
		var valueSlot phase0.Slot
		if err == nil {
			cd := &spectypes.ConsensusData{}
			_ = cd.Decode(value)
			valueSlot = cd.Duty.Slot
			for _, o := range objs {
				hr, _ := o.HashTreeRoot()
				if hr == r.ObjRoot && dt == r.DomainType {
					okObj = true
					// ... and by signing root: under the domain of the decided duty's epoch, computed here
					okRoot = okRoot || r.SigningRoot == s.SigningRootAt(o, dt, valueSlot)
				}
			}
		}
		if !okObj {
			w.failf("post-sig-not-in-decided-value", "op %d: signed object %x (domain %x) is not derivable from the value decided for the running duty (slot %d)", op, r.ObjRoot[:6], r.DomainType[:], w.cur.slot)
			return
		}
		if !okRoot && r.Err == nil {
			w.failf("post-sig-wrong-domain", "op %d: duty object %x of the decided value (duty slot %d, epoch %d) signed under a domain that is not that epoch's", op, r.ObjRoot[:6], valueSlot, dutysim.Network.EstimatedEpochAtSlot(valueSlot))
			return
		}
		k := signKey{w.cur.slot, r.ObjRoot, r.DomainType}
		if first, dup := w.signed[k]; dup {
			sig := "post-sig-repeated"
			if viaCert {
				// Finding on the unchanged tree (see check.json / report): every copy of the certificate is
				// signed again once the running instance has been evicted undecided. When it is listed as
				// known (or assumed known for sensitivity runs) it is counted and the search goes on behind it.
				sig = "post-sig-repeated:instance-evicted-undecided"
				if prog.IsKnown("C03:"+sig) || os.Getenv("VERIF_C03_ASSUME_KNOWN") != "" {
					prog.KnownHit(testName, "C03:"+sig)
					w.cls["known:post-sig-repeated:instance-evicted-undecided"] = true
					continue
				}
			}
			w.failf(sig, "op %d: duty object %x (domain %x) signed a second time (first in op %d)", op, r.ObjRoot[:6], r.DomainType[:], first)
			return
		}
		if viaCert && len(objs) == 1 {
			for k2 := range w.signed {
				if k2.slot == k.slot && k2.dt == k.dt && k2.root != k.root {
					// two conflicting certificates for one height need more than f faulty members: outside
					// the fault model, so only counted (consequence of the evicted-undecided state)
					w.cls["evicted:second-decided-value-signed-for-one-duty(conflicting-certs,>f-faults)"] = true
				}
			}
		}
		w.signed[k] = op
		w.cur.decided = true
		w.cls["post-sig"] = true
	}
	// broadcasts: a partial-signature message may only carry signatures made (and judged) in this very op
	for _, m := range s.Net.Drain() {
		w.pool = append(w.pool, poolMsg{m: m, own: true})
		if m.MsgType != spectypes.SSVPartialSignatureMsgType {
			continue
		}
		sm := &spectypes.SignedPartialSignatureMessage{}
		if err := sm.Decode(m.Data); err != nil {
			w.failf("broadcast-undecodable", "op %d: undecodable partial-signature broadcast", op)
			return
		}
		for _, pm := range sm.Message.Messages {
			if !signedRoots[pm.SigningRoot] {
				w.failf("partial-sig-broadcast-without-signing", "op %d: partial signature over root %x broadcast without a judged signing call in this operation", op, pm.SigningRoot[:6])
				return
			}
		}
		if foreign {
			w.failf("partial-sig-broadcast-on-foreign-message", "op %d: partial-signature broadcast while processing a foreign message", op)
			return
		}
	}
	if w.cur != nil {
		if len(s.BN.Submits) > w.cur.submitsAt {
			if !w.cur.finished {
				w.logf("   duty slot %d finished (submitted)", w.cur.slot)
			}
			w.cur.finished = true
		}
		if sn := s.Snap(w.role); sn.HasInstance && sn.InstDecided && sn.InstHeight == specqbft.Height(w.cur.slot) {
			w.cur.decided = true
		}
	}
}

// ---- operations --------------------------------------------------------------------------------------

func (w *world) baseSlot() phase0.Slot {
	if w.cur != nil {
		return w.cur.slot
	}
	return phase0.Slot(w.p.Slot0)
}

func (w *world) slotAt(h int) phase0.Slot {
	v := int64(w.baseSlot()) + int64(h)
	if v < 0 {
		v = 0
	}
	return phase0.Slot(v)
}

func (w *world) start(d int) {
	var slot phase0.Slot
	if !w.startedAny {
		slot = phase0.Slot(int64(w.p.Slot0) + int64(max(d, 0)))
		w.startedAny = true
	} else {
		v := int64(w.last) + int64(d)
		if v < 0 {
			v = 0
		}
		slot = phase0.Slot(v)
	}
	if w.startedAny2 && dutysim.ForkVersion(w.p.Forks, dutysim.Network.EstimatedEpochAtSlot(slot)) != dutysim.ForkVersion(w.p.Forks, dutysim.Network.EstimatedEpochAtSlot(w.last)) {
		w.cls["fork:duty-sequence-straddles-a-fork"] = true
		w.straddled = true
	}
	w.startedAny2 = true
	if dutysim.ForkVersion(w.p.Forks, dutysim.Network.EstimatedEpochAtSlot(slot)) != dutysim.ForkVersion(nil, 0) {
		w.cls["fork:duty-after-a-fork"] = true
	}
	w.last = slot
	duty := w.s.Duty(w.role, slot)
	op := w.s.NextOp()
	from := len(w.s.KM.Recs)
	err := w.s.StartDuty(duty)
	replaced := w.s.Snap(w.role).StartingDuty == duty
	w.logf("op %d start(%s slot %d) err=%v state-replaced=%v", op, w.p.Role, slot, err, replaced)
	var rec *dutyRec
	if replaced {
		rec = &dutyRec{duty: duty, slot: slot, startErr: err, submitsAt: len(w.s.BN.Submits)}
		w.duties = append(w.duties, rec)
		w.cur = rec
		if err == nil {
			w.cls["started"] = true
		} else {
			w.cls["start-failed-after-setup"] = true
		}
	} else {
		w.cls["start-refused"] = true
	}
	w.judge(op, from, "start", false, duty, nil)
}

func (w *world) other(from int) spectypes.OperatorID {
	o := w.s.Others()
	if from < 0 {
		from = -from
	}
	return o[from%len(o)]
}

func (w *world) otherRole() spectypes.BeaconRole {
	if w.role == spectypes.BNRoleAttester {
		return spectypes.BNRoleAggregator
	}
	return spectypes.BNRoleAttester
}

// ids returns (outer message id, inner QBFT identifier) under an id mutation.
func (w *world) ids(mut string) (spectypes.MessageID, []byte) {
	outer, inner := w.id, w.id
	switch mut {
	case "role-outer":
		outer = w.s.MsgID(w.otherRole())
	case "role-inner":
		inner = w.s.MsgID(w.otherRole())
	case "role-both":
		outer = w.s.MsgID(w.otherRole())
		inner = outer
	case "validator-outer":
		outer = w.s.OtherValidatorMsgID(w.role)
	case "validator-inner":
		inner = w.s.OtherValidatorMsgID(w.role)
	case "validator-both":
		outer = w.s.OtherValidatorMsgID(w.role)
		inner = outer
	}
	return outer, inner[:]
}

func (w *world) instRound() specqbft.Round {
	if sn := w.s.Snap(w.role); sn.HasInstance && sn.InstRound > 0 {
		return sn.InstRound
	}
	return 1
}

func (w *world) value(slot phase0.Slot, variant string) []byte {
	ok := false
	for _, v := range dutysim.ValueVariants {
		ok = ok || v == variant
	}
	if !ok {
		variant = "own"
	}
	if strings.HasPrefix(variant, "bad-att-") && w.role != spectypes.BNRoleAttester {
		variant = "bad-index"
	}
	return w.s.Value(w.s.Duty(w.role, slot), variant)
}

func msgType(t string) specqbft.MessageType {
	switch t {
	case "proposal":
		return specqbft.ProposalMsgType
	case "prepare":
		return specqbft.PrepareMsgType
	case "commit":
		return specqbft.CommitMsgType
	}
	return specqbft.RoundChangeMsgType
}

func (w *world) resign(sm *specqbft.SignedMessage, mut string, signer spectypes.OperatorID) {
	switch mut {
	case "bad-sig": // another member's key under this member's id
		o := w.s.Others()
		k := o[0]
		if k == signer {
			k = o[1]
		}
		x := fx.SignWith(w.s.KS.Shares[k], signer, &sm.Message)
		sm.Signature = x.Signature
	case "non-member":
		sm.Signers = []spectypes.OperatorID{spectypes.OperatorID(w.p.N + 1)}
	}
}

func (w *world) cons(o Op) {
	slot := w.slotAt(o.H)
	round := specqbft.Round(o.R)
	if o.R <= 0 {
		round = w.instRound()
	}
	outer, inner := w.ids(o.Mut)
	value := w.value(slot, o.Val)
	signer := w.other(o.From)
	t := msgType(o.T)
	var full []byte
	if t == specqbft.ProposalMsgType {
		full = value
	}
	sm := w.s.QBFT(signer, t, inner, specqbft.Height(slot), round, dutysim.Root(value), full)
	w.resign(sm, o.Mut, signer)
	adv := o.Mut != "" || strings.HasPrefix(o.Val, "bad-")
	w.deliver(dutysim.ConsensusSSV(outer, sm), adv, fmt.Sprintf("cons(%s mut=%q val=%s)", o.T, o.Mut, o.Val))
}

func (w *world) cert(o Op) {
	slot := w.slotAt(o.H)
	round := specqbft.Round(o.R)
	if o.R <= 0 {
		round = 1
	}
	outer, inner := w.ids(o.Mut)
	value := w.value(slot, o.Val)
	others := w.s.Others()
	n := w.s.Quorum + o.NS
	if n < 1 {
		n = 1
	}
	if n > len(others) {
		n = len(others)
	}
	start := 0
	if o.From > 0 {
		start = o.From % len(others)
	}
	var signers []spectypes.OperatorID
	for i := 0; i < n; i++ {
		signers = append(signers, others[(start+i)%len(others)])
	}
	signers = fx.SortedSigners(signers)
	sm := w.s.Cert(signers, inner, specqbft.Height(slot), round, value)
	switch o.Mut {
	case "fulldata-swap":
		sm.FullData = w.value(slot, "alt")
		if string(sm.FullData) == string(value) {
			sm.FullData = w.value(slot, "own")
		}
	case "bad-sig":
		x := w.s.Cert(signers, inner, specqbft.Height(slot), round+1, value)
		sm.Signature = x.Signature
	case "non-member":
		sm.Signers[len(sm.Signers)-1] = spectypes.OperatorID(w.p.N + 1)
	}
	adv := o.Mut != "" || strings.HasPrefix(o.Val, "bad-") || n < w.s.Quorum
	w.deliver(dutysim.ConsensusSSV(outer, sm), adv, fmt.Sprintf("cert(h%+d val=%s mut=%q ns=%d)", o.H, o.Val, o.Mut, o.NS))
}

// flood: two valid certificates for two later heights (evicts the running instance from the
// controller's two-slot instance container). Both are messages for another height.
func (w *world) flood(o Op) {
	for i := 1; i <= 2; i++ {
		slot := w.slotAt(i + max(o.H, 0))
		sm := w.s.Cert(w.s.QuorumOthers(), w.id[:], specqbft.Height(slot), 1, w.value(slot, "own"))
		w.deliver(dutysim.ConsensusSSV(w.id, sm), true, "flood")
	}
	w.cls["flood"] = true
	// then NS certificates for the duty's own height (what every deciding peer broadcasts)
	for i := 0; i < o.NS && w.cur != nil; i++ {
		val := o.Val
		if sn := w.s.Snap(w.role); sn.InstDecided {
			val = "" // the decided value itself
		}
		var value []byte
		if val == "" {
			value = w.s.Snap(w.role).InstValue
		} else {
			value = w.value(w.cur.slot, val)
		}
		signers := w.s.QuorumOthers()
		if i%2 == 1 {
			signers = w.s.Others()[len(w.s.Others())-w.s.Quorum:]
		}
		sm := w.s.Cert(signers, w.id[:], specqbft.Height(w.cur.slot), 1, value)
		w.deliver(dutysim.ConsensusSSV(w.id, sm), false, "flood: certificate for the duty's height")
	}
}

func (w *world) partial(o Op, post bool) {
	if w.cur == nil && o.Mut == "" {
		o.Mut = "wrong-slot" // no duty: every partial-signature message is foreign anyway
	}
	slot := w.baseSlot()
	duty := w.s.Duty(w.role, slot)
	signer := w.other(o.From)
	var sm *spectypes.SignedPartialSignatureMessage
	if post {
		value := w.value(slot, o.Val)
		if sn := w.s.Snap(w.role); sn.InstDecided && (o.Val == "" || o.Val == "own") {
			value = sn.InstValue // shares over what was actually decided
		}
		sm = w.s.PostMsg(signer, w.role, value)
		if sm == nil {
			return
		}
		sm.Message.Slot = slot
	} else {
		sm = w.s.PreMsg(signer, duty)
	}
	outer, _ := w.ids(o.Mut)
	key := w.s.KS.Shares[signer]
	switch o.Mut {
	case "wrong-slot":
		sm.Message.Slot = slot + 1
	case "wrong-slot-":
		if slot > 0 {
			sm.Message.Slot = slot - 1
		} else {
			sm.Message.Slot = slot + 2
		}
	case "bad-root":
		sm.Message.Messages[0].SigningRoot[0] ^= 0xff
	case "garbage-sig":
		sm.Message.Messages[0].PartialSignature = append([]byte{0x80}, make([]byte, 95)...)
	case "non-member":
		sm.Signer = spectypes.OperatorID(w.p.N + 1)
		for _, pm := range sm.Message.Messages {
			pm.Signer = sm.Signer
		}
	case "type-swap":
		if post {
			sm.Message.Type = spectypes.RandaoPartialSig
		} else {
			sm.Message.Type = spectypes.PostConsensusPartialSig
		}
	}
	dutysim.SignEnvelope(sm, key)
	kind := map[bool]string{true: "post", false: "pre"}[post]
	w.deliver(dutysim.PartialSSV(outer, sm), o.Mut != "" || strings.HasPrefix(o.Val, "bad-"), fmt.Sprintf("%s(from %d mut=%q)", kind, signer, o.Mut))
}

func (w *world) preQuorum(limit int) {
	if w.cur == nil {
		return
	}
	if _, ok := dutysim.PreType(w.role); !ok {
		return
	}
	n := 0
	for _, id := range w.s.QuorumOthers() {
		if limit > 0 && n >= limit {
			return
		}
		w.deliver(dutysim.PartialSSV(w.id, w.s.PreMsg(id, w.cur.duty)), false, fmt.Sprintf("prequorum(from %d)", id))
		n++
	}
}

func (w *world) postQuorum(limit int) {
	sn := w.s.Snap(w.role)
	if w.cur == nil || !sn.InstDecided {
		return
	}
	n := 0
	for _, id := range w.s.QuorumOthers() {
		if limit > 0 && n >= limit {
			return
		}
		sm := w.s.PostMsg(id, w.role, sn.InstValue)
		if sm == nil {
			return
		}
		w.deliver(dutysim.PartialSSV(w.id, sm), false, fmt.Sprintf("postquorum(from %d)", id))
		n++
	}
}

// agree drives the running instance towards a decision with well-formed messages of the other members
// (proposal by the round's leader, prepares, commits; round-changes when the leader is Self in a later round).
func (w *world) agree(o Op) {
	limit := o.Limit
	if limit <= 0 {
		limit = 4 * w.p.N
	}
	self := spectypes.OperatorID(w.p.Self)
	for n := 0; n < limit && w.fail == nil; n++ {
		b := w.s.Runner(w.role).GetBaseRunner()
		if b.State == nil || b.State.RunningInstance == nil || w.cur == nil {
			return
		}
		inst := b.State.RunningInstance
		st := inst.State
		if st.Decided || uint64(st.Height) != uint64(w.cur.slot) {
			return
		}
		h, round := st.Height, st.Round
		key := func(t string, id spectypes.OperatorID) string { return fmt.Sprintf("%s/%d/%d/%d", t, h, round, id) }
		next := func(t string) (spectypes.OperatorID, bool) {
			for _, id := range w.s.Others() {
				if !w.sent[key(t, id)] {
					w.sent[key(t, id)] = true
					return id, true
				}
			}
			return 0, false
		}
		leader := specqbft.RoundRobinProposer(st, round)
		if st.ProposalAcceptedForCurrentRound == nil {
			if leader == self {
				// loop the runner's own proposal for this round back, if it made one
				found := false
				for i := range w.pool {
					pm := w.pool[i]
					if !pm.own || pm.m.MsgType != spectypes.SSVConsensusMsgType {
						continue
					}
					sm := &specqbft.SignedMessage{}
					if sm.Decode(pm.m.Data) == nil && sm.Message.MsgType == specqbft.ProposalMsgType && sm.Message.Height == h && sm.Message.Round == round && !w.sent[key("ownprop", self)] {
						w.sent[key("ownprop", self)] = true
						w.deliver(pm.m, false, "agree: own proposal looped back")
						found = true
						break
					}
				}
				if found {
					continue
				}
				if round == 1 {
					return
				}
				id, ok := next("rc")
				if !ok {
					return
				}
				w.deliver(dutysim.ConsensusSSV(w.id, w.s.QBFT(id, specqbft.RoundChangeMsgType, w.id[:], h, round, [32]byte{}, nil)), false, "agree: round-change")
				continue
			}
			if w.sent[key("prop", leader)] {
				return // already tried; the instance refused it
			}
			w.sent[key("prop", leader)] = true
			variant := o.Val
			if variant != "alt" {
				variant = "own"
			}
			value := w.value(w.cur.slot, variant)
			sm := w.s.QBFT(leader, specqbft.ProposalMsgType, w.id[:], h, round, dutysim.Root(value), value)
			if round > 1 {
				var rcs []*specqbft.SignedMessage
				for _, id := range w.s.QuorumOthers() {
					rcs = append(rcs, w.s.QBFT(id, specqbft.RoundChangeMsgType, w.id[:], h, round, [32]byte{}, nil))
				}
				m := sm.Message
				m.RoundChangeJustification, _ = specqbft.MarshalJustifications(rcs)
				sm = fx.Sign(w.s.KS, leader, &m)
				sm.FullData = value
			}
			w.deliver(dutysim.ConsensusSSV(w.id, sm), false, "agree: proposal")
			continue
		}
		root := st.ProposalAcceptedForCurrentRound.Message.Root
		t, mt := "prepare", specqbft.PrepareMsgType
		if st.LastPreparedRound == round {
			t, mt = "commit", specqbft.CommitMsgType
		}
		id, ok := next(t)
		if !ok {
			return
		}
		w.deliver(dutysim.ConsensusSSV(w.id, w.s.QBFT(id, mt, w.id[:], h, round, root, nil)), false, "agree: "+t)
	}
}

// progress takes the next step a well-behaved committee would take from the current state: start a duty,
// complete the pre-consensus quorum, drive consensus, complete the post-consensus quorum, start the next duty.
func (w *world) progress(o Op) {
	sn := w.s.Snap(w.role)
	_, hasPre := dutysim.PreType(w.role)
	switch {
	case w.cur == nil || w.cur.finished || w.cur.startErr != nil:
		w.start(1)
	case !sn.HasInstance && hasPre:
		w.preQuorum(o.Limit)
	case !sn.HasInstance:
		w.start(1)
	case !sn.InstDecided:
		w.agree(o)
	default:
		w.postQuorum(o.Limit)
	}
}

// decide drives the running duty to its decision: pre-consensus quorum where the role has one, then either
// the other members' proposal / prepares / commits or a certificate (fallback when the former does not decide).
func (w *world) decide(val string, byCert bool) {
	w.preQuorum(0)
	if !byCert {
		w.agree(Op{Val: val})
	}
	if sn := w.s.Snap(w.role); w.cur != nil && sn.HasInstance && !sn.InstDecided && w.fail == nil {
		v := val
		if v != "alt" {
			v = "own"
		}
		sm := w.s.Cert(w.s.QuorumOthers(), w.id[:], specqbft.Height(w.cur.slot), 1, w.value(w.cur.slot, v))
		w.deliver(dutysim.ConsensusSSV(w.id, sm), false, "decide: certificate")
	}
}

// ab is the "state not reset on one path" shape: duty A is driven to a chosen point (T: pre = abandoned before
// the decision, decided = decided and own post-consensus signature made but no post-consensus quorum, finished),
// then duty B of the same role (same validator positions / subcommittee indices) at slot +D is driven to the
// decision and through post-consensus. Whatever B signs must come from B's decided value.
func (w *world) ab(o Op) {
	w.start(1)
	a := w.cur
	phase := o.T
	switch phase {
	case "pre":
		if o.Limit > 0 {
			w.preQuorum(o.Limit)
		}
	case "finished":
		w.decide("own", o.Mut == "cert")
		w.postQuorum(0)
	default:
		phase = "decided"
		w.decide("own", o.Mut == "cert")
	}
	reached := "abandoned-before-decision"
	if a != nil && a.finished {
		reached = "finished"
	} else if a != nil && a.decided {
		reached = "decided-without-post-consensus-quorum"
	}
	d := o.D
	if d < 1 {
		d = 1
	}
	w.start(d)
	b := w.cur
	if b == nil || b == a || w.fail != nil {
		return
	}
	w.decide(o.Val, o.Mut != "cert") // the other way round than A
	w.postQuorum(0)
	if w.fail != nil {
		return
	}
	switch {
	case b.finished:
		w.cls["ab:A="+reached+":B=finished:"+w.p.Role] = true
	case b.decided:
		w.cls["ab:A="+reached+":B=decided-only"] = true
	default:
		w.cls["ab:A="+reached+":B=not-decided"] = true
	}
}

func (w *world) timeout(o Op) {
	t := w.s.Timers[w.role]
	arm, ok := t.Last()
	if !ok {
		arm = fx.Arm{Height: specqbft.Height(w.baseSlot()), Round: 1}
	}
	h, r := arm.Height, arm.Round
	switch o.TK {
	case "stale":
		if r > 1 {
			r--
		}
	case "other-height":
		h += 2
	}
	w.deliver(w.s.TimeoutMsg(w.role, h, r), o.TK != "", fmt.Sprintf("timeout(%s h%d r%d)", o.TK, h, r))
}

func (w *world) replay(o Op, ownOnly bool) {
	if len(w.pool) == 0 {
		return
	}
	idx := o.Idx % len(w.pool)
	if ownOnly {
		// the nearest own broadcast at or after idx (wrapping)
		found := -1
		for k := 0; k < len(w.pool); k++ {
			if w.pool[(idx+k)%len(w.pool)].own {
				found = (idx + k) % len(w.pool)
				break
			}
		}
		if found < 0 {
			return
		}
		idx = found
	}
	pm := w.pool[idx]
	w.deliver(pm.m, !pm.own, fmt.Sprintf("replay(#%d own=%v)", idx, pm.own))
}

func slashSlots() []phase0.Slot {
	var out []phase0.Slot
	for i := 0; i < 120; i++ {
		out = append(out, phase0.Slot(i))
	}
	return out
}

var slashRoots = dutysim.SlashableRootsFor(slashSlots())

func run(p Prog) *prog.Result {
	res := &prog.Result{}
	role := beaconRole(p.Role)
	cfg := dutysim.Config{N: p.N, Self: spectypes.OperatorID(p.Self), Blinded: p.Role == "proposer-blinded", Direct: p.Direct, ForkEpochs: p.Forks}
	if role == spectypes.BNRoleAttester {
		cfg.SlashableRoots = slashRoots
	}
	s := dutysim.New(cfg)
	defer s.Close()
	s.KM.Hook = func(r *dutysim.SignRec) { r.Snap = s.SnapAll() }
	w := &world{p: p, s: s, role: role, id: s.MsgID(role), signed: map[signKey]int{}, sent: map[string]bool{}, cls: map[string]bool{"role=" + p.Role: true, fmt.Sprintf("n=%d", p.N): true}}
	for _, o := range p.Ops {
		if w.fail != nil {
			break
		}
		switch o.K {
		case "start":
			w.start(o.D)
		case "progress":
			w.progress(o)
		case "ab":
			w.ab(o)
		case "prequorum":
			w.preQuorum(o.Limit)
		case "pre":
			w.partial(o, false)
		case "agree":
			w.agree(o)
		case "cons":
			w.cons(o)
		case "cert":
			w.cert(o)
		case "flood":
			w.flood(o)
		case "post":
			w.partial(o, true)
		case "postquorum":
			w.postQuorum(o.Limit)
		case "timeout":
			w.timeout(o)
		case "replay":
			w.replay(o, false)
		case "loop":
			w.replay(o, true)
		}
	}
	lastLog = w.log
	if w.fail != nil {
		res.Fail = w.fail
		return res
	}
	nDecided, nFinished := 0, 0
	for _, d := range w.duties {
		if d.decided {
			nDecided++
			if d.advCount > 0 {
				res.NonTrivial = true
			}
		}
		if d.finished {
			nFinished++
		}
	}
	if nDecided > 0 {
		w.cls["decided"] = true
	}
	if nDecided > 1 {
		w.cls["decided>1-duties"] = true
	}
	if nFinished > 0 {
		w.cls["finished"] = true
	}
	if sn := s.Snap(role); sn.InstRound > 1 {
		w.cls["round>1"] = true
	}
	for c := range w.cls {
		res.Classes = append(res.Classes, c)
	}
	sort.Strings(res.Classes)
	return res
}

// ---- generator -------------------------------------------------------------------------------------

var goodVals = []string{"own", "own", "alt", "alt-slot"}
var anyVals = append([]string{"own", "own", "own", "alt"}, dutysim.ValueVariants...)

func genOp(t *rapid.T) Op {
	kinds := []string{"ab", "progress", "progress", "progress", "progress", "progress", "progress", "progress", "progress", "progress", "start", "prequorum", "prequorum", "pre", "agree", "agree", "agree", "cons", "cons", "cons", "cert", "cert", "cert", "cert", "flood", "post", "post", "postquorum", "postquorum", "timeout", "replay", "replay", "loop"}
	o := Op{K: rapid.SampledFrom(kinds).Draw(t, "k")}
	switch o.K {
	case "start":
		o.D = rapid.SampledFrom([]int{1, 1, 1, 2, 3, 0, -1}).Draw(t, "d")
	case "prequorum", "postquorum":
		o.Limit = rapid.SampledFrom([]int{0, 0, 0, 1, 2}).Draw(t, "limit")
	case "pre", "post":
		o.From = rapid.IntRange(0, 12).Draw(t, "from")
		o.Mut = rapid.SampledFrom(partMuts).Draw(t, "mut")
		if o.K == "post" {
			o.Val = rapid.SampledFrom(goodVals).Draw(t, "val")
		}
	case "agree", "progress":
		o.Limit = rapid.SampledFrom([]int{0, 0, 0, 1, 2, 3, 5}).Draw(t, "limit")
		o.Val = rapid.SampledFrom([]string{"own", "own", "alt"}).Draw(t, "val")
	case "cons":
		o.T = rapid.SampledFrom([]string{"proposal", "prepare", "commit", "rc"}).Draw(t, "t")
		o.From = rapid.IntRange(0, 12).Draw(t, "from")
		o.H = rapid.SampledFrom([]int{0, 0, 0, 0, -1, -2, 1, 2, 5, 31}).Draw(t, "h")
		o.R = rapid.SampledFrom([]int{0, 0, 0, 1, 2, 3}).Draw(t, "r")
		o.Val = rapid.SampledFrom(anyVals).Draw(t, "val")
		o.Mut = rapid.SampledFrom(consMuts).Draw(t, "mut")
	case "cert":
		o.From = rapid.IntRange(0, 12).Draw(t, "from")
		o.H = rapid.SampledFrom([]int{0, 0, 0, 0, 0, 0, -1, -2, 1, 1, 2, 5, 31}).Draw(t, "h")
		o.R = rapid.SampledFrom([]int{0, 0, 1, 2, 3}).Draw(t, "r")
		o.Val = rapid.SampledFrom(anyVals).Draw(t, "val")
		o.Mut = rapid.SampledFrom(certMuts).Draw(t, "mut")
		o.NS = rapid.SampledFrom([]int{0, 0, 0, 1, 9, -1}).Draw(t, "ns")
	case "ab":
		o.T = rapid.SampledFrom([]string{"decided", "decided", "decided", "pre", "finished"}).Draw(t, "a-phase")
		o.D = rapid.SampledFrom([]int{1, 1, 2}).Draw(t, "d")
		o.Val = rapid.SampledFrom([]string{"own", "own", "alt"}).Draw(t, "val")
		o.Mut = rapid.SampledFrom([]string{"", "cert", "cert"}).Draw(t, "how")
		o.Limit = rapid.IntRange(0, 2).Draw(t, "limit")
	case "flood":
		o.H = rapid.IntRange(0, 2).Draw(t, "h")
		o.NS = rapid.IntRange(0, 2).Draw(t, "then")
		o.Val = rapid.SampledFrom(anyVals).Draw(t, "val")
	case "timeout":
		o.TK = rapid.SampledFrom([]string{"", "", "", "stale", "other-height"}).Draw(t, "tk")
	case "replay", "loop":
		o.Idx = rapid.IntRange(0, 60).Draw(t, "idx")
	}
	return o
}

func genFor(sizes []int, maxOps int) func(t *rapid.T) Prog {
	return func(t *rapid.T) Prog {
		p := Prog{
			N:      rapid.SampledFrom(sizes).Draw(t, "n"),
			Role:   rapid.SampledFrom(roleNames).Draw(t, "role"),
			Direct: rapid.IntRange(0, 9).Draw(t, "direct") == 0,
			Slot0:  rapid.Uint64Range(1, 40).Draw(t, "slot0"),
		}
		p.Self = rapid.IntRange(1, p.N).Draw(t, "self")
		// fork epochs: none (half of the cases); or one right after the first duties' epoch, with the first slot
		// moved to the end of its epoch so that consecutive duties (+1..+3 slots) straddle the fork; or drawn freely
		switch rapid.IntRange(0, 9).Draw(t, "forks") {
		case 0, 1, 2, 3:
			e := rapid.Uint64Range(1, 2).Draw(t, "fork-epoch")
			p.Forks = []uint64{e}
			p.Slot0 = 32*e - uint64(rapid.IntRange(1, 3).Draw(t, "before-fork"))
		case 4:
			p.Forks = rapid.SliceOfNDistinct(rapid.Uint64Range(0, 3), 1, 2, rapid.ID[uint64]).Draw(t, "fork-epochs")
		}
		// most histories begin by starting a duty (messages before any duty are generated too)
		switch c := rapid.IntRange(0, 9).Draw(t, "opening"); {
		case c <= 2:
			o := genOp(t)
			for o.K != "ab" {
				o = Op{K: "ab", T: "decided", D: 1, Val: "own"}
			}
			p.Ops = append(p.Ops, o)
		case c <= 8:
			p.Ops = append(p.Ops, Op{K: "start", D: 0})
		}
		p.Ops = append(p.Ops, rapid.SliceOfN(rapid.Custom(genOp), 4, maxOps).Draw(t, "ops")...)
		return p
	}
}

func tier() (sizes []int, maxOps int) {
	if strings.EqualFold(os.Getenv("VERIF_TIER"), "thorough") {
		return []int{4, 4, 7, 7, 10, 13}, 45
	}
	return []int{4, 4, 4, 7, 7, 10, 13}, 30
}

func TestPropSignOnlyDecided(t *testing.T) {
	sizes, maxOps := tier()
	prog.Check(t, "C03", testName, genFor(sizes, maxOps), run)
}

func TestReplay(t *testing.T) { prog.Replay(t, "C03", testName, run) }

// TestShow prints the full verdict (with the operation log) for a saved program: VERIF_SHOW=<replay file>.
func TestShow(t *testing.T) {
	path := os.Getenv("VERIF_SHOW")
	if path == "" {
		t.Skip("VERIF_SHOW not set")
	}
	raw, err := os.ReadFile(path)
	if err != nil {
		t.Fatal(err)
	}
	var ff prog.FailFile
	var p Prog
	if json.Unmarshal(raw, &ff) != nil || json.Unmarshal(ff.Program, &p) != nil {
		t.Fatal("not a replay file")
	}
	r := prog.Guard(func() *prog.Result { return run(p) })
	if r.Fail != nil {
		fmt.Printf("FAIL %s\n%s\n", r.Fail.Sig, r.Fail.Msg)
	} else {
		fmt.Printf("PASS nontrivial=%v classes=%v\n  %s\n", r.NonTrivial, r.Classes, strings.Join(lastLog, "\n  "))
	}
}
