package faultdb

import (
	"errors"
	"testing"

	"go.uber.org/zap"

	"github.com/bloxapp/ssv/storage/basedb"
	"github.com/bloxapp/ssv/storage/kv"
)

func open(t *testing.T) *kv.BadgerDB {
	db, err := kv.NewInMemory(zap.NewNop(), basedb.Options{})
	if err != nil {
		t.Fatal(err)
	}
	t.Cleanup(func() { _ = db.Close() })
	return db
}

func has(t *testing.T, r basedb.Reader, p, k string) bool {
	_, found, err := r.Get([]byte(p), []byte(k))
	if err != nil {
		t.Fatal(err)
	}
	return found
}

func died(f func()) (d *Died) {
	defer func() {
		if r := recover(); r != nil {
			x := r.(Died)
			d = &x
		}
	}()
	f()
	return nil
}

// Transactions pass through: writes are invisible outside until Commit, gone after Discard, and the
// registry storages' Using(nil)/Using(txn) idiom reaches the wrapper / the wrapped transaction.
func TestPassThrough(t *testing.T) {
	raw := open(t)
	in := NewInjector()
	in.Enable()
	in.KeepTrace(true)
	db := WrapNS(raw, in, []byte("ns1/"))
	other := WrapNS(raw, nil, []byte("ns2/"))

	txn := db.Begin()
	if db.Using(txn) != basedb.ReadWriter(txn) || db.Using(nil) != basedb.ReadWriter(db) || db.UsingReader(nil) != basedb.Reader(db) {
		t.Fatal("Using/UsingReader semantics differ from BadgerDB")
	}
	if err := db.Using(txn).Set([]byte("p/"), []byte("a"), []byte("1")); err != nil {
		t.Fatal(err)
	}
	if !has(t, txn, "p/", "a") || has(t, db, "p/", "a") {
		t.Fatal("uncommitted write must be visible inside the transaction only")
	}
	txn.Discard()
	if has(t, db, "p/", "a") {
		t.Fatal("discarded write is visible")
	}
	txn = db.Begin()
	_ = txn.Set([]byte("p/"), []byte("a"), []byte("1"))
	_ = txn.SetMany([]byte("p/"), 2, func(i int) (basedb.Obj, error) {
		return basedb.Obj{Key: []byte{'b' + byte(i)}, Value: []byte("x")}, nil
	})
	if err := txn.Commit(); err != nil {
		t.Fatal(err)
	}
	txn.Discard()
	if !has(t, db, "p/", "a") || !has(t, db, "p/", "b") || !has(t, db, "p/", "c") {
		t.Fatal("committed writes are missing")
	}
	if has(t, other, "p/", "a") || has(t, raw, "p/", "a") || !has(t, raw, "ns1/p/", "a") {
		t.Fatal("namespaces are not isolated")
	}
	var keys []string
	_ = db.GetAll([]byte("p/"), func(_ int, o basedb.Obj) error { keys = append(keys, string(o.Key)); return nil })
	if len(keys) != 3 || keys[0] != "a" {
		t.Fatalf("GetAll keys %v", keys)
	}
	if n, err := db.DeletePrefix([]byte("p/")); err != nil || n != 3 {
		t.Fatalf("DeletePrefix %d %v", n, err)
	}
	if got := in.Count(); got != 5 { // Set, Set, SetMany, Commit, DeletePrefix (the discarded txn's Set counts too)
		t.Fatalf("counted %d points: %v", got, in.Trace())
	}
}

func TestFaultModes(t *testing.T) {
	raw := open(t)
	for _, tc := range []struct {
		mode      Mode
		wantWrite bool
	}{{Err, false}, {DieBefore, false}, {DieAfter, true}} {
		in := NewInjector()
		db := WrapNS(raw, in, []byte(tc.mode.String()+"/"))
		_ = db.Set([]byte("p/"), []byte("uncounted"), []byte("1")) // injector disabled: not a point
		in.Enable()
		in.Arm(2, tc.mode)
		if err := db.Set([]byte("p/"), []byte("k1"), []byte("1")); err != nil {
			t.Fatal(err)
		}
		var err error
		d := died(func() { err = db.Set([]byte("p/"), []byte("k2"), []byte("1")) })
		switch tc.mode {
		case Err:
			if d != nil || !errors.Is(err, ErrInjected) {
				t.Fatalf("err mode: died=%v err=%v", d, err)
			}
		default:
			if d == nil || d.N != 2 || d.Mode != tc.mode {
				t.Fatalf("%s: %+v", tc.mode, d)
			}
		}
		if has(t, db, "p/", "k2") != tc.wantWrite {
			t.Fatalf("%s: write performed = %v", tc.mode, !tc.wantWrite)
		}
		// fires once only
		if err := db.Set([]byte("p/"), []byte("k3"), []byte("1")); err != nil || in.Fired() == nil {
			t.Fatalf("%s: after the fault: %v", tc.mode, err)
		}
		// commit faults
		in.Arm(in.Count()+2, tc.mode)
		txn := db.Begin()
		_ = txn.Set([]byte("p/"), []byte("k4"), []byte("1"))
		d = died(func() { err = txn.Commit() })
		txn.Discard()
		if has(t, db, "p/", "k4") != tc.wantWrite {
			t.Fatalf("%s: commit performed = %v", tc.mode, !tc.wantWrite)
		}
	}
}
