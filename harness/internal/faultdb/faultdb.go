// Package faultdb wraps the real Badger store of /repo (storage/kv) in a basedb.Database /
// basedb.Txn that counts every mutating call and, at the k-th one, injects exactly one fault:
//
//	Err        the call is NOT performed and ErrInjected is returned
//	DieBefore  panic(Died{...}) before the call is performed  ("the process died here")
//	DieAfter   the call is performed, then panic(Died{...})
//
// Counted calls: Database.Set / SetMany / Delete / DeletePrefix / DropPrefix, Txn.Set / SetMany /
// Delete / Commit, and the commit of Database.Update. Reads, Begin, BeginRead, Discard, Close are
// passed through uncounted. Other out-of-database side effects (key manager calls) share the same
// Injector through Injector.Do, so that all fault points of a run live in one index space.
//
// Transactions: Begin() wraps the real badger transaction; Using(rw)/UsingReader(r) follow
// BadgerDB's semantics (nil -> the database itself, here the wrapper, so that direct writes of the
// registry storages are counted; non-nil -> rw unchanged, i.e. the wrapped transaction).
package faultdb

import (
	"errors"
	"fmt"
	"sync"

	"github.com/bloxapp/ssv/storage/basedb"
)

// Mode of the single injected fault.
type Mode int

const (
	Off Mode = iota
	Err
	DieBefore
	DieAfter
)

func (m Mode) String() string {
	switch m {
	case Off:
		return "off"
	case Err:
		return "err"
	case DieBefore:
		return "die-before"
	case DieAfter:
		return "die-after"
	}
	return fmt.Sprintf("mode(%d)", int(m))
}

// ErrInjected is what a call returns in mode Err.
var ErrInjected = errors.New("faultdb: injected failure")

// Died is the panic value meaning "the process died at this point". The harness recovers it at top
// level, drops every in-memory object and restarts on the surviving database.
type Died struct {
	N    int    // 1-based index of the fault point
	Op   string // e.g. "txn.Commit", "db.Set signer_data-…", "km.AddShare"
	Mode Mode
}

func (d Died) String() string { return fmt.Sprintf("died %s at #%d %s", d.Mode, d.N, d.Op) }

// Injector numbers fault points and fires the armed fault at most once.
type Injector struct {
	mu      sync.Mutex
	enabled bool
	n       int
	at      int
	mode    Mode
	fired   *Died
	trace   []string
	keep    bool
}

// NewInjector returns a disabled injector (nothing is counted until Enable).
func NewInjector() *Injector { return &Injector{} }

// Enable / Disable switch counting (and firing) on and off; construction-time writes of the harness
// (wallet creation, private-key hash) happen while disabled.
func (in *Injector) Enable()  { in.mu.Lock(); in.enabled = true; in.mu.Unlock() }
func (in *Injector) Disable() { in.mu.Lock(); in.enabled = false; in.mu.Unlock() }

// Arm plans the single fault: at the at-th counted point (1-based), in the given mode. at==0 never fires.
func (in *Injector) Arm(at int, mode Mode) {
	in.mu.Lock()
	in.at, in.mode, in.fired = at, mode, nil
	in.mu.Unlock()
}

// KeepTrace makes the injector remember the operation name of every counted point.
func (in *Injector) KeepTrace(on bool) { in.mu.Lock(); in.keep = on; in.mu.Unlock() }

// Count is the number of points counted so far.
func (in *Injector) Count() int { in.mu.Lock(); defer in.mu.Unlock(); return in.n }

// Trace returns the names of the counted points (only with KeepTrace).
func (in *Injector) Trace() []string {
	in.mu.Lock()
	defer in.mu.Unlock()
	return append([]string(nil), in.trace...)
}

// Fired returns the fault that was injected, if any.
func (in *Injector) Fired() *Died { in.mu.Lock(); defer in.mu.Unlock(); return in.fired }

func (in *Injector) step(op string) (Mode, int) {
	in.mu.Lock()
	defer in.mu.Unlock()
	if !in.enabled {
		return Off, 0
	}
	in.n++
	if in.keep {
		in.trace = append(in.trace, op)
	}
	if in.at != 0 && in.n == in.at && in.fired == nil {
		in.fired = &Died{N: in.n, Op: op, Mode: in.mode}
		return in.mode, in.n
	}
	return Off, in.n
}

// Do runs f as one fault point named op.
func (in *Injector) Do(op string, f func() error) error {
	if in == nil {
		return f()
	}
	mode, n := in.step(op)
	switch mode {
	case Err:
		return fmt.Errorf("%w (#%d %s)", ErrInjected, n, op)
	case DieBefore:
		panic(Died{N: n, Op: op, Mode: mode})
	case DieAfter:
		_ = f()
		panic(Died{N: n, Op: op, Mode: mode})
	}
	return f()
}

// ---- database -----------------------------------------------------------------------------

// DB is the fault-injecting basedb.Database.
type DB struct {
	inner basedb.Database
	in    *Injector
	ns    []byte // optional namespace prepended to every prefix (many independent stores in one Badger)
}

var _ basedb.Database = (*DB)(nil)

// Wrap wraps inner; all counted calls go through in.
func Wrap(inner basedb.Database, in *Injector) *DB { return &DB{inner: inner, in: in} }

// WrapNS is Wrap with a namespace: every prefix is passed to inner as ns+prefix, so that many
// independent logical stores can share one physical Badger instance (opening an in-memory Badger
// allocates and clears a 64 MB arena, far more than a test case costs). The code under test sees
// exactly the keys it wrote: Badger trims the full (namespaced) prefix from listed keys.
func WrapNS(inner basedb.Database, in *Injector, ns []byte) *DB {
	return &DB{inner: inner, in: in, ns: append([]byte(nil), ns...)}
}

func nsp(ns, prefix []byte) []byte {
	if len(ns) == 0 {
		return prefix
	}
	out := make([]byte, 0, len(ns)+len(prefix)) // cap == len, like the literals the storages pass
	out = append(out, ns...)
	return append(out, prefix...)
}

// Inner returns the wrapped database.
func (d *DB) Inner() basedb.Database { return d.inner }

func name(op string, prefix, key []byte) string {
	const max = 40
	s := string(prefix) + string(key)
	b := make([]byte, 0, len(s))
	for i := 0; i < len(s) && i < max; i++ {
		c := s[i]
		if c < 0x20 || c > 0x7e {
			c = '.'
		}
		b = append(b, c)
	}
	return op + " " + string(b)
}

func (d *DB) Get(prefix []byte, key []byte) (basedb.Obj, bool, error) {
	return d.inner.Get(nsp(d.ns, prefix), key)
}
func (d *DB) GetMany(prefix []byte, keys [][]byte, it func(basedb.Obj) error) error {
	return d.inner.GetMany(nsp(d.ns, prefix), keys, it)
}
func (d *DB) GetAll(prefix []byte, h func(int, basedb.Obj) error) error {
	return d.inner.GetAll(nsp(d.ns, prefix), h)
}
func (d *DB) CountPrefix(prefix []byte) (int64, error) { return d.inner.CountPrefix(nsp(d.ns, prefix)) }
func (d *DB) BeginRead() basedb.ReadTxn                { return &readTxn{inner: d.inner.BeginRead(), ns: d.ns} }
func (d *DB) Close() error                             { return d.inner.Close() }

func (d *DB) Set(prefix []byte, key []byte, value []byte) error {
	return d.in.Do(name("db.Set", prefix, key), func() error { return d.inner.Set(nsp(d.ns, prefix), key, value) })
}

func (d *DB) SetMany(prefix []byte, n int, next func(int) (basedb.Obj, error)) error {
	return d.in.Do(name("db.SetMany", prefix, nil), func() error { return d.inner.SetMany(nsp(d.ns, prefix), n, next) })
}

func (d *DB) Delete(prefix []byte, key []byte) error {
	return d.in.Do(name("db.Delete", prefix, key), func() error { return d.inner.Delete(nsp(d.ns, prefix), key) })
}

func (d *DB) DeletePrefix(prefix []byte) (int, error) {
	var n int
	err := d.in.Do(name("db.DeletePrefix", prefix, nil), func() error {
		var err error
		n, err = d.inner.DeletePrefix(nsp(d.ns, prefix))
		return err
	})
	return n, err
}

func (d *DB) DropPrefix(prefix []byte) error {
	return d.in.Do(name("db.DropPrefix", prefix, nil), func() error { return d.inner.DropPrefix(nsp(d.ns, prefix)) })
}

// Begin starts a real read-write transaction and wraps it.
func (d *DB) Begin() basedb.Txn { return &Txn{inner: d.inner.Begin(), in: d.in, ns: d.ns} }

// Using mirrors BadgerDB.Using: the given ReadWriter, or the (wrapped) database when nil.
func (d *DB) Using(rw basedb.ReadWriter) basedb.ReadWriter {
	if rw == nil {
		return d
	}
	return rw
}

// UsingReader mirrors BadgerDB.UsingReader.
func (d *DB) UsingReader(r basedb.Reader) basedb.Reader {
	if r == nil {
		return d
	}
	return r
}

// Update has badger's Update semantics (begin, fn, commit on success, discard otherwise); the writes
// inside fn and the final commit are counted points.
func (d *DB) Update(fn func(basedb.Txn) error) error {
	t := &Txn{inner: d.inner.Begin(), in: d.in, ns: d.ns}
	defer t.Discard()
	if err := fn(t); err != nil {
		return err
	}
	return t.Commit()
}

// ---- transaction --------------------------------------------------------------------------

// Txn is the fault-injecting basedb.Txn.
type Txn struct {
	inner basedb.Txn
	in    *Injector
	ns    []byte
}

var _ basedb.Txn = (*Txn)(nil)

func (t *Txn) Get(prefix []byte, key []byte) (basedb.Obj, bool, error) {
	return t.inner.Get(nsp(t.ns, prefix), key)
}
func (t *Txn) GetMany(prefix []byte, keys [][]byte, it func(basedb.Obj) error) error {
	return t.inner.GetMany(nsp(t.ns, prefix), keys, it)
}
func (t *Txn) GetAll(prefix []byte, h func(int, basedb.Obj) error) error {
	return t.inner.GetAll(nsp(t.ns, prefix), h)
}
func (t *Txn) Discard() { t.inner.Discard() }

func (t *Txn) Set(prefix []byte, key []byte, value []byte) error {
	return t.in.Do(name("txn.Set", prefix, key), func() error { return t.inner.Set(nsp(t.ns, prefix), key, value) })
}

func (t *Txn) SetMany(prefix []byte, n int, next func(int) (basedb.Obj, error)) error {
	return t.in.Do(name("txn.SetMany", prefix, nil), func() error { return t.inner.SetMany(nsp(t.ns, prefix), n, next) })
}

func (t *Txn) Delete(prefix []byte, key []byte) error {
	return t.in.Do(name("txn.Delete", prefix, key), func() error { return t.inner.Delete(nsp(t.ns, prefix), key) })
}

func (t *Txn) Commit() error {
	return t.in.Do("txn.Commit", func() error { return t.inner.Commit() })
}

// readTxn passes a read-only transaction through (namespaced).
type readTxn struct {
	inner basedb.ReadTxn
	ns    []byte
}

func (t *readTxn) Get(prefix []byte, key []byte) (basedb.Obj, bool, error) {
	return t.inner.Get(nsp(t.ns, prefix), key)
}
func (t *readTxn) GetMany(prefix []byte, keys [][]byte, it func(basedb.Obj) error) error {
	return t.inner.GetMany(nsp(t.ns, prefix), keys, it)
}
func (t *readTxn) GetAll(prefix []byte, h func(int, basedb.Obj) error) error {
	return t.inner.GetAll(nsp(t.ns, prefix), h)
}
func (t *readTxn) Discard() { t.inner.Discard() }
