// Package valfx builds the fixture around the real message validator: a node storage with
// validators in the states the properties name (active, liquidated, metadata-less, not attesting),
// registered operators with RSA keys, a virtual-clock network config, and helpers that wrap an
// SSVMessage the way the p2p layer does.
package valfx

import (
	"encoding/hex"
	"fmt"
	"sync"
	"time"

	eth2apiv1 "github.com/attestantio/go-eth2-client/api/v1"
	"github.com/attestantio/go-eth2-client/spec/phase0"
	spectypes "github.com/bloxapp/ssv-spec/types"
	"github.com/bloxapp/ssv-spec/types/testingutils"
	"github.com/herumi/bls-eth-go-binary/bls"
	pubsub "github.com/libp2p/go-libp2p-pubsub"
	pspb "github.com/libp2p/go-libp2p-pubsub/pb"
	"go.uber.org/zap"

	"github.com/bloxapp/ssv/message/validation"
	"github.com/bloxapp/ssv/network/commons"
	"github.com/bloxapp/ssv/networkconfig"
	"github.com/bloxapp/ssv/operator/duties/dutystore"
	"github.com/bloxapp/ssv/operator/keys"
	operatorstorage "github.com/bloxapp/ssv/operator/storage"
	beaconprotocol "github.com/bloxapp/ssv/protocol/v2/blockchain/beacon"
	ssvtypes "github.com/bloxapp/ssv/protocol/v2/types"
	registrystorage "github.com/bloxapp/ssv/registry/storage"
	"github.com/bloxapp/ssv/storage/basedb"
	"github.com/bloxapp/ssv/storage/kv"

	"verif/harness/internal/fx"
)

// Validator states in the fixture.
const (
	Active      = "active"
	Liquidated  = "liquidated"
	NoMetadata  = "nometadata"
	NotAttesing = "exited"
	Unknown     = "unknown" // not in storage
)

type Val struct {
	State string
	N     int // committee size
	KS    *testingutils.TestKeySet
	PK    []byte // validator public key
	Share *ssvtypes.SSVShare
}

// Store is the process-wide, read-only node storage (shares and operators never change).
type Store struct {
	NS     operatorstorage.Storage
	Vals   []*Val
	OpKeys map[spectypes.OperatorID]keys.OperatorPrivateKey // registered operators 1..13
	Rogue  keys.OperatorPrivateKey                          // an RSA key that is not registered
}

var (
	once      sync.Once
	store     *Store
	topicOnce sync.Once
	topicSt   *Store
)

func detSK(seed byte) *bls.SecretKey { return detSK2(seed, 0) }

func detSK2(seed, salt byte) *bls.SecretKey {
	var b [32]byte
	for i := range b {
		b[i] = seed + byte(i)*7 + salt*byte(i*i+1)
	}
	b[31] &= 0x0f
	sk := &bls.SecretKey{}
	if err := sk.SetLittleEndian(b[:]); err != nil {
		panic(err)
	}
	return sk
}

// Shared returns the process-wide store: validator 0 is the spec key-set validator with committee 4
// (active), 1 = committee 7 (other key, active), 2 = liquidated, 3 = metadata-less, 4 = exited, 5 = unknown.
func Shared() *Store {
	once.Do(func() { store = build(false) })
	return store
}

// TopicStore is a second process-wide store with many active committee-4 validators whose public keys cover
// every one of the 128 subnets (same operators as Shared): the domain of the "sent on that validator's topic" rule.
func TopicStore() *Store {
	topicOnce.Do(func() { topicSt = build(true) })
	return topicSt
}

// IsActive says whether fixture validator idx of Shared() is known, active and not liquidated.
func IsActive(idx int) bool {
	v := Shared().Vals
	return idx >= 0 && idx < len(v) && v[idx].State == Active
}

// CommitteeSize returns the committee size of fixture validator idx of Shared().
func CommitteeSize(idx int) int { v := Shared().Vals; return v[idx%len(v)].N }

// ActiveIdx lists the active validators of Shared().
func ActiveIdx() []int {
	var out []int
	for i, v := range Shared().Vals {
		if v.State == Active {
			out = append(out, i)
		}
	}
	return out
}

// DetPK returns a valid BLS public key that belongs to no fixture validator (deterministic in i).
func DetPK(i int) []byte {
	return detSK2(byte(i), byte(100+i/251%100)).GetPublicKey().Serialize()
}

// Subnet computes a validator key's subnet independently of network/commons: the first five bytes of the key
// read as a big-endian number, modulo 128 (network/commons.ValidatorSubnet: first ten hex digits mod subnet count).
func Subnet(pk []byte) int {
	// 128 divides 256: only the fifth byte matters
	return int(pk[4]) % 128
}

func build(topics bool) *Store {
	{
		db, err := kv.NewInMemory(zap.NewNop(), basedb.Options{})
		if err != nil {
			panic(err)
		}
		ns, err := operatorstorage.NewNodeStorage(zap.NewNop(), db)
		if err != nil {
			panic(err)
		}
		s := &Store{NS: ns, OpKeys: map[spectypes.OperatorID]keys.OperatorPrivateKey{}}
		for id := spectypes.OperatorID(1); id <= 13; id++ {
			k, err := keys.GeneratePrivateKey()
			if err != nil {
				panic(err)
			}
			s.OpKeys[id] = k
			pub, _ := k.Public().Base64()
			if _, err := ns.SaveOperatorData(nil, &registrystorage.OperatorData{ID: id, PublicKey: pub}); err != nil {
				panic(err)
			}
		}
		// the registry contract is permissionless: operators 15 and 16 registered public keys that are not RSA keys
		// (valid base64 of garbage / not even base64); the event handler stores the bytes as they come
		for id, pk := range map[spectypes.OperatorID]string{15: "bm90IGFuIFJTQSBwdWJsaWMga2V5", 16: "%%% not base64 %%%"} {
			if _, err := ns.SaveOperatorData(nil, &registrystorage.OperatorData{ID: id, PublicKey: []byte(pk)}); err != nil {
				panic(err)
			}
		}
		s.Rogue, _ = keys.GeneratePrivateKey()
		mkpk := func(state string, n int, index int, pk []byte) *Val {
			ks := fx.KeySet(n)
			v := &Val{State: state, N: n, KS: ks}
			sh := *testingutils.TestingShare(ks)
			if pk != nil {
				sh.ValidatorPubKey = pk
			}
			v.PK = sh.ValidatorPubKey
			v.Share = &ssvtypes.SSVShare{Share: sh, Metadata: ssvtypes.Metadata{
				BeaconMetadata: &beaconprotocol.ValidatorMetadata{Status: eth2apiv1.ValidatorStateActiveOngoing, Index: phase0.ValidatorIndex(index)},
			}}
			switch state {
			case Liquidated:
				v.Share.Liquidated = true
			case NoMetadata:
				v.Share.BeaconMetadata = nil
			case NotAttesing:
				v.Share.BeaconMetadata.Status = eth2apiv1.ValidatorStateExitedUnslashed
			}
			if state != Unknown {
				if err := ns.Shares().Save(nil, v.Share); err != nil {
					panic(err)
				}
			}
			return v
		}
		mk := func(state string, n int, seed byte) *Val {
			if seed == 0 {
				return mkpk(state, n, 100, nil)
			}
			return mkpk(state, n, 100+int(seed), detSK(seed).GetPublicKey().Serialize())
		}
		if topics {
			seen := map[int]bool{}
			for salt := 1; salt < 8 && len(seen) < 128; salt++ {
				for seed := 1; seed < 256 && len(seen) < 128; seed++ {
					pk := detSK2(byte(seed), byte(salt)).GetPublicKey().Serialize()
					if sn := Subnet(pk); !seen[sn] {
						seen[sn] = true
						s.Vals = append(s.Vals, mkpk(Active, 4, 1000+len(s.Vals), pk))
					}
				}
			}
			return s
		}
		s.Vals = []*Val{mk(Active, 4, 0), mk(Active, 7, 11), mk(Liquidated, 4, 22), mk(NoMetadata, 4, 33), mk(NotAttesing, 4, 44), mk(Unknown, 4, 55),
			mk(Active, 10, 66), mk(Active, 13, 77)}
		return s
	}
}

// Env is one validator instance with its own virtual clock (fresh per case).
type Env struct {
	*Store
	Clock  *fx.Clock
	NetCfg networkconfig.NetworkConfig
	MV     validation.MessageValidator
	Duties *dutystore.Store
}

// Epoch0 is the virtual "now" used by harnesses: far below the real clock.
const BaseEpoch = phase0.Epoch(1000)

// NewEnv builds a fresh validator. signed=true puts the clock after the permissionless activation
// epoch (signed envelopes required), false before it.
func NewEnv(signed bool, opts ...validation.Option) *Env {
	return NewEnvStore(Shared(), signed, opts...)
}

// NewEnvActivation is NewEnv with the permissionless activation epoch (from which signed envelopes are required) at
// BaseEpoch + offset: the clock starts at BaseEpoch and can be moved across it.
func NewEnvActivation(offset int, opts ...validation.Option) *Env {
	e := NewEnvStore(Shared(), false, opts...)
	e.NetCfg.PermissionlessActivationEpoch = phase0.Epoch(int(BaseEpoch) + offset)
	all := append([]validation.Option{validation.WithNodeStorage(e.NS), validation.WithDutyStore(e.Duties)}, opts...)
	e.MV = validation.NewMessageValidator(e.NetCfg, all...)
	return e
}

// NewEnvStore is NewEnv over a given store (Shared or TopicStore).
func NewEnvStore(s *Store, signed bool, opts ...validation.Option) *Env {
	clock := fx.NewClock(time.Time{})
	b := fx.NewBeacon(clock)
	cfg := networkconfig.TestNetwork
	cfg.Beacon = b
	cfg.Domain = fx.Domain
	if signed {
		cfg.PermissionlessActivationEpoch = BaseEpoch - 10
	} else {
		cfg.PermissionlessActivationEpoch = BaseEpoch + 1000000
	}
	clock.Set(b.GetSlotStartTime(b.FirstSlotAtEpoch(BaseEpoch)))
	e := &Env{Store: s, Clock: clock, NetCfg: cfg, Duties: dutystore.New()}
	all := append([]validation.Option{validation.WithNodeStorage(s.NS), validation.WithDutyStore(e.Duties)}, opts...)
	e.MV = validation.NewMessageValidator(cfg, all...)
	return e
}

// AddDuties registers proposer duties for every validator at slots Slot0..Slot0+span and sync-committee duties
// for the period, so that proposer / sync-committee messages of honest operators pass the duty rule.
func (e *Env) AddDuties(span int) {
	b := e.NetCfg.Beacon
	for _, v := range e.Vals {
		if v.Share.BeaconMetadata == nil {
			continue
		}
		idx := v.Share.BeaconMetadata.Index
		for s := e.Slot0(); s <= e.Slot0()+phase0.Slot(span); s++ {
			e.Duties.Proposer.Add(b.EstimatedEpochAtSlot(s), s, idx, &eth2apiv1.ProposerDuty{Slot: s, ValidatorIndex: idx}, true)
		}
		period := b.EstimatedSyncCommitteePeriodAtEpoch(BaseEpoch)
		e.Duties.SyncCommittee.Add(period, idx, &eth2apiv1.SyncCommitteeDuty{ValidatorIndex: idx}, true)
	}
}

// Slot0 returns the first slot of the base epoch.
func (e *Env) Slot0() phase0.Slot { return e.NetCfg.Beacon.FirstSlotAtEpoch(BaseEpoch) }

// Topic returns the full topic name a validator's messages belong on.
func Topic(pk []byte) string { return commons.GetTopicFullName(commons.ValidatorTopicID(pk)[0]) }

// Wrap encodes msg as the p2p layer would: SSZ, and (signed mode) the operator-signed envelope.
func (e *Env) Wrap(msg *spectypes.SSVMessage, signed bool, opID spectypes.OperatorID, key keys.OperatorPrivateKey) []byte {
	enc, err := commons.EncodeNetworkMsg(msg)
	if err != nil {
		panic(err)
	}
	if !signed {
		return enc
	}
	sig, err := key.Sign(enc)
	if err != nil {
		panic(err)
	}
	return commons.EncodeSignedSSVMessage(enc, opID, sig)
}

// PMsg builds a pubsub message on a topic.
func PMsg(topic string, data []byte) *pubsub.Message {
	return &pubsub.Message{Message: &pspb.Message{Data: data, Topic: &topic}}
}

func (v *Val) String() string {
	return fmt.Sprintf("%s/%d/%s", v.State, v.N, hex.EncodeToString(v.PK[:4]))
}
