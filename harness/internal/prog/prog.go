// Package prog is the glue between rapid, the per-property harnesses and the ./check driver:
// programs are JSON-serialisable values; every executed case is counted and classified; a
// failing case is written to a file the driver turns into the replay=<path> of a VIOLATION line;
// TestReplay re-executes saved programs without rapid.
package prog

import (
	"crypto/sha256"
	"encoding/hex"
	"encoding/json"
	"fmt"
	"os"
	"path/filepath"
	"runtime"
	"sort"
	"strings"
	"sync"
	"testing"

	"pgregory.net/rapid"
)

// Failure describes one oracle violation.
type Failure struct {
	// Sig is a short, stable signature: oracle clause + normalised witness. It is what
	// KNOWN_FINDINGS.txt lists.
	Sig string `json:"signature"`
	Msg string `json:"message"`
}

func Failf(sig, format string, a ...any) *Failure {
	return &Failure{Sig: sig, Msg: fmt.Sprintf(format, a...)}
}

// Result of executing one program.
type Result struct {
	Fail       *Failure
	NonTrivial bool
	Classes    []string // labels for the class histogram
	Discard    bool     // case not judged (stated in evidence), e.g. descheduled wall-clock case
	Sample     any      // optional human-readable rendering of the case (defaults to the program)
}

type testStats struct {
	Evaluations int            `json:"evaluations"`
	NonTrivial  int            `json:"nontrivial"`
	Distinct    int            `json:"distinct_nontrivial"`
	Discarded   int            `json:"discarded"`
	Classes     map[string]int `json:"classes"`
	KnownHits   map[string]int `json:"known_hits"`
	Samples     []any          `json:"samples"`
	Extra       map[string]int `json:"extra"`
	seen        map[[12]byte]struct{}
}

var (
	mu    sync.Mutex
	stats = map[string]*testStats{}
	known map[string]bool
)

func get(name string) *testStats {
	s := stats[name]
	if s == nil {
		s = &testStats{Classes: map[string]int{}, KnownHits: map[string]int{}, Extra: map[string]int{}, seen: map[[12]byte]struct{}{}}
		stats[name] = s
	}
	return s
}

func knownSet() map[string]bool {
	if known == nil {
		known = map[string]bool{}
		for _, s := range strings.Split(os.Getenv("VERIF_KNOWN"), "\n") {
			if s = strings.TrimSpace(s); s != "" {
				known[s] = true
			}
		}
	}
	return known
}

// IsKnown reports whether a failure signature is listed as a known finding (harnesses use it to
// exclude a known finding by construction and go on searching behind it).
func IsKnown(sig string) bool {
	mu.Lock()
	defer mu.Unlock()
	return knownSet()[sig]
}

// KnownHit records, from inside a run, that a listed known finding was hit and excluded
// (the run goes on behind it).
func KnownHit(test, sig string) {
	mu.Lock()
	defer mu.Unlock()
	get(test).KnownHits[sig]++
}

// Count adds to a free-form counter of the test (reported under coverage.extra).
func Count(test, key string, n int) {
	mu.Lock()
	defer mu.Unlock()
	get(test).Extra[key] += n
}

func record(name string, p any, r *Result) (knownHit bool) {
	mu.Lock()
	defer mu.Unlock()
	s := get(name)
	s.Evaluations++
	if r.Discard {
		s.Discarded++
		return false
	}
	for _, c := range r.Classes {
		s.Classes[c]++
	}
	if r.Fail != nil && knownSet()[r.Fail.Sig] {
		s.KnownHits[r.Fail.Sig]++
		knownHit = true
	}
	if r.NonTrivial {
		s.NonTrivial++
		b, _ := json.Marshal(p)
		h := sha256.Sum256(b)
		var k [12]byte
		copy(k[:], h[:12])
		if _, ok := s.seen[k]; !ok {
			s.seen[k] = struct{}{}
			s.Distinct++
			if len(s.Samples) < 3 {
				smp := r.Sample
				if smp == nil {
					smp = json.RawMessage(b)
				}
				s.Samples = append(s.Samples, smp)
			}
		}
	}
	return knownHit
}

// FailFile is what a failing case is written as.
type FailFile struct {
	Property  string          `json:"property"`
	Test      string          `json:"test"`
	Signature string          `json:"signature"`
	Message   string          `json:"message"`
	Program   json.RawMessage `json:"program"`
}

func writeFail(prop, name string, p any, f *Failure) string {
	dir := os.Getenv("VERIF_FAILDIR")
	if dir == "" {
		return ""
	}
	b, _ := json.Marshal(p)
	ff := FailFile{Property: prop, Test: name, Signature: f.Sig, Message: f.Msg, Program: b}
	out, _ := json.MarshalIndent(ff, "", " ")
	path := filepath.Join(dir, name+".last.json")
	_ = os.WriteFile(path, out, 0o644)
	return path
}

// Guard runs fn and converts a panic into a Failure whose signature names the panicking frame.
func Guard(fn func() *Result) (res *Result) {
	defer func() {
		if r := recover(); r != nil {
			res = &Result{Fail: &Failure{Sig: "panic:" + panicSite(), Msg: fmt.Sprintf("panic: %v\n%s", r, stack())}}
		}
	}()
	return fn()
}

func stack() string {
	buf := make([]byte, 16<<10)
	return string(buf[:runtime.Stack(buf, false)])
}

// panicSite returns the innermost non-runtime function on the panicking stack.
func panicSite() string {
	pcs := make([]uintptr, 64)
	n := runtime.Callers(3, pcs)
	frames := runtime.CallersFrames(pcs[:n])
	for {
		fr, more := frames.Next()
		fn := fr.Function
		if fn != "" && !strings.HasPrefix(fn, "runtime.") && !strings.Contains(fn, "internal/prog.") {
			if i := strings.LastIndex(fn, "/"); i >= 0 {
				fn = fn[i+1:]
			}
			return fn
		}
		if !more {
			return "unknown"
		}
	}
}

// Check drives one property with rapid: gen draws a program, run executes it on the real code.
func Check[P any](t *testing.T, prop, name string, gen func(*rapid.T) P, run func(P) *Result) {
	rapid.Check(t, func(rt *rapid.T) {
		p := gen(rt)
		r := Guard(func() *Result { return run(p) })
		if record(name, p, r) {
			return // known finding: counted, excluded, search goes on
		}
		if r.Fail != nil && !r.Discard {
			writeFail(prop, name, p, r.Fail)
			rt.Fatalf("VERIF-FAIL sig=%q\n%s", r.Fail.Sig, r.Fail.Msg)
		}
	})
}

// CheckOne judges one program outside rapid (native fuzz targets): same recording, same fail file.
func CheckOne[P any](t *testing.T, prop, name string, p P, run func(P) *Result) {
	r := Guard(func() *Result { return run(p) })
	if record(name, p, r) {
		return
	}
	if r.Fail != nil && !r.Discard {
		writeFail(prop, name, p, r.Fail)
		t.Fatalf("VERIF-FAIL sig=%q\n%s", r.Fail.Sig, r.Fail.Msg)
	}
}

// Replay re-executes every saved program of this test found in $VERIF_REPLAY_DIR, without rapid.
// A still-failing replay prints "REPLAY-FAIL file=<path> sig=<sig>" and fails the test; the driver
// decides whether that is a known finding or a violation.
func Replay[P any](t *testing.T, prop, name string, run func(P) *Result) {
	dir := os.Getenv("VERIF_REPLAY_DIR")
	if dir == "" {
		t.Skip("no VERIF_REPLAY_DIR")
	}
	files, _ := filepath.Glob(filepath.Join(dir, "*.json"))
	sort.Strings(files)
	for _, f := range files {
		raw, err := os.ReadFile(f)
		if err != nil {
			continue
		}
		var ff FailFile
		if json.Unmarshal(raw, &ff) != nil || ff.Test != name {
			continue
		}
		var p P
		if err := json.Unmarshal(ff.Program, &p); err != nil {
			t.Errorf("REPLAY-BROKEN file=%s err=%v", f, err)
			continue
		}
		r := Guard(func() *Result { return run(p) })
		mu.Lock()
		get(name).Extra["replays"]++
		mu.Unlock()
		if r.Fail != nil {
			fmt.Printf("REPLAY-FAIL file=%s sig=%q msg=%q\n", f, r.Fail.Sig, firstLine(r.Fail.Msg))
			t.Fail()
		} else {
			fmt.Printf("REPLAY-PASS file=%s\n", f)
		}
	}
}

func firstLine(s string) string {
	if i := strings.IndexByte(s, '\n'); i >= 0 {
		return s[:i]
	}
	return s
}

// Hash returns a short content hash (replay file names).
func Hash(b []byte) string {
	h := sha256.Sum256(b)
	return hex.EncodeToString(h[:6])
}

// Main is called from TestMain: runs the tests and flushes the statistics.
func Main(m *testing.M) {
	code := m.Run()
	Flush()
	os.Exit(code)
}

func Flush() {
	path := os.Getenv("VERIF_STATS")
	if path == "" {
		return
	}
	mu.Lock()
	defer mu.Unlock()
	b, _ := json.Marshal(stats)
	if _, err := os.Stat(path); err == nil {
		path = fmt.Sprintf("%s.%d", path, os.Getpid())
	}
	_ = os.WriteFile(path, b, 0o644)
}
