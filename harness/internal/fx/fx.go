// Package fx holds fixtures shared by the harnesses: deterministic key sets and committees
// (from ssv-spec's testingutils), a virtual-clock beacon network, recorders for the network /
// timer / store interfaces of the node's QBFT config, and a signing message factory.
package fx

import (
	"errors"
	"sort"
	"sync"
	"time"

	"github.com/attestantio/go-eth2-client/spec/phase0"
	specqbft "github.com/bloxapp/ssv-spec/qbft"
	spectypes "github.com/bloxapp/ssv-spec/types"
	"github.com/bloxapp/ssv-spec/types/testingutils"
	"github.com/herumi/bls-eth-go-binary/bls"
	"go.uber.org/zap"

	"github.com/bloxapp/ssv/protocol/v2/blockchain/beacon"
	"github.com/bloxapp/ssv/protocol/v2/qbft"
	"github.com/bloxapp/ssv/protocol/v2/qbft/roundtimer"
	qbftstorage "github.com/bloxapp/ssv/protocol/v2/qbft/storage"
)

func init() { spectypes.InitBLS() }

var (
	ksMu   sync.Mutex
	ksMemo = map[int]*testingutils.TestKeySet{}
)

// KeySet returns the deterministic key set for a committee of 4, 7, 10 or 13.
func KeySet(n int) *testingutils.TestKeySet {
	ksMu.Lock()
	defer ksMu.Unlock()
	if ks := ksMemo[n]; ks != nil {
		return ks
	}
	var ks *testingutils.TestKeySet
	switch n {
	case 4:
		ks = testingutils.Testing4SharesSet()
	case 7:
		ks = testingutils.Testing7SharesSet()
	case 10:
		ks = testingutils.Testing10SharesSet()
	case 13:
		ks = testingutils.Testing13SharesSet()
	default:
		panic("no key set of that size")
	}
	ksMemo[n] = ks
	return ks
}

// F returns the number of tolerated faults for committee size n.
func F(n int) int { return (n - 1) / 3 }

// Domain is the signature domain used by every harness (the one the spec's testing key manager signs with).
var Domain = testingutils.TestingSSVDomainType

// Share builds operator id's view of the validator share.
func Share(ks *testingutils.TestKeySet, id spectypes.OperatorID) *spectypes.Share {
	s := testingutils.TestingShare(ks)
	s.OperatorID = id
	s.SharePubKey = ks.Shares[id].GetPublicKey().Serialize()
	return s
}

// Identifier returns the message id (controller identifier) for a key set and role.
func Identifier(ks *testingutils.TestKeySet, role spectypes.BeaconRole) spectypes.MessageID {
	return spectypes.NewMsgID(Domain, ks.ValidatorPK.Serialize(), role)
}

// Sign signs a QBFT message with operator id's share key.
func Sign(ks *testingutils.TestKeySet, id spectypes.OperatorID, msg *specqbft.Message) *specqbft.SignedMessage {
	return SignWith(ks.Shares[id], id, msg)
}

// SignWith signs msg with sk but claims signer id (used for impersonation attempts).
func SignWith(sk *bls.SecretKey, id spectypes.OperatorID, msg *specqbft.Message) *specqbft.SignedMessage {
	r, err := spectypes.ComputeSigningRoot(msg, spectypes.ComputeSignatureDomain(Domain, spectypes.QBFTSignatureType))
	if err != nil {
		panic(err)
	}
	return &specqbft.SignedMessage{Message: *msg, Signers: []spectypes.OperatorID{id}, Signature: sk.SignByte(r[:]).Serialize()}
}

// Aggregate BLS-aggregates single-signer messages over the same Message (signers kept in the given order).
func Aggregate(msgs []*specqbft.SignedMessage) *specqbft.SignedMessage {
	var agg bls.Sign
	out := &specqbft.SignedMessage{Message: msgs[0].Message}
	for i, m := range msgs {
		var s bls.Sign
		if err := s.Deserialize(m.Signature); err != nil {
			// garbage in, garbage out: keep the signer list, leave a signature that cannot verify
			out.Signers = append(out.Signers, m.Signers...)
			continue
		}
		if i == 0 {
			agg = s
		} else {
			agg.Add(&s)
		}
		out.Signers = append(out.Signers, m.Signers...)
	}
	out.Signature = agg.Serialize()
	if len(out.Signature) != 96 {
		out.Signature = append([]byte(nil), msgs[0].Signature...)
	}
	return out
}

// SortedSigners returns a copy with signers sorted ascending.
func SortedSigners(ids []spectypes.OperatorID) []spectypes.OperatorID {
	c := append([]spectypes.OperatorID(nil), ids...)
	sort.Slice(c, func(i, j int) bool { return c[i] < c[j] })
	return c
}

// ---- recorders -------------------------------------------------------------------------------

// Net records every broadcast (implements specqbft.Network for both spec and node configs).
type Net struct {
	mu   sync.Mutex
	Msgs []*spectypes.SSVMessage
	Hook func(*spectypes.SSVMessage)
	// FailNext > 0: the next Broadcast publishes the message (it is recorded) but reports an error to the caller,
	// as a publish that reached the wire and then timed out does. LoseNext > 0: the message is lost and an error reported.
	FailNext, LoseNext int
}

// ErrBroadcast is the injected broadcast error.
var ErrBroadcast = errors.New("injected broadcast failure")

func (n *Net) Broadcast(m *spectypes.SSVMessage) error {
	n.mu.Lock()
	if n.LoseNext > 0 {
		n.LoseNext--
		n.mu.Unlock()
		return ErrBroadcast
	}
	n.Msgs = append(n.Msgs, m)
	h := n.Hook
	fail := n.FailNext > 0
	if fail {
		n.FailNext--
	}
	n.mu.Unlock()
	if h != nil {
		h(m)
	}
	if fail {
		return ErrBroadcast
	}
	return nil
}

// Drain returns and clears the recorded broadcasts.
func (n *Net) Drain() []*spectypes.SSVMessage {
	n.mu.Lock()
	defer n.mu.Unlock()
	out := n.Msgs
	n.Msgs = nil
	return out
}

// Arm is one TimeoutForRound call.
type Arm struct {
	Height specqbft.Height
	Round  specqbft.Round
}

// Timer records armings (node roundtimer.Timer).
type Timer struct {
	Arms []Arm
}

func (t *Timer) TimeoutForRound(h specqbft.Height, r specqbft.Round) {
	t.Arms = append(t.Arms, Arm{h, r})
}

// Last returns the most recent arming.
func (t *Timer) Last() (Arm, bool) {
	if len(t.Arms) == 0 {
		return Arm{}, false
	}
	return t.Arms[len(t.Arms)-1], true
}

var _ roundtimer.Timer = (*Timer)(nil)

// SpecTimer records armings for the spec instance (height-less interface).
type SpecTimer struct{ Rounds []specqbft.Round }

func (t *SpecTimer) TimeoutForRound(r specqbft.Round) { t.Rounds = append(t.Rounds, r) }

// MemStore is an in-memory QBFTStore that logs every save (a recorder; C15 uses the real ibft/storage).
type MemStore struct {
	mu      sync.Mutex
	Highest map[string]*qbftstorage.StoredInstance
	Hist    map[string]map[specqbft.Height]*qbftstorage.StoredInstance
	Saves   []SaveRec
}

type SaveRec struct {
	Kind     string // highest | historical | both
	Instance *qbftstorage.StoredInstance
}

func NewMemStore() *MemStore {
	return &MemStore{Highest: map[string]*qbftstorage.StoredInstance{}, Hist: map[string]map[specqbft.Height]*qbftstorage.StoredInstance{}}
}

func (s *MemStore) GetHighestInstance(id []byte) (*qbftstorage.StoredInstance, error) {
	s.mu.Lock()
	defer s.mu.Unlock()
	return s.Highest[string(id)], nil
}
func (s *MemStore) GetInstancesInRange(id []byte, from, to specqbft.Height) ([]*qbftstorage.StoredInstance, error) {
	s.mu.Lock()
	defer s.mu.Unlock()
	var out []*qbftstorage.StoredInstance
	for h := from; h <= to; h++ {
		if i := s.Hist[string(id)][h]; i != nil {
			out = append(out, i)
		}
	}
	return out, nil
}
func (s *MemStore) saveHist(i *qbftstorage.StoredInstance) {
	id := string(i.State.ID)
	if s.Hist[id] == nil {
		s.Hist[id] = map[specqbft.Height]*qbftstorage.StoredInstance{}
	}
	s.Hist[id][i.State.Height] = i
}
func (s *MemStore) SaveInstance(i *qbftstorage.StoredInstance) error {
	s.mu.Lock()
	defer s.mu.Unlock()
	s.saveHist(i)
	s.Saves = append(s.Saves, SaveRec{"historical", i})
	return nil
}
func (s *MemStore) SaveHighestInstance(i *qbftstorage.StoredInstance) error {
	s.mu.Lock()
	defer s.mu.Unlock()
	s.Highest[string(i.State.ID)] = i
	s.Saves = append(s.Saves, SaveRec{"highest", i})
	return nil
}
func (s *MemStore) SaveHighestAndHistoricalInstance(i *qbftstorage.StoredInstance) error {
	s.mu.Lock()
	defer s.mu.Unlock()
	s.Highest[string(i.State.ID)] = i
	s.saveHist(i)
	s.Saves = append(s.Saves, SaveRec{"both", i})
	return nil
}
func (s *MemStore) GetInstance(id []byte, h specqbft.Height) (*qbftstorage.StoredInstance, error) {
	s.mu.Lock()
	defer s.mu.Unlock()
	return s.Hist[string(id)][h], nil
}
func (s *MemStore) CleanAllInstances(_ *zap.Logger, id []byte) error {
	s.mu.Lock()
	defer s.mu.Unlock()
	delete(s.Highest, string(id))
	delete(s.Hist, string(id))
	return nil
}

var _ qbftstorage.QBFTStore = (*MemStore)(nil)

// InvalidValue is the one value the harness value check rejects.
var InvalidValue = testingutils.TestingInvalidValueCheck

// ValueCheck rejects InvalidValue and empty values (same rule as the spec's testing config).
func ValueCheck(data []byte) error { return testingutils.TestingConfig(KeySet(4)).ValueCheckF(data) }

// NodeConfig builds the node's QBFT config for one operator.
func NodeConfig(net specqbft.Network, timer roundtimer.Timer, store qbftstorage.QBFTStore, verify bool) *qbft.Config {
	return &qbft.Config{
		Signer:                testingutils.NewTestingKeyManager(),
		Domain:                Domain,
		ValueCheckF:           ValueCheck,
		ProposerF:             specqbft.RoundRobinProposer,
		Storage:               store,
		Network:               net,
		Timer:                 timer,
		SignatureVerification: verify,
	}
}

// SpecConfig builds the reference spec's QBFT config for one operator.
func SpecConfig(ks *testingutils.TestKeySet, id spectypes.OperatorID, net specqbft.Network, timer specqbft.Timer) *specqbft.Config {
	return &specqbft.Config{
		Signer:      testingutils.NewTestingKeyManager(),
		SigningPK:   ks.Shares[id].GetPublicKey().Serialize(),
		Domain:      Domain,
		ValueCheckF: ValueCheck,
		ProposerF:   specqbft.RoundRobinProposer,
		Network:     net,
		Timer:       timer,
	}
}

// ---- virtual-clock beacon network ---------------------------------------------------------------

// Clock is a harness-owned virtual clock.
type Clock struct {
	mu sync.Mutex
	t  time.Time
}

func NewClock(t time.Time) *Clock { return &Clock{t: t} }
func (c *Clock) Now() time.Time {
	c.mu.Lock()
	defer c.mu.Unlock()
	return c.t
}
func (c *Clock) Set(t time.Time) {
	c.mu.Lock()
	c.t = t
	c.mu.Unlock()
}

// Beacon is beacon.Network with "current slot/epoch" read from a virtual clock.
type Beacon struct {
	beacon.Network
	Clock *Clock
}

func NewBeacon(c *Clock) *Beacon {
	return &Beacon{Network: beacon.NewNetwork(spectypes.PraterNetwork), Clock: c}
}

func (b *Beacon) EstimatedCurrentSlot() phase0.Slot {
	return b.Network.EstimatedSlotAtTime(b.Clock.Now().Unix())
}
func (b *Beacon) EstimatedCurrentEpoch() phase0.Epoch {
	return b.Network.EstimatedEpochAtSlot(b.EstimatedCurrentSlot())
}

var _ beacon.BeaconNetwork = (*Beacon)(nil)
