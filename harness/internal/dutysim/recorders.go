package dutysim

import (
	"errors"

	"github.com/attestantio/go-eth2-client/api"
	"github.com/attestantio/go-eth2-client/spec"
	"github.com/attestantio/go-eth2-client/spec/altair"
	"github.com/attestantio/go-eth2-client/spec/bellatrix"
	"github.com/attestantio/go-eth2-client/spec/phase0"
	spectypes "github.com/bloxapp/ssv-spec/types"
	"github.com/bloxapp/ssv-spec/types/testingutils"
	ssz "github.com/ferranbt/fastssz"
)

// ---- key manager -------------------------------------------------------------------------------------

// SignRec is one SignBeaconObject / SignRoot call.
type SignRec struct {
	Seq         int
	Op          int
	Beacon      bool // SignBeaconObject (validator-key-share signature over a beacon object); false = SignRoot
	ObjRoot     [32]byte
	SigningRoot [32]byte
	DomainType  phase0.DomainType
	Domain      phase0.Domain
	SigType     spectypes.SignatureType
	PK          []byte
	Err         error
	// Snap is filled by the hook at call time, before the signature is produced.
	Snap map[spectypes.BeaconRole]RunnerSnap
}

// ErrInjected is the error returned by an injected key-manager / beacon-node fault.
var ErrInjected = errors.New("injected failure")

// KeyManager wraps the testing key manager and logs every signing call.
type KeyManager struct {
	spectypes.KeyManager
	Recs []*SignRec
	Hook func(*SignRec)
	// FailBeacon / FailRoot > 0: the next SignBeaconObject / SignRoot call fails (recorded with Err set,
	// nothing is signed) and the counter is decremented.
	FailBeacon, FailRoot int
	op                   *int
}

func (k *KeyManager) SignBeaconObject(obj ssz.HashRoot, domain phase0.Domain, pk []byte, domainType phase0.DomainType) (spectypes.Signature, [32]byte, error) {
	rec := &SignRec{Seq: len(k.Recs), Op: *k.op, Beacon: true, DomainType: domainType, Domain: domain, PK: append([]byte(nil), pk...)}
	rec.ObjRoot, _ = obj.HashTreeRoot()
	k.Recs = append(k.Recs, rec)
	if k.FailBeacon > 0 {
		k.FailBeacon--
		rec.Beacon, rec.Err = false, ErrInjected // not a signature: kept out of BeaconSince
		return nil, [32]byte{}, ErrInjected
	}
	if k.Hook != nil {
		k.Hook(rec)
	}
	sig, root, err := k.KeyManager.SignBeaconObject(obj, domain, pk, domainType)
	rec.SigningRoot, rec.Err = root, err
	return sig, root, err
}

func (k *KeyManager) SignRoot(data spectypes.Root, sigType spectypes.SignatureType, pk []byte) (spectypes.Signature, error) {
	rec := &SignRec{Seq: len(k.Recs), Op: *k.op, SigType: sigType, PK: append([]byte(nil), pk...)}
	rec.ObjRoot, _ = data.GetRoot()
	k.Recs = append(k.Recs, rec)
	if k.FailRoot > 0 {
		k.FailRoot--
		rec.Err = ErrInjected
		return nil, ErrInjected
	}
	sig, err := k.KeyManager.SignRoot(data, sigType, pk)
	rec.Err = err
	return sig, err
}

// BeaconSince returns the SignBeaconObject records with Seq >= from.
func (k *KeyManager) BeaconSince(from int) []*SignRec {
	var out []*SignRec
	for _, r := range k.Recs[from:] {
		if r.Beacon {
			out = append(out, r)
		}
	}
	return out
}

// ---- beacon node -------------------------------------------------------------------------------------

// SubmitRec is one call that hands a reconstructed signature to the beacon node.
type SubmitRec struct {
	Op   int
	Kind string // attestation block blinded-block aggregate sync-message contribution voluntary-exit registration
	// Obj is the unsigned duty object the signature is claimed to be over (nil for registration: the
	// call only carries pubkey + fee recipient, the oracle rebuilds the object) and DomainType its domain.
	Obj          ssz.HashRoot
	DomainType   phase0.DomainType
	Sig          phase0.BLSSignature
	FeeRecipient bellatrix.ExecutionAddress
	PubKey       []byte
	Raw          any
}

// FetchRec is a data fetch that carries a reconstructed pre-consensus signature.
type FetchRec struct {
	Op   int
	Kind string // block blinded-block aggregate-selection sync-contribution
	Slot phase0.Slot
	Sigs [][]byte
}

// BeaconNode wraps ssv-spec's testing beacon node: duty data as the fixture serves it, every Submit* logged.
type BeaconNode struct {
	*testingutils.TestingBeaconNode
	Submits []*SubmitRec
	Fetches []*FetchRec
	// AttestationRoot, when set, replaces the BeaconBlockRoot of served attestation data (distinct duty data per case).
	AttestationRoot *phase0.Root
	// FailDomain > 0: the next DomainData call fails and the counter is decremented.
	FailDomain int
	forks      []uint64
	blinded    bool
	op         *int
}

func (b *BeaconNode) DomainData(epoch phase0.Epoch, domain phase0.DomainType) (phase0.Domain, error) {
	if b.FailDomain > 0 {
		b.FailDomain--
		return phase0.Domain{}, ErrInjected
	}
	// computed like a real node: compute_domain(type, fork_version(epoch), genesis_validators_root)
	return DomainAt(b.forks, epoch, domain), nil
}

// GetSyncMessageBlockRoot serves a head root that depends on the slot (the fixture's is constant).
func (b *BeaconNode) GetSyncMessageBlockRoot(slot phase0.Slot) (phase0.Root, spec.DataVersion, error) {
	return SyncRootFor(slot), spec.DataVersionPhase0, nil
}

func (b *BeaconNode) add(r *SubmitRec) { r.Op = *b.op; b.Submits = append(b.Submits, r) }

func (b *BeaconNode) GetAttestationData(slot phase0.Slot, committeeIndex phase0.CommitteeIndex) (ssz.Marshaler, spec.DataVersion, error) {
	d := *testingutils.TestingAttestationData
	d.Slot = slot
	d.Index = committeeIndex
	if b.AttestationRoot != nil {
		d.BeaconBlockRoot = *b.AttestationRoot
	}
	return &d, spec.DataVersionPhase0, nil
}

func (b *BeaconNode) SubmitAttestation(att *phase0.Attestation) error {
	b.add(&SubmitRec{Kind: "attestation", Obj: att.Data, DomainType: spectypes.DomainAttester, Sig: att.Signature, Raw: att})
	return b.TestingBeaconNode.SubmitAttestation(att)
}

func (b *BeaconNode) SubmitBeaconBlock(block *api.VersionedProposal, sig phase0.BLSSignature) error {
	var obj ssz.HashRoot
	switch block.Version {
	case spec.DataVersionCapella:
		obj = block.Capella
	case spec.DataVersionDeneb:
		if block.Deneb != nil {
			obj = block.Deneb.Block
		}
	}
	b.add(&SubmitRec{Kind: "block", Obj: obj, DomainType: spectypes.DomainProposer, Sig: sig, Raw: block})
	return b.TestingBeaconNode.SubmitBeaconBlock(block, sig)
}

func (b *BeaconNode) SubmitBlindedBeaconBlock(block *api.VersionedBlindedProposal, sig phase0.BLSSignature) error {
	var obj ssz.HashRoot
	switch block.Version {
	case spec.DataVersionCapella:
		obj = block.Capella
	case spec.DataVersionDeneb:
		obj = block.Deneb
	}
	b.add(&SubmitRec{Kind: "blinded-block", Obj: obj, DomainType: spectypes.DomainProposer, Sig: sig, Raw: block})
	return b.TestingBeaconNode.SubmitBlindedBeaconBlock(block, sig)
}

func (b *BeaconNode) SubmitSignedAggregateSelectionProof(msg *phase0.SignedAggregateAndProof) error {
	b.add(&SubmitRec{Kind: "aggregate", Obj: msg.Message, DomainType: spectypes.DomainAggregateAndProof, Sig: msg.Signature, Raw: msg})
	return b.TestingBeaconNode.SubmitSignedAggregateSelectionProof(msg)
}

func (b *BeaconNode) SubmitSyncMessage(msg *altair.SyncCommitteeMessage) error {
	b.add(&SubmitRec{Kind: "sync-message", Obj: spectypes.SSZBytes(msg.BeaconBlockRoot[:]), DomainType: spectypes.DomainSyncCommittee, Sig: msg.Signature, Raw: msg})
	return b.TestingBeaconNode.SubmitSyncMessage(msg)
}

func (b *BeaconNode) SubmitSignedContributionAndProof(c *altair.SignedContributionAndProof) error {
	b.add(&SubmitRec{Kind: "contribution", Obj: c.Message, DomainType: spectypes.DomainContributionAndProof, Sig: c.Signature, Raw: c})
	return b.TestingBeaconNode.SubmitSignedContributionAndProof(c)
}

func (b *BeaconNode) SubmitVoluntaryExit(ve *phase0.SignedVoluntaryExit) error {
	rec := &SubmitRec{Kind: "voluntary-exit", DomainType: spectypes.DomainVoluntaryExit, Sig: ve.Signature, Raw: ve}
	if ve.Message == nil {
		// recorded with Obj == nil; the fixture would dereference the nil message
		b.add(rec)
		return nil
	}
	rec.Obj = ve.Message
	b.add(rec)
	return b.TestingBeaconNode.SubmitVoluntaryExit(ve)
}

func (b *BeaconNode) SubmitValidatorRegistration(pubkey []byte, feeRecipient bellatrix.ExecutionAddress, sig phase0.BLSSignature) error {
	b.add(&SubmitRec{Kind: "registration", DomainType: spectypes.DomainApplicationBuilder, Sig: sig, FeeRecipient: feeRecipient, PubKey: append([]byte(nil), pubkey...)})
	return b.TestingBeaconNode.SubmitValidatorRegistration(pubkey, feeRecipient, sig)
}

func (b *BeaconNode) GetBeaconBlock(slot phase0.Slot, graffiti, randao []byte) (ssz.Marshaler, spec.DataVersion, error) {
	b.Fetches = append(b.Fetches, &FetchRec{Op: *b.op, Kind: "block", Slot: slot, Sigs: [][]byte{append([]byte(nil), randao...)}})
	return BlockFor(slot, false), spec.DataVersionCapella, nil
}

func (b *BeaconNode) GetBlindedBeaconBlock(slot phase0.Slot, graffiti, randao []byte) (ssz.Marshaler, spec.DataVersion, error) {
	b.Fetches = append(b.Fetches, &FetchRec{Op: *b.op, Kind: "blinded-block", Slot: slot, Sigs: [][]byte{append([]byte(nil), randao...)}})
	return BlockFor(slot, true), spec.DataVersionCapella, nil
}

func (b *BeaconNode) SubmitAggregateSelectionProof(slot phase0.Slot, committeeIndex phase0.CommitteeIndex, committeeLength uint64, index phase0.ValidatorIndex, slotSig []byte) (ssz.Marshaler, spec.DataVersion, error) {
	b.Fetches = append(b.Fetches, &FetchRec{Op: *b.op, Kind: "aggregate-selection", Slot: slot, Sigs: [][]byte{append([]byte(nil), slotSig...)}})
	return AggregateFor(slot), spec.DataVersionPhase0, nil
}

func (b *BeaconNode) GetSyncCommitteeContribution(slot phase0.Slot, selectionProofs []phase0.BLSSignature, subnetIDs []uint64) (ssz.Marshaler, spec.DataVersion, error) {
	f := &FetchRec{Op: *b.op, Kind: "sync-contribution", Slot: slot}
	for _, p := range selectionProofs {
		f.Sigs = append(f.Sigs, append([]byte(nil), p[:]...))
	}
	b.Fetches = append(b.Fetches, f)
	c := ContributionsFor(slot)
	return &c, spec.DataVersionBellatrix, nil
}
