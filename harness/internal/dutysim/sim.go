// Package dutysim is the runner-level simulator: one real duty runner per role of /repo
// (attester, proposer full or blinded, aggregator, sync-committee, sync-committee-contribution,
// validator-registration, voluntary-exit), built the way operator/validator.SetupRunners builds
// them (real QBFT controller with signature verification on, round-robin proposer, the role's real
// value check from ssv-spec's ssv package) for operator Self of a committee of 4/7/10/13, wrapped in
// a real validator.Validator so that ProcessMessage's routing is exercised. The other N-1 committee
// members are a message factory holding their keys (factory.go). Recorders: key manager (every
// SignBeaconObject / SignRoot), beacon node (every Submit* and every fetch that carries a
// reconstructed signature), network (fx.Net).
package dutysim

import (
	"context"
	"encoding/json"
	"fmt"

	"github.com/attestantio/go-eth2-client/spec/phase0"
	specqbft "github.com/bloxapp/ssv-spec/qbft"
	specssv "github.com/bloxapp/ssv-spec/ssv"
	spectypes "github.com/bloxapp/ssv-spec/types"
	"github.com/bloxapp/ssv-spec/types/testingutils"
	"go.uber.org/zap"

	"github.com/bloxapp/ssv/protocol/v2/blockchain/beacon"
	ssvmessage "github.com/bloxapp/ssv/protocol/v2/message"
	"github.com/bloxapp/ssv/protocol/v2/qbft/controller"
	"github.com/bloxapp/ssv/protocol/v2/ssv/queue"
	"github.com/bloxapp/ssv/protocol/v2/ssv/runner"
	"github.com/bloxapp/ssv/protocol/v2/ssv/validator"
	ssvtypes "github.com/bloxapp/ssv/protocol/v2/types"

	"verif/harness/internal/fx"
)

// Roles in the order SetupRunners builds them.
var Roles = []spectypes.BeaconRole{
	spectypes.BNRoleAttester,
	spectypes.BNRoleProposer,
	spectypes.BNRoleAggregator,
	spectypes.BNRoleSyncCommittee,
	spectypes.BNRoleSyncCommitteeContribution,
	spectypes.BNRoleValidatorRegistration,
	spectypes.BNRoleVoluntaryExit,
}

// ConsensusRoles are the five roles whose duties go through QBFT.
var ConsensusRoles = Roles[:5]

// Network is the beacon network every runner is configured with (what the testing beacon node reports).
const Network = spectypes.BeaconTestNetwork

// ValidatorIndex is the validator index of the share's beacon metadata.
const ValidatorIndex = phase0.ValidatorIndex(testingutils.TestingValidatorIndex)

type Config struct {
	N              int
	Self           spectypes.OperatorID
	Blinded        bool     // proposer runner produces blinded blocks (options.BuilderProposals)
	Direct         bool     // call the runner's Process* directly instead of Validator.ProcessMessage
	SlashableRoots [][]byte // attestation-data roots the key manager reports as slashable
	// ForkEpochs: the beacon chain's fork version is bumped at each of these epochs, so the signing domain
	// served by the beacon node (and used by the message factory and the oracles) depends on the epoch.
	ForkEpochs []uint64
}

type Sim struct {
	Cfg     Config
	KS      *testingutils.TestKeySet
	Share   *spectypes.Share
	Quorum  int
	Net     *fx.Net
	Timers  map[spectypes.BeaconRole]*fx.Timer
	KM      *KeyManager
	BN      *BeaconNode
	Runners runner.DutyRunners
	Val     *validator.Validator
	Op      int // index of the operation in progress (recorders stamp their records with it)

	innerKM spectypes.KeyManager
	cancel  context.CancelFunc
	logger  *zap.Logger
}

// New builds the validator with its seven runners for operator cfg.Self.
func New(cfg Config) *Sim {
	s := &Sim{Cfg: cfg, KS: fx.KeySet(cfg.N), Net: &fx.Net{}, Timers: map[spectypes.BeaconRole]*fx.Timer{}, logger: zap.NewNop()}
	s.Quorum = int(s.KS.Threshold)
	s.innerKM = testingutils.NewTestingKeyManagerWithSlashableRoots(cfg.SlashableRoots)
	s.KM = &KeyManager{KeyManager: s.innerKM, op: &s.Op}
	s.BN = &BeaconNode{TestingBeaconNode: testingutils.NewTestingBeaconNode(), op: &s.Op, forks: cfg.ForkEpochs, blinded: cfg.Blinded}

	ssvShare := &ssvtypes.SSVShare{
		Share:    *fx.Share(s.KS, cfg.Self),
		Metadata: ssvtypes.Metadata{BeaconMetadata: &beacon.ValidatorMetadata{Index: ValidatorIndex}},
	}
	s.Share = &ssvShare.Share

	buildController := func(role spectypes.BeaconRole, valCheck specqbft.ProposedValueCheckF) *controller.Controller {
		t := &fx.Timer{}
		s.Timers[role] = t
		cfgQ := fx.NodeConfig(s.Net, t, fx.NewMemStore(), true)
		cfgQ.Signer = s.KM
		cfgQ.SigningPK = s.Share.ValidatorPubKey
		cfgQ.ValueCheckF = valCheck
		cfgQ.ProposerF = func(state *specqbft.State, round specqbft.Round) spectypes.OperatorID {
			return specqbft.RoundRobinProposer(state, round)
		}
		id := spectypes.NewMsgID(fx.Domain, s.Share.ValidatorPubKey, role)
		return controller.NewController(id[:], s.Share, cfgQ, false)
	}

	s.Runners = runner.DutyRunners{}
	for _, role := range Roles {
		switch role {
		case spectypes.BNRoleAttester:
			vc := s.valueCheck(role, s.KM)
			s.Runners[role] = runner.NewAttesterRunnner(Network, s.Share, buildController(role, vc), s.BN, s.Net, s.KM, vc, 0)
		case spectypes.BNRoleProposer:
			vc := s.valueCheck(role, s.KM)
			s.Runners[role] = runner.NewProposerRunner(Network, s.Share, buildController(role, vc), s.BN, s.Net, s.KM, vc, 0)
			s.Runners[role].(*runner.ProposerRunner).ProducesBlindedBlocks = cfg.Blinded
		case spectypes.BNRoleAggregator:
			vc := s.valueCheck(role, s.KM)
			s.Runners[role] = runner.NewAggregatorRunner(Network, s.Share, buildController(role, vc), s.BN, s.Net, s.KM, vc, 0)
		case spectypes.BNRoleSyncCommittee:
			vc := s.valueCheck(role, s.KM)
			s.Runners[role] = runner.NewSyncCommitteeRunner(Network, s.Share, buildController(role, vc), s.BN, s.Net, s.KM, vc, 0)
		case spectypes.BNRoleSyncCommitteeContribution:
			vc := s.valueCheck(role, s.KM)
			s.Runners[role] = runner.NewSyncCommitteeAggregatorRunner(Network, s.Share, buildController(role, vc), s.BN, s.Net, s.KM, vc, 0)
		case spectypes.BNRoleValidatorRegistration:
			s.Runners[role] = runner.NewValidatorRegistrationRunner(Network, s.Share, buildController(role, nil), s.BN, s.Net, s.KM)
		case spectypes.BNRoleVoluntaryExit:
			s.Runners[role] = runner.NewVoluntaryExitRunner(Network, s.Share, s.BN, s.Net, s.KM)
		}
	}

	ctx, cancel := context.WithCancel(context.Background())
	s.cancel = cancel
	s.Val = validator.NewValidator(ctx, cancel, validator.Options{
		Network:     s.Net,
		Beacon:      s.BN,
		SSVShare:    ssvShare,
		Signer:      s.KM,
		DutyRunners: s.Runners,
	})
	return s
}

func (s *Sim) Close() { s.cancel() }

// valueCheck builds the role's value check of ssv-spec's ssv package over the given signer.
func (s *Sim) valueCheck(role spectypes.BeaconRole, km spectypes.BeaconSigner) specqbft.ProposedValueCheckF {
	pk := s.KS.ValidatorPK.Serialize()
	sharePK := s.KS.Shares[s.Cfg.Self].GetPublicKey().Serialize()
	switch role {
	case spectypes.BNRoleAttester:
		return specssv.AttesterValueCheckF(km, Network, pk, ValidatorIndex, sharePK)
	case spectypes.BNRoleProposer:
		return specssv.ProposerValueCheckF(km, Network, pk, ValidatorIndex, sharePK)
	case spectypes.BNRoleAggregator:
		return specssv.AggregatorValueCheckF(km, Network, pk, ValidatorIndex)
	case spectypes.BNRoleSyncCommittee:
		return specssv.SyncCommitteeValueCheckF(km, Network, pk, ValidatorIndex)
	case spectypes.BNRoleSyncCommitteeContribution:
		return specssv.SyncCommitteeContributionValueCheckF(km, Network, pk, ValidatorIndex)
	}
	return nil
}

// OracleValueCheck is the harness's own evaluation of the role's value check: a separate closure over
// the unrecorded key manager (same slashable roots), so that evaluating it leaves no trace in the recorders.
func (s *Sim) OracleValueCheck(role spectypes.BeaconRole) specqbft.ProposedValueCheckF {
	return s.valueCheck(role, s.innerKM)
}

// ArmedFaults is the number of injected faults (key manager, beacon node, network) still waiting to fire;
// a harness compares it before and after an operation to learn whether a fault fired in it.
func (s *Sim) ArmedFaults() int {
	return s.KM.FailBeacon + s.KM.FailRoot + s.BN.FailDomain + s.Net.FailNext + s.Net.LoseNext
}

// DisarmFaults clears every pending injected fault.
func (s *Sim) DisarmFaults() {
	s.KM.FailBeacon, s.KM.FailRoot, s.BN.FailDomain, s.Net.FailNext, s.Net.LoseNext = 0, 0, 0, 0, 0
}

// NextOp starts the next operation and returns its index.
func (s *Sim) NextOp() int { s.Op++; return s.Op }

// Runner returns the role's runner.
func (s *Sim) Runner(role spectypes.BeaconRole) runner.Runner { return s.Runners[role] }

// StartDuty starts a duty the way the validator's ExecuteDuty event handler does after Start().
func (s *Sim) StartDuty(duty *spectypes.Duty) error {
	if s.Cfg.Direct {
		r := s.Runners[duty.Type]
		if r == nil {
			return fmt.Errorf("no runner for duty type %s", duty.Type.String())
		}
		return r.StartNewDuty(s.logger, duty)
	}
	return s.Val.StartDuty(s.logger, duty)
}

// Deliver hands a network message to the validator exactly as the queue consumer does: the wire
// bytes are decoded with queue.DecodeSSVMessage and passed to Validator.ProcessMessage.
func (s *Sim) Deliver(m *spectypes.SSVMessage) error {
	c := &spectypes.SSVMessage{MsgType: m.MsgType, MsgID: m.MsgID, Data: append([]byte(nil), m.Data...)}
	dec, err := queue.DecodeSSVMessage(c)
	if err != nil {
		return fmt.Errorf("undecodable: %w", err)
	}
	if !s.Cfg.Direct {
		return s.Val.ProcessMessage(s.logger, dec)
	}
	r := s.Runners.DutyRunnerForMsgID(dec.GetID())
	if r == nil {
		return fmt.Errorf("no runner for msg id")
	}
	switch body := dec.Body.(type) {
	case *specqbft.SignedMessage:
		return r.ProcessConsensus(s.logger, body)
	case *spectypes.SignedPartialSignatureMessage:
		if body.Message.Type == spectypes.PostConsensusPartialSig {
			return r.ProcessPostConsensus(s.logger, body)
		}
		return r.ProcessPreConsensus(s.logger, body)
	case *ssvtypes.EventMsg:
		if body.Type == ssvtypes.Timeout {
			if c := r.GetBaseRunner().QBFTController; c != nil {
				return c.OnTimeout(s.logger, *body)
			}
		}
		return fmt.Errorf("event not handled in direct mode")
	}
	return fmt.Errorf("unknown body")
}

// TimeoutMsg builds the event message the validator's onTimeout pushes into the queue.
func (s *Sim) TimeoutMsg(role spectypes.BeaconRole, h specqbft.Height, r specqbft.Round) *spectypes.SSVMessage {
	td, _ := json.Marshal(ssvtypes.TimeoutData{Height: h, Round: r})
	ev := &ssvtypes.EventMsg{Type: ssvtypes.Timeout, Data: td}
	data, _ := ev.Encode()
	return &spectypes.SSVMessage{MsgType: ssvmessage.SSVEventMsgType, MsgID: s.MsgID(role), Data: data}
}

// ---- state observation -----------------------------------------------------------------------------

// RunnerSnap is what the oracles read off a runner at a given moment.
type RunnerSnap struct {
	HasState     bool
	Finished     bool
	StartingDuty *spectypes.Duty
	HasInstance  bool
	InstHeight   specqbft.Height
	InstRound    specqbft.Round
	InstDecided  bool
	InstValue    []byte
	HasDecided   bool // State.DecidedValue != nil
	CtrlHeight   specqbft.Height
}

func (s *Sim) Snap(role spectypes.BeaconRole) RunnerSnap {
	var sn RunnerSnap
	r := s.Runners[role]
	if r == nil {
		return sn
	}
	b := r.GetBaseRunner()
	if b.QBFTController != nil {
		sn.CtrlHeight = b.QBFTController.Height
	}
	st := b.State
	if st == nil {
		return sn
	}
	sn.HasState, sn.Finished, sn.StartingDuty, sn.HasDecided = true, st.Finished, st.StartingDuty, st.DecidedValue != nil
	if inst := st.RunningInstance; inst != nil {
		sn.HasInstance = true
		sn.InstHeight = inst.GetHeight()
		sn.InstRound = inst.State.Round
		sn.InstDecided, sn.InstValue = inst.IsDecided()
	}
	return sn
}

// SnapAll snapshots every runner (key-manager hook: the recorder cannot know which runner is signing).
func (s *Sim) SnapAll() map[spectypes.BeaconRole]RunnerSnap {
	out := map[spectypes.BeaconRole]RunnerSnap{}
	for _, role := range Roles {
		out[role] = s.Snap(role)
	}
	return out
}
