package dutysim

import (
	"fmt"

	v1 "github.com/attestantio/go-eth2-client/api/v1"
	apiv1capella "github.com/attestantio/go-eth2-client/api/v1/capella"
	"github.com/attestantio/go-eth2-client/spec"
	"github.com/attestantio/go-eth2-client/spec/altair"
	"github.com/attestantio/go-eth2-client/spec/capella"
	"github.com/attestantio/go-eth2-client/spec/phase0"
	specqbft "github.com/bloxapp/ssv-spec/qbft"
	spectypes "github.com/bloxapp/ssv-spec/types"
	"github.com/bloxapp/ssv-spec/types/testingutils"
	ssz "github.com/ferranbt/fastssz"
	"github.com/herumi/bls-eth-go-binary/bls"

	"verif/harness/internal/fx"
)

// The message factory: the other N-1 committee members (and, where a harness wants it, Self) as keys.
// Nothing here touches the runner; everything is computed from the statement-level definitions
// (ssv-spec types + eth2 signing roots), so the oracles can use it as an independent derivation.

// MsgID is the validator's message id for a role.
func (s *Sim) MsgID(role spectypes.BeaconRole) spectypes.MessageID {
	return spectypes.NewMsgID(fx.Domain, s.KS.ValidatorPK.Serialize(), role)
}

// OtherValidatorMsgID is a message id of a validator this operator does not run.
func (s *Sim) OtherValidatorMsgID(role spectypes.BeaconRole) spectypes.MessageID {
	return spectypes.NewMsgID(fx.Domain, testingutils.TestingWrongValidatorPubKey[:], role)
}

// Duty builds the duty the scheduler would hand to the validator for role at slot.
func (s *Sim) Duty(role spectypes.BeaconRole, slot phase0.Slot) *spectypes.Duty {
	d := &spectypes.Duty{Type: role, Slot: slot, ValidatorIndex: ValidatorIndex}
	copy(d.PubKey[:], s.KS.ValidatorPK.Serialize())
	switch role {
	case spectypes.BNRoleAttester, spectypes.BNRoleProposer:
		d.CommitteeIndex, d.CommitteesAtSlot, d.CommitteeLength, d.ValidatorCommitteeIndex = 3, 36, 128, 11
	case spectypes.BNRoleAggregator:
		d.CommitteeIndex, d.CommitteesAtSlot, d.CommitteeLength, d.ValidatorCommitteeIndex = 22, 36, 128, 11
	case spectypes.BNRoleSyncCommittee, spectypes.BNRoleSyncCommitteeContribution:
		d.CommitteeIndex, d.CommitteesAtSlot, d.CommitteeLength, d.ValidatorCommitteeIndex = 3, 36, 128, 11
		d.ValidatorSyncCommitteeIndices = append([]uint64(nil), testingutils.TestingContributionProofIndexes...)
	}
	return d
}

// ForkVersion is the fork version in force at epoch: the genesis version, bumped once per fork epoch reached.
func ForkVersion(forks []uint64, epoch phase0.Epoch) phase0.Version {
	v := spectypes.GenesisForkVersion
	for _, f := range forks {
		if uint64(epoch) >= f {
			v[0]++
		}
	}
	return v
}

// DomainAt is compute_domain(type, fork_version(epoch), genesis_validators_root).
func DomainAt(forks []uint64, epoch phase0.Epoch, dt phase0.DomainType) phase0.Domain {
	d, err := spectypes.ComputeETHDomain(dt, ForkVersion(forks, epoch), spectypes.GenesisValidatorsRoot)
	if err != nil {
		panic(err)
	}
	return d
}

// SigningRootAt is the eth2 signing root of obj under domain type dt for a duty at slot: the domain of that
// slot's epoch, computed by the harness itself (never read from the runner).
func (s *Sim) SigningRootAt(obj ssz.HashRoot, dt phase0.DomainType, slot phase0.Slot) [32]byte {
	r, err := spectypes.ComputeETHSigningRoot(obj, DomainAt(s.Cfg.ForkEpochs, Network.EstimatedEpochAtSlot(slot), dt))
	if err != nil {
		panic(err)
	}
	return r
}

// ---- slot-dependent duty data (served by the beacon node wrapper and used for the "own" value) ----------
// The fixtures of ssv-spec are constant over slots; a runner that re-used the previous duty's data would be
// invisible with them. Every duty object therefore carries its slot.

// BlockFor is the (blinded) capella block proposed at slot.
func BlockFor(slot phase0.Slot, blinded bool) ssz.Marshaler {
	if blinded {
		b := &apiv1capella.BlindedBeaconBlock{}
		if err := b.UnmarshalSSZ(testingutils.TestingBlindedBeaconBlockBytesV(spec.DataVersionCapella)); err != nil {
			panic(err)
		}
		b.Slot = slot
		return b
	}
	b := &capella.BeaconBlock{}
	if err := b.UnmarshalSSZ(testingutils.TestingBeaconBlockBytesV(spec.DataVersionCapella)); err != nil {
		panic(err)
	}
	b.Slot = slot
	return b
}

// AggregateFor is the aggregate-and-proof served for slot.
func AggregateFor(slot phase0.Slot) *phase0.AggregateAndProof {
	ap := *testingutils.TestingAggregateAndProof
	agg := *ap.Aggregate
	data := *agg.Data
	data.Slot = slot
	agg.Data = &data
	ap.Aggregate = &agg
	return &ap
}

// SyncRootFor is the head root served for sync-committee messages at slot.
func SyncRootFor(slot phase0.Slot) phase0.Root {
	r := testingutils.TestingSyncCommitteeBlockRoot
	for i := 0; i < 8; i++ {
		r[24+i] = byte(uint64(slot) >> (8 * i))
	}
	return r
}

// ContributionsFor are the sync-committee contributions served for slot.
func ContributionsFor(slot phase0.Slot) spectypes.Contributions {
	var out spectypes.Contributions
	for _, c := range testingutils.TestingContributionsData {
		cc := *c
		cc.Contribution.Slot = slot
		cc.Contribution.BeaconBlockRoot = SyncRootFor(slot)
		out = append(out, &cc)
	}
	return out
}

// ---- duty data ------------------------------------------------------------------------------------------

// ValueVariants lists the consensus-value variants Value understands. Variants prefixed "bad-" fail
// the role's value check (for some roles only; the oracle evaluates the check itself and never relies on the name).
var ValueVariants = []string{"own", "alt", "alt-slot", "bad-type", "bad-pk", "bad-index", "bad-future", "bad-data", "bad-garbage", "bad-att-slot", "bad-att-src", "bad-att-slashable"}

// SlashableAttestationRoot is the block root used by the "bad-att-slashable" variant; a Sim built
// with SlashableRootsFor(...) reports exactly that attestation as slashable.
var SlashableAttestationRoot = phase0.Root{0xbb, 0xbb, 0xbb}

func (s *Sim) attData(slot phase0.Slot, index phase0.CommitteeIndex) *phase0.AttestationData {
	d := *testingutils.TestingAttestationData
	src, tgt := *d.Source, *d.Target
	d.Source, d.Target = &src, &tgt
	d.Slot, d.Index = slot, index
	if s.BN.AttestationRoot != nil {
		d.BeaconBlockRoot = *s.BN.AttestationRoot
	}
	return &d
}

// SlashableRootsFor returns the hash-tree-roots of the "bad-att-slashable" attestation data for the given slots.
func SlashableRootsFor(slots []phase0.Slot) [][]byte {
	var out [][]byte
	for _, sl := range slots {
		d := *testingutils.TestingAttestationData
		d.Slot, d.Index, d.BeaconBlockRoot = sl, 3, SlashableAttestationRoot
		r, _ := d.HashTreeRoot()
		out = append(out, append([]byte(nil), r[:]...))
	}
	return out
}

func must(b []byte, err error) []byte {
	if err != nil {
		panic(err)
	}
	return b
}

// Value builds an encoded ConsensusData for duty in the given variant. "own" is what a correct operator
// reading the same beacon node proposes (byte-identical to the runner's own input).
func (s *Sim) Value(duty *spectypes.Duty, variant string) []byte {
	role := duty.Type
	d := *duty
	d.ValidatorSyncCommitteeIndices = append([]uint64(nil), duty.ValidatorSyncCommitteeIndices...)
	cd := &spectypes.ConsensusData{Duty: d}
	alt := variant == "alt"
	if variant == "alt-slot" {
		cd.Duty.Slot = duty.Slot + 1
	}
	switch role {
	case spectypes.BNRoleAttester:
		cd.Version = spec.DataVersionPhase0
		ad := s.attData(cd.Duty.Slot, cd.Duty.CommitteeIndex)
		if alt {
			ad.BeaconBlockRoot = phase0.Root{0xaa, 0xaa}
		}
		switch variant {
		case "bad-att-slot":
			ad.Slot = duty.Slot + 7
		case "bad-att-src":
			ad.Source.Epoch = ad.Target.Epoch
		case "bad-att-slashable":
			ad.BeaconBlockRoot = SlashableAttestationRoot
		}
		cd.DataSSZ = must(ad.MarshalSSZ())
	case spectypes.BNRoleProposer:
		cd.Version = spec.DataVersionCapella
		blinded := s.Cfg.Blinded
		if alt {
			blinded = !blinded
		}
		cd.DataSSZ = must(BlockFor(duty.Slot, blinded).MarshalSSZ())
	case spectypes.BNRoleAggregator:
		cd.Version = spec.DataVersionPhase0
		ap := *AggregateFor(duty.Slot)
		if alt {
			ap.AggregatorIndex = 77
		}
		cd.DataSSZ = must(ap.MarshalSSZ())
	case spectypes.BNRoleSyncCommittee:
		cd.Version = spec.DataVersionPhase0
		r := SyncRootFor(duty.Slot)
		if alt {
			r = phase0.Root{0xcc, 0xcc}
		}
		cd.DataSSZ = append([]byte(nil), r[:]...)
	case spectypes.BNRoleSyncCommitteeContribution:
		cd.Version = spec.DataVersionBellatrix
		c := ContributionsFor(duty.Slot)
		if alt {
			c = c[:2]
		}
		cd.DataSSZ = must(c.MarshalSSZ())
	default:
		panic("no consensus data for role " + role.String())
	}
	switch variant {
	case "bad-type":
		cd.Duty.Type = otherConsensusRole(role)
	case "bad-pk":
		cd.Duty.PubKey = testingutils.TestingWrongValidatorPubKey
	case "bad-index":
		cd.Duty.ValidatorIndex = ValidatorIndex + 5
	case "bad-future":
		cd.Duty.Slot = 1 << 40
	case "bad-data":
		if len(cd.DataSSZ) > 9 {
			cd.DataSSZ = cd.DataSSZ[:9]
		}
	case "bad-garbage":
		return []byte("\xff\xfe not an ssz consensus data \x00\x01\x02")
	}
	return must(cd.Encode())
}

func otherConsensusRole(r spectypes.BeaconRole) spectypes.BeaconRole {
	if r == spectypes.BNRoleAttester {
		return spectypes.BNRoleSyncCommittee
	}
	return spectypes.BNRoleAttester
}

// PreType is the partial-signature message type of the role's pre-consensus phase (ok=false: none).
func PreType(role spectypes.BeaconRole) (spectypes.PartialSigMsgType, bool) {
	switch role {
	case spectypes.BNRoleProposer:
		return spectypes.RandaoPartialSig, true
	case spectypes.BNRoleAggregator:
		return spectypes.SelectionProofPartialSig, true
	case spectypes.BNRoleSyncCommitteeContribution:
		return spectypes.ContributionProofs, true
	case spectypes.BNRoleValidatorRegistration:
		return spectypes.ValidatorRegistrationPartialSig, true
	case spectypes.BNRoleVoluntaryExit:
		return spectypes.VoluntaryExitPartialSig, true
	}
	return 0, false
}

// PreObjects are the objects signed when a duty of that role starts, with their domain (statement:
// RANDAO reveal over the duty's epoch, selection proof over its slot, sync selection proofs over slot
// and subcommittee; registration / exit objects for the two non-consensus roles).
func (s *Sim) PreObjects(duty *spectypes.Duty) ([]ssz.HashRoot, phase0.DomainType) {
	switch duty.Type {
	case spectypes.BNRoleProposer:
		return []ssz.HashRoot{spectypes.SSZUint64(Network.EstimatedEpochAtSlot(duty.Slot))}, spectypes.DomainRandao
	case spectypes.BNRoleAggregator:
		return []ssz.HashRoot{spectypes.SSZUint64(duty.Slot)}, spectypes.DomainSelectionProof
	case spectypes.BNRoleSyncCommitteeContribution:
		var out []ssz.HashRoot
		for _, idx := range duty.ValidatorSyncCommitteeIndices {
			out = append(out, &altair.SyncAggregatorSelectionData{Slot: duty.Slot, SubcommitteeIndex: idx})
		}
		return out, spectypes.DomainSyncCommitteeSelectionProof
	case spectypes.BNRoleVoluntaryExit:
		return []ssz.HashRoot{&phase0.VoluntaryExit{Epoch: Network.EstimatedEpochAtSlot(duty.Slot), ValidatorIndex: duty.ValidatorIndex}}, spectypes.DomainVoluntaryExit
	case spectypes.BNRoleValidatorRegistration:
		return []ssz.HashRoot{s.Registration(duty.Slot)}, spectypes.DomainApplicationBuilder
	}
	return nil, phase0.DomainType{}
}

// Registration is the validator-registration object for a duty slot.
func (s *Sim) Registration(slot phase0.Slot) *v1.ValidatorRegistration {
	pk := phase0.BLSPubKey{}
	copy(pk[:], s.KS.ValidatorPK.Serialize())
	return &v1.ValidatorRegistration{
		FeeRecipient: s.Share.FeeRecipientAddress,
		GasLimit:     spectypes.DefaultGasLimit,
		Timestamp:    Network.EpochStartTime(Network.EstimatedEpochAtSlot(slot)),
		Pubkey:       pk,
	}
}

// PostObjects derives, from an encoded decided value, the duty objects a share may sign for role.
func PostObjects(role spectypes.BeaconRole, value []byte) ([]ssz.HashRoot, phase0.DomainType, error) {
	cd := &spectypes.ConsensusData{}
	if err := cd.Decode(value); err != nil {
		return nil, phase0.DomainType{}, err
	}
	switch role {
	case spectypes.BNRoleAttester:
		ad, err := cd.GetAttestationData()
		if err != nil {
			return nil, phase0.DomainType{}, err
		}
		return []ssz.HashRoot{ad}, spectypes.DomainAttester, nil
	case spectypes.BNRoleProposer:
		if _, obj, err := cd.GetBlindedBlockData(); err == nil {
			return []ssz.HashRoot{obj}, spectypes.DomainProposer, nil
		}
		_, obj, err := cd.GetBlockData()
		if err != nil {
			return nil, phase0.DomainType{}, err
		}
		return []ssz.HashRoot{obj}, spectypes.DomainProposer, nil
	case spectypes.BNRoleAggregator:
		ap, err := cd.GetAggregateAndProof()
		if err != nil {
			return nil, phase0.DomainType{}, err
		}
		return []ssz.HashRoot{ap}, spectypes.DomainAggregateAndProof, nil
	case spectypes.BNRoleSyncCommittee:
		r, err := cd.GetSyncCommitteeBlockRoot()
		if err != nil {
			return nil, phase0.DomainType{}, err
		}
		return []ssz.HashRoot{spectypes.SSZBytes(r[:])}, spectypes.DomainSyncCommittee, nil
	case spectypes.BNRoleSyncCommitteeContribution:
		cs, err := cd.GetSyncCommitteeContributions()
		if err != nil {
			return nil, phase0.DomainType{}, err
		}
		var out []ssz.HashRoot
		for _, c := range cs {
			contrib := c.Contribution
			out = append(out, &altair.ContributionAndProof{AggregatorIndex: cd.Duty.ValidatorIndex, Contribution: &contrib, SelectionProof: c.SelectionProofSig})
		}
		return out, spectypes.DomainContributionAndProof, nil
	}
	return nil, phase0.DomainType{}, fmt.Errorf("role has no post-consensus objects")
}

// ---- QBFT messages ------------------------------------------------------------------------------------------

// QBFT builds and signs (with member id's key) a consensus message; value (may be nil) becomes FullData.
func (s *Sim) QBFT(id spectypes.OperatorID, t specqbft.MessageType, identifier []byte, h specqbft.Height, r specqbft.Round, root [32]byte, value []byte) *specqbft.SignedMessage {
	m := &specqbft.Message{MsgType: t, Height: h, Round: r, Identifier: identifier, Root: root}
	sm := fx.Sign(s.KS, id, m)
	sm.FullData = value
	return sm
}

// Root is the QBFT root of a value.
func Root(value []byte) [32]byte {
	r, err := specqbft.HashDataRoot(value)
	if err != nil {
		panic(err)
	}
	return r
}

// Cert builds a decided certificate: the BLS aggregate of the signers' commit messages, full data attached.
func (s *Sim) Cert(signers []spectypes.OperatorID, identifier []byte, h specqbft.Height, r specqbft.Round, value []byte) *specqbft.SignedMessage {
	m := &specqbft.Message{MsgType: specqbft.CommitMsgType, Height: h, Round: r, Identifier: identifier, Root: Root(value)}
	var parts []*specqbft.SignedMessage
	for _, id := range signers {
		parts = append(parts, fx.Sign(s.KS, id, m))
	}
	agg := fx.Aggregate(parts)
	agg.FullData = value
	return agg
}

// ConsensusSSV wraps a QBFT message for the wire under the given message id.
func ConsensusSSV(id spectypes.MessageID, sm *specqbft.SignedMessage) *spectypes.SSVMessage {
	data, err := sm.Encode()
	if err != nil {
		panic(err)
	}
	return &spectypes.SSVMessage{MsgType: spectypes.SSVConsensusMsgType, MsgID: id, Data: data}
}

// ---- partial-signature messages ---------------------------------------------------------------------------

// Partial builds member signer's partial-signature message over objs: each share signature is made with
// key over the eth2 signing root of the object; the envelope is signed with the same key.
func (s *Sim) Partial(signer spectypes.OperatorID, key *bls.SecretKey, typ spectypes.PartialSigMsgType, slot phase0.Slot, objs []ssz.HashRoot, dt phase0.DomainType) *spectypes.SignedPartialSignatureMessage {
	msgs := spectypes.PartialSignatureMessages{Type: typ, Slot: slot}
	for _, o := range objs {
		r := s.SigningRootAt(o, dt, slot)
		msgs.Messages = append(msgs.Messages, &spectypes.PartialSignatureMessage{
			PartialSignature: key.SignByte(r[:]).Serialize(), SigningRoot: r, Signer: signer})
	}
	out := &spectypes.SignedPartialSignatureMessage{Message: msgs, Signer: signer}
	SignEnvelope(out, key)
	return out
}

// SignEnvelope (re)computes the operator signature over the partial-signature messages.
func SignEnvelope(m *spectypes.SignedPartialSignatureMessage, key *bls.SecretKey) {
	r, err := spectypes.ComputeSigningRoot(m.Message, spectypes.ComputeSignatureDomain(fx.Domain, spectypes.PartialSignatureType))
	if err != nil {
		panic(err)
	}
	m.Signature = key.SignByte(r[:]).Serialize()
}

// PartialSSV wraps a partial-signature message for the wire.
func PartialSSV(id spectypes.MessageID, m *spectypes.SignedPartialSignatureMessage) *spectypes.SSVMessage {
	data, err := m.Encode()
	if err != nil {
		panic(err)
	}
	return &spectypes.SSVMessage{MsgType: spectypes.SSVPartialSignatureMsgType, MsgID: id, Data: data}
}

// VerifyValidatorSig checks, with the harness's own BLS call, that sig is the validator's signature
// over obj under domain type dt.
func (s *Sim) VerifyValidatorSig(sig []byte, obj ssz.HashRoot, dt phase0.DomainType, slot phase0.Slot) bool {
	var bs bls.Sign
	// fresh copy: cgo refuses slices that point into Go structs holding other Go pointers
	if err := bs.Deserialize(append([]byte(nil), sig...)); err != nil {
		return false
	}
	r := s.SigningRootAt(obj, dt, slot)
	return bs.VerifyByte(s.KS.ValidatorPK, r[:])
}

// ValidCert is the harness's own certificate predicate (statement-level): commit type, signers distinct
// non-zero committee members, at least a quorum, aggregate signature over the recomputed signing root,
// H(full data) = root, identifier as given.
func (s *Sim) ValidCert(sm *specqbft.SignedMessage, identifier []byte) bool {
	if sm == nil || sm.Message.MsgType != specqbft.CommitMsgType || string(sm.Message.Identifier) != string(identifier) {
		return false
	}
	seen := map[spectypes.OperatorID]bool{}
	var pks []bls.PublicKey
	for _, id := range sm.Signers {
		k := s.KS.Shares[id]
		if id == 0 || seen[id] || k == nil {
			return false
		}
		seen[id] = true
		pks = append(pks, *k.GetPublicKey())
	}
	if len(pks) < s.Quorum {
		return false
	}
	if Root(sm.FullData) != sm.Message.Root {
		return false
	}
	m := sm.Message
	r, err := spectypes.ComputeSigningRoot(&m, spectypes.ComputeSignatureDomain(fx.Domain, spectypes.QBFTSignatureType))
	if err != nil {
		return false
	}
	var sig bls.Sign
	if sig.Deserialize(sm.Signature) != nil {
		return false
	}
	return sig.FastAggregateVerify(pks, r[:])
}

// ---- convenience: well-formed messages of committee members -------------------------------------------------

// Members returns all operator ids 1..N.
func (s *Sim) Members() []spectypes.OperatorID {
	out := make([]spectypes.OperatorID, 0, s.Cfg.N)
	for i := 1; i <= s.Cfg.N; i++ {
		out = append(out, spectypes.OperatorID(i))
	}
	return out
}

// Others returns the committee members other than Self.
func (s *Sim) Others() []spectypes.OperatorID {
	var out []spectypes.OperatorID
	for _, id := range s.Members() {
		if id != s.Cfg.Self {
			out = append(out, id)
		}
	}
	return out
}

// PreMsg is member id's correct pre-consensus message for duty.
func (s *Sim) PreMsg(id spectypes.OperatorID, duty *spectypes.Duty) *spectypes.SignedPartialSignatureMessage {
	typ, ok := PreType(duty.Type)
	if !ok {
		typ = spectypes.RandaoPartialSig // roles without a pre-consensus phase: any pre type must be refused
	}
	objs, dt := s.PreObjects(duty)
	if len(objs) == 0 {
		objs, dt = []ssz.HashRoot{spectypes.SSZUint64(duty.Slot)}, spectypes.DomainRandao
	}
	return s.Partial(id, s.KS.Shares[id], typ, duty.Slot, objs, dt)
}

// PostMsg is member id's correct post-consensus message for the decided value (nil if the value does not decode).
func (s *Sim) PostMsg(id spectypes.OperatorID, role spectypes.BeaconRole, value []byte) *spectypes.SignedPartialSignatureMessage {
	objs, dt, err := PostObjects(role, value)
	if err != nil || len(objs) == 0 {
		return nil
	}
	cd := &spectypes.ConsensusData{}
	_ = cd.Decode(value)
	return s.Partial(id, s.KS.Shares[id], spectypes.PostConsensusPartialSig, cd.Duty.Slot, objs, dt)
}

// QuorumOthers returns the first quorum-many members other than Self.
func (s *Sim) QuorumOthers() []spectypes.OperatorID { return s.Others()[:s.Quorum] }
