package dutysim

import (
	"testing"

	"github.com/attestantio/go-eth2-client/spec/phase0"
	specqbft "github.com/bloxapp/ssv-spec/qbft"
	spectypes "github.com/bloxapp/ssv-spec/types"
)

// TestHappyPath drives every role through its full cycle and checks the recorders saw what the
// statement-level derivations in factory.go predict. It is the self-test of the simulator, not a property.
func TestHappyPath(t *testing.T) {
	for _, n := range []int{4, 7} {
		for _, direct := range []bool{false, true} {
			for _, blinded := range []bool{false, true} {
				for _, role := range Roles {
					if blinded && role != spectypes.BNRoleProposer {
						continue
					}
					s := New(Config{N: n, Self: 2, Blinded: blinded, Direct: direct, ForkEpochs: []uint64{0}})
					slot := phase0.Slot(13)
					duty := s.Duty(role, slot)
					s.NextOp()
					if err := s.StartDuty(duty); err != nil {
						t.Fatalf("%v n=%d start: %v", role, n, err)
					}
					if _, ok := PreType(role); ok {
						for _, id := range s.QuorumOthers() {
							s.NextOp()
							if err := s.Deliver(PartialSSV(s.MsgID(role), s.PreMsg(id, duty))); err != nil {
								t.Fatalf("%v n=%d pre from %d: %v", role, n, id, err)
							}
						}
					}
					consensus := role != spectypes.BNRoleValidatorRegistration && role != spectypes.BNRoleVoluntaryExit
					if consensus {
						sn := s.Snap(role)
						if !sn.HasInstance || sn.InstHeight != specqbft.Height(slot) {
							t.Fatalf("%v n=%d: no running instance after pre-consensus: %+v", role, n, sn)
						}
						own := s.Runner(role).GetBaseRunner().State.RunningInstance.StartValue
						if string(own) != string(s.Value(duty, "own")) {
							t.Fatalf("%v: factory 'own' value differs from the runner's input", role)
						}
						if err := s.OracleValueCheck(role)(own); err != nil {
							t.Fatalf("%v: own value fails the value check: %v", role, err)
						}
						id := s.MsgID(role)
						cert := s.Cert(s.QuorumOthers(), id[:], specqbft.Height(slot), 1, own)
						if !s.ValidCert(cert, id[:]) {
							t.Fatalf("own certificate predicate rejects a valid certificate")
						}
						before := len(s.KM.Recs)
						s.NextOp()
						if err := s.Deliver(ConsensusSSV(id, cert)); err != nil {
							t.Fatalf("%v n=%d cert: %v", role, n, err)
						}
						signed := s.KM.BeaconSince(before)
						objs, dt, err := PostObjects(role, own)
						if err != nil || len(signed) != len(objs) {
							t.Fatalf("%v: %d post-consensus signatures, want %d (%v)", role, len(signed), len(objs), err)
						}
						for i, o := range objs {
							r, _ := o.HashTreeRoot()
							if signed[i].ObjRoot != r || signed[i].DomainType != dt {
								t.Fatalf("%v: signed object %d differs from derivation", role, i)
							}
						}
						for _, m := range s.QuorumOthers() {
							s.NextOp()
							if err := s.Deliver(PartialSSV(id, s.PostMsg(m, role, own))); err != nil {
								t.Fatalf("%v n=%d post from %d: %v", role, n, m, err)
							}
						}
					}
					if len(s.BN.Submits) == 0 {
						t.Fatalf("%v n=%d: nothing submitted", role, n)
					}
					for _, sub := range s.BN.Submits {
						obj := sub.Obj
						if sub.Kind == "registration" {
							obj = s.Registration(slot)
						}
						if !s.VerifyValidatorSig(sub.Sig[:], obj, sub.DomainType, slot) {
							t.Fatalf("%v n=%d: submitted %s signature does not verify", role, n, sub.Kind)
						}
					}
					if s.Runner(role).HasRunningDuty() {
						t.Fatalf("%v: duty not finished", role)
					}
					s.Close()
				}
			}
		}
	}
}
