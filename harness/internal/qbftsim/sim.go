// Package qbftsim is the multi-operator QBFT simulator: correct operators are real
// controller.Controllers of /repo, Byzantine operators are a message factory holding only their own
// BLS keys, and the network is a pool the program delivers from in any order, any number of times.
package qbftsim

import (
	"bytes"
	"encoding/json"
	"fmt"
	"sort"
	"strings"

	specqbft "github.com/bloxapp/ssv-spec/qbft"
	spectypes "github.com/bloxapp/ssv-spec/types"
	"github.com/bloxapp/ssv-spec/types/testingutils"
	"go.uber.org/zap"

	"github.com/bloxapp/ssv/protocol/v2/qbft/controller"
	"github.com/bloxapp/ssv/protocol/v2/qbft/instance"
	ssvtypes "github.com/bloxapp/ssv/protocol/v2/types"

	"verif/harness/internal/fx"
)

// ---- program ------------------------------------------------------------------------------------

// Forge describes one message signed by a Byzantine operator.
type Forge struct {
	By       int    `json:"by"`                  // index into Prog.Byz
	ByLeader bool   `json:"by_leader,omitempty"` // use the Byzantine operator that leads the message's round, if any
	T        string `json:"t"`                   // proposal prepare commit rc
	RoundRel int    `json:"round_rel"`           // round = max round among correct operators + RoundRel (min 1 unless Round0)
	Value    string `json:"value,omitempty"`     // A B C X auto
	Just     string `json:"just,omitempty"`      // proposal: auto none short
	Prepared string `json:"prepared,omitempty"`  // rc: none pool fake
	PRound   int    `json:"pround,omitempty"`
	As       int    `json:"as,omitempty"` // impersonation: claim this correct operator's id (only with signature verification on)
}

type Op struct {
	K     string `json:"k"`               // start startall flush deliver timeout forge aggregate netfail nextheight
	I     int    `json:"i,omitempty"`     // operator id (start, deliver, timeout)
	M     int    `json:"m,omitempty"`     // deliver: pool index modulo pool size
	Types string `json:"types,omitempty"` // flush: subset of "PpCR" (Proposal prepare Commit Round-change), "" = all
	From  uint32 `json:"from,omitempty"`  // flush: sender mask (bit id-1), 0 = everybody
	To    uint32 `json:"to,omitempty"`    // flush / timeout: receiver mask, 0 = every correct operator
	Limit int    `json:"limit,omitempty"` // flush: max deliveries (0 = until quiescent)
	Val   string `json:"val,omitempty"`   // flush: only messages whose root is this value's (A B C X)
	Src   int    `json:"src,omitempty"`   // flush: 0 any origin, 1 only Byzantine-made, 2 only from correct operators
	TKind string `json:"tkind,omitempty"` // timeout: "" (last armed) stale-round other-height duplicate
	Forge *Forge `json:"forge,omitempty"`
	// aggregate: BLS-aggregate commits present in the pool for (Round, Value) from the signers in Mask
	Round int    `json:"round,omitempty"`
	Value string `json:"value,omitempty"`
	Mask  uint32 `json:"mask,omitempty"`
}

type Prog struct {
	N      int            `json:"n"`
	Height uint64         `json:"height"`
	Verify bool           `json:"verify"`
	Byz    []int          `json:"byz"`    // operator ids that are Byzantine (|Byz| <= f)
	Starts map[int]string `json:"starts"` // start value letter per correct operator id
	Ops    []Op           `json:"ops"`
}

var Values = map[string][]byte{
	"A": []byte("value-A-0123456789"),
	"B": []byte("value-B-9876543210"),
	"C": []byte("value-C-5555555555"),
	"X": fx.InvalidValue,
}

func Root(v []byte) [32]byte { r, _ := specqbft.HashDataRoot(v); return r }

func ValueName(v []byte) string {
	for k, x := range Values {
		if bytes.Equal(x, v) {
			return k
		}
	}
	return fmt.Sprintf("%x", v)
}

func RootName(r [32]byte) string {
	for k, x := range Values {
		if Root(x) == r {
			return k
		}
	}
	return fmt.Sprintf("%x", r[:4])
}

// ---- simulator ----------------------------------------------------------------------------------

type Operator struct {
	ID       spectypes.OperatorID
	Ctrl     *controller.Controller
	Net      *fx.Net
	Timer    *fx.Timer
	Store    *fx.MemStore
	Started  bool
	Start    []byte
	Returned []*specqbft.SignedMessage // decided messages returned by ProcessMsg
}

type PoolMsg struct {
	Idx       int
	From      spectypes.OperatorID
	Byz       bool
	Msg       *specqbft.SignedMessage
	Delivered map[spectypes.OperatorID]bool
	Accepted  map[spectypes.OperatorID]bool // delivered and processed without error
}

// Event is what one delivery / timeout did, for the oracles.
type Event struct {
	Kind     string // deliver timeout start
	Op       spectypes.OperatorID
	Pool     int
	Err      error
	Returned *specqbft.SignedMessage
	Before   Snapshot
	After    Snapshot
	Emitted  []*PoolMsg
	TimeoutH specqbft.Height
	TimeoutR specqbft.Round
	NoInst   bool
	// TargetChanged: the timeout addressed a stored instance of another height and that instance's state root differs
	// afterwards (only when Sim.WantRoots)
	TargetChanged bool
	// TargetUndecided: the timeout addressed a stored, undecided instance of another height
	TargetUndecided bool
}

type Snapshot struct {
	HasInst   bool
	Round     specqbft.Round
	Decided   bool
	Value     []byte
	Proposal  bool
	Root      [32]byte
	Arms      int
	Prepared  specqbft.Round
	StateRoot [32]byte        // State.GetRoot(), only when Sim.WantRoots
	Height    specqbft.Height // controller height
}

type Sim struct {
	P       Prog
	KS      *testingutils.TestKeySet
	ID      []byte
	Height  specqbft.Height
	Quorum  int
	Ops     map[spectypes.OperatorID]*Operator
	Correct []spectypes.OperatorID
	IsByz   map[spectypes.OperatorID]bool
	Pool    []*PoolMsg
	Log     []string
	Events  []Event
	// counters for class histograms
	WantRoots       bool
	ForwardAccepted bool
	ByzAccepted     int
	MaxRound        specqbft.Round
	LearntDecided   int
}

var logger = zap.NewNop()

func New(p Prog) *Sim {
	s := &Sim{P: p, KS: fx.KeySet(p.N), Height: specqbft.Height(p.Height), Ops: map[spectypes.OperatorID]*Operator{}, IsByz: map[spectypes.OperatorID]bool{}, MaxRound: 1}
	mid := fx.Identifier(s.KS, spectypes.BNRoleAttester)
	s.ID = mid[:]
	s.Quorum = int(s.KS.Threshold)
	for _, b := range p.Byz {
		s.IsByz[spectypes.OperatorID(b)] = true
	}
	for id := spectypes.OperatorID(1); int(id) <= p.N; id++ {
		if s.IsByz[id] {
			continue
		}
		o := &Operator{ID: id, Net: &fx.Net{}, Timer: &fx.Timer{}, Store: fx.NewMemStore()}
		letter := p.Starts[int(id)]
		if letter == "" {
			letter = "A"
		}
		o.Start = Values[letter]
		o.Ctrl = controller.NewController(s.ID, fx.Share(s.KS, id), fx.NodeConfig(o.Net, o.Timer, o.Store, p.Verify), false)
		s.Ops[id] = o
		s.Correct = append(s.Correct, id)
	}
	return s
}

func (s *Sim) Logf(f string, a ...any) { s.Log = append(s.Log, fmt.Sprintf(f, a...)) }

func (s *Sim) Dump() string {
	l := s.Log
	if len(l) > 120 {
		l = append([]string{fmt.Sprintf("... (%d lines omitted)", len(l)-120)}, l[len(l)-120:]...)
	}
	return "  " + strings.Join(l, "\n  ")
}

func (s *Sim) Inst(id spectypes.OperatorID) *instance.Instance {
	return s.Ops[id].Ctrl.StoredInstances.FindInstance(s.Height)
}

func (s *Sim) Snap(id spectypes.OperatorID) Snapshot {
	o := s.Ops[id]
	sn := Snapshot{Arms: len(o.Timer.Arms), Height: o.Ctrl.Height}
	if inst := s.Inst(id); inst != nil {
		st := inst.State
		if s.WantRoots {
			sn.StateRoot, _ = st.GetRoot()
		}
		sn.HasInst, sn.Round, sn.Decided, sn.Value, sn.Prepared = true, st.Round, st.Decided, st.DecidedValue, st.LastPreparedRound
		if st.ProposalAcceptedForCurrentRound != nil {
			sn.Proposal, sn.Root = true, st.ProposalAcceptedForCurrentRound.Message.Root
		}
	}
	return sn
}

func clone(m *specqbft.SignedMessage) *specqbft.SignedMessage {
	b, err := m.Encode()
	if err == nil {
		c := &specqbft.SignedMessage{}
		if c.Decode(b) == nil {
			return c
		}
	}
	return m.DeepCopy()
}

// collect moves an operator's fresh broadcasts into the pool.
func (s *Sim) collect(o *Operator) []*PoolMsg {
	var out []*PoolMsg
	for _, sm := range o.Net.Drain() {
		q := &specqbft.SignedMessage{}
		if err := q.Decode(sm.Data); err != nil {
			panic(fmt.Sprintf("operator %d broadcast an undecodable message: %v", o.ID, err))
		}
		out = append(out, s.add(o.ID, false, q))
	}
	return out
}

func (s *Sim) add(from spectypes.OperatorID, byz bool, m *specqbft.SignedMessage) *PoolMsg {
	pm := &PoolMsg{Idx: len(s.Pool), From: from, Byz: byz, Msg: m, Delivered: map[spectypes.OperatorID]bool{}, Accepted: map[spectypes.OperatorID]bool{}}
	s.Pool = append(s.Pool, pm)
	return pm
}

func Describe(m *specqbft.SignedMessage) string {
	t := map[specqbft.MessageType]string{0: "proposal", 1: "prepare", 2: "commit", 3: "round-change"}[m.Message.MsgType]
	if t == "" {
		t = fmt.Sprintf("type%d", m.Message.MsgType)
	}
	extra := ""
	if m.Message.MsgType == specqbft.RoundChangeMsgType && m.Message.DataRound != 0 {
		extra = fmt.Sprintf(" prepared(r%d,%s)", m.Message.DataRound, RootName(m.Message.Root))
	}
	if len(m.Signers) > 1 {
		t = "decided"
	}
	return fmt.Sprintf("%s h%d r%d %s by %v%s", t, m.Message.Height, m.Message.Round, RootName(m.Message.Root), m.Signers, extra)
}

func (s *Sim) StartOp(id spectypes.OperatorID) *Event {
	o := s.Ops[id]
	if o == nil || o.Started {
		return nil
	}
	ev := Event{Kind: "start", Op: id, Before: s.Snap(id)}
	ev.Err = o.Ctrl.StartNewInstance(logger, s.Height, o.Start)
	o.Started = ev.Err == nil
	ev.Emitted = s.collect(o)
	ev.After = s.Snap(id)
	s.Logf("start op%d value=%s err=%v emitted=%d", id, ValueName(o.Start), ev.Err, len(ev.Emitted))
	s.Events = append(s.Events, ev)
	return &s.Events[len(s.Events)-1]
}

// Deliver hands pool message pm to correct operator id.
func (s *Sim) Deliver(pm *PoolMsg, id spectypes.OperatorID) *Event {
	o := s.Ops[id]
	if o == nil {
		return nil
	}
	ev := Event{Kind: "deliver", Op: id, Pool: pm.Idx, Before: s.Snap(id)}
	ev.Returned, ev.Err = o.Ctrl.ProcessMsg(logger, clone(pm.Msg))
	pm.Delivered[id] = true
	if ev.Err == nil {
		pm.Accepted[id] = true
	}
	if ev.Returned != nil {
		o.Returned = append(o.Returned, ev.Returned)
	}
	ev.Emitted = s.collect(o)
	ev.After = s.Snap(id)
	if pm.Byz && ev.Err == nil {
		s.ByzAccepted++
	}
	if ev.After.Round > s.MaxRound {
		s.MaxRound = ev.After.Round
	}
	if ev.Returned != nil && len(pm.Msg.Signers) > 1 {
		s.LearntDecided++
	}
	errs := ""
	if ev.Err != nil {
		errs = " err=" + ev.Err.Error()
	}
	ret := ""
	if ev.Returned != nil {
		ret = fmt.Sprintf(" RETURNED-DECIDED(%s signers=%v)", ValueName(ev.Returned.FullData), ev.Returned.Signers)
	}
	s.Logf("deliver #%d [%s]%s -> op%d%s%s round=%d decided=%v emitted=%d", pm.Idx, Describe(pm.Msg), map[bool]string{true: " BYZ"}[pm.Byz], id, errs, ret, ev.After.Round, ev.After.Decided, len(ev.Emitted))
	s.Events = append(s.Events, ev)
	return &s.Events[len(s.Events)-1]
}

// Timeout fires a timeout event at operator id. kind: "" = the last armed (height, round).
func (s *Sim) Timeout(id spectypes.OperatorID, kind string) *Event {
	o := s.Ops[id]
	if o == nil {
		return nil
	}
	arm, ok := o.Timer.Last()
	if !ok {
		arm = fx.Arm{Height: s.Height, Round: 1}
	}
	h, r := arm.Height, arm.Round
	switch kind {
	case "stale-round":
		if r <= 1 {
			return nil
		}
		r--
	case "other-height":
		h += 3
	case "lower-height":
		if h == 0 {
			return nil
		}
		h--
	case "prev-height", "prev-height-next":
		// an event queued for the previous height's instance (still stored, stopped by the start of this height) that is
		// handled only now: for that instance's own current round, or the one after
		if s.Height == 0 {
			return nil
		}
		h = s.Height - 1
		old := o.Ctrl.StoredInstances.FindInstance(h)
		if old == nil {
			return nil
		}
		r = old.State.Round
		if kind == "prev-height-next" {
			r++
		}
	}
	data, _ := json.Marshal(ssvtypes.TimeoutData{Height: h, Round: r})
	ev := Event{Kind: "timeout", Op: id, Before: s.Snap(id), TimeoutH: h, TimeoutR: r}
	target := o.Ctrl.StoredInstances.FindInstance(h)
	ev.NoInst = target == nil
	ev.TargetUndecided = target != nil && h != s.Height && !target.State.Decided
	var targetRoot [32]byte
	if s.WantRoots && target != nil && h != s.Height {
		targetRoot, _ = target.State.GetRoot()
	}
	ev.Err = o.Ctrl.OnTimeout(logger, ssvtypes.EventMsg{Type: ssvtypes.Timeout, Data: data})
	if s.WantRoots && target != nil && h != s.Height {
		after, _ := target.State.GetRoot()
		ev.TargetChanged = after != targetRoot
	}
	ev.Emitted = s.collect(o)
	ev.After = s.Snap(id)
	if ev.After.Round > s.MaxRound {
		s.MaxRound = ev.After.Round
	}
	s.Logf("timeout(%s h%d r%d) -> op%d err=%v round %d->%d emitted=%d", kind, h, r, id, ev.Err, ev.Before.Round, ev.After.Round, len(ev.Emitted))
	s.Events = append(s.Events, ev)
	return &s.Events[len(s.Events)-1]
}

func typeLetter(t specqbft.MessageType) byte {
	switch t {
	case specqbft.ProposalMsgType:
		return 'P'
	case specqbft.PrepareMsgType:
		return 'p'
	case specqbft.CommitMsgType:
		return 'C'
	case specqbft.RoundChangeMsgType:
		return 'R'
	}
	return '?'
}

func (s *Sim) maskHas(mask uint32, id spectypes.OperatorID) bool {
	return mask == 0 || mask&(1<<(uint(id)-1)) != 0
}

// Flush delivers undelivered pool messages (filtered) until quiescent or limit. Returns number of deliveries.
// onEvent is called after every delivery; returning false stops.
func (s *Sim) Flush(types string, from, to uint32, limit int, byzToo bool, onEvent func(*Event) bool) int {
	return s.FlushF(Op{Types: types, From: from, To: to, Limit: limit}, byzToo, onEvent)
}

// FlushF is Flush with the value / origin filters of op.
func (s *Sim) FlushF(op Op, byzToo bool, onEvent func(*Event) bool) int {
	types, from, to, limit := op.Types, op.From, op.To, op.Limit
	n := 0
	var wantRoot *[32]byte
	if v, ok := Values[op.Val]; ok {
		r := Root(v)
		wantRoot = &r
	}
	for i := 0; i < len(s.Pool); i++ { // the pool grows while we iterate
		pm := s.Pool[i]
		if pm.Byz && !byzToo {
			continue
		}
		if (op.Src == 1 && !pm.Byz) || (op.Src == 2 && pm.Byz) {
			continue
		}
		if wantRoot != nil && pm.Msg.Message.Root != *wantRoot {
			continue
		}
		if types != "" && strings.IndexByte(types, typeLetter(pm.Msg.Message.MsgType)) < 0 {
			continue
		}
		if !s.maskHas(from, pm.From) {
			continue
		}
		for _, id := range s.Correct {
			if !s.maskHas(to, id) || pm.Delivered[id] {
				continue
			}
			ev := s.Deliver(pm, id)
			n++
			if onEvent != nil && !onEvent(ev) {
				return n
			}
			if limit > 0 && n >= limit {
				return n
			}
		}
	}
	return n
}

func (s *Sim) maxCorrectRound() specqbft.Round {
	r := specqbft.Round(1)
	for _, id := range s.Correct {
		if inst := s.Inst(id); inst != nil && inst.State.Round > r {
			r = inst.State.Round
		}
	}
	return r
}

// ---- Byzantine message factory --------------------------------------------------------------------

func (s *Sim) leader(round specqbft.Round) spectypes.OperatorID {
	n := uint64(s.P.N)
	idx := (uint64(s.Height)%n + uint64(round)%n + n - 1) % n
	return spectypes.OperatorID(idx + 1)
}

func (s *Sim) byzIDs() []spectypes.OperatorID {
	var out []spectypes.OperatorID
	for _, b := range s.P.Byz {
		out = append(out, spectypes.OperatorID(b))
	}
	return out
}

// poolMsgs returns one message per signer of the given type/round matching pred, from the pool (any sender).
func (s *Sim) poolMsgs(t specqbft.MessageType, round specqbft.Round, pred func(*specqbft.SignedMessage) bool) []*specqbft.SignedMessage {
	return s.poolMsgsH(t, round, false, pred)
}

// poolMsgsH: anyHeight = also messages of other heights (replay material), other heights first.
func (s *Sim) poolMsgsH(t specqbft.MessageType, round specqbft.Round, anyHeight bool, pred func(*specqbft.SignedMessage) bool) []*specqbft.SignedMessage {
	seen := map[spectypes.OperatorID]bool{}
	var out []*specqbft.SignedMessage
	pool := s.Pool
	if anyHeight {
		pool = nil
		for _, pm := range s.Pool {
			if pm.Msg.Message.Height != s.Height {
				pool = append(pool, pm)
			}
		}
		for _, pm := range s.Pool {
			if pm.Msg.Message.Height == s.Height {
				pool = append(pool, pm)
			}
		}
	}
	for _, pm := range pool {
		m := pm.Msg
		if m.Message.MsgType != t || m.Message.Round != round || (!anyHeight && m.Message.Height != s.Height) || len(m.Signers) != 1 || seen[m.Signers[0]] {
			continue
		}
		if pred != nil && !pred(m) {
			continue
		}
		seen[m.Signers[0]] = true
		out = append(out, m)
	}
	return out
}

// BuildForge constructs (and signs with the Byzantine operator's own key) the message f describes.
// Justifications use what is in the pool plus messages of the Byzantine operators themselves.
func (s *Sim) BuildForge(f *Forge) *specqbft.SignedMessage {
	if len(s.P.Byz) == 0 {
		return nil
	}
	by := spectypes.OperatorID(s.P.Byz[f.By%len(s.P.Byz)])
	rr := int64(s.maxCorrectRound()) + int64(f.RoundRel)
	if rr < 1 {
		rr = 1
	}
	round := specqbft.Round(rr)
	if f.ByLeader && s.IsByz[s.leader(round)] {
		by = s.leader(round)
	}
	msg := &specqbft.Message{Height: s.Height, Round: round, Identifier: s.ID}
	val := func(def []byte) []byte {
		if v, ok := Values[f.Value]; ok {
			return v
		}
		if f.Value == "last" { // the value of the most recent proposal for this round seen on the network
			for i := len(s.Pool) - 1; i >= 0; i-- {
				m := s.Pool[i].Msg
				if m.Message.MsgType == specqbft.ProposalMsgType && m.Message.Round == round && m.Message.Height == s.Height && len(m.FullData) > 0 {
					return m.FullData
				}
			}
		}
		return def
	}
	byzSign := func(id spectypes.OperatorID, m *specqbft.Message) *specqbft.SignedMessage {
		return fx.Sign(s.KS, id, m)
	}
	var fullData []byte
	switch f.T {
	case "proposal":
		msg.MsgType = specqbft.ProposalMsgType
		def := Values["A"]
		var rcj, pj []*specqbft.SignedMessage
		if round > 1 && f.Just != "none" {
			if f.Just == "replay" {
				// unprepared round-changes first, from whatever height: fakes a "nobody is prepared" quorum
				rcj = s.poolMsgsH(specqbft.RoundChangeMsgType, round, true, func(m *specqbft.SignedMessage) bool { return !m.Message.RoundChangePrepared() })
				if len(rcj) > s.Quorum {
					rcj = rcj[:s.Quorum]
				}
			} else {
				rcj = s.poolMsgs(specqbft.RoundChangeMsgType, round, nil)
			}
			if f.Just == "confuse" {
				// type confusion: only unprepared round-changes, padded with correct operators' messages of OTHER types
				// (prepare / commit / proposal) for this round standing in for round-changes
				var keep []*specqbft.SignedMessage
				for _, m := range rcj {
					if !m.Message.RoundChangePrepared() {
						keep = append(keep, m)
					}
				}
				rcj = keep
			}
			have := map[spectypes.OperatorID]bool{}
			for _, m := range rcj {
				have[m.Signers[0]] = true
			}
			if f.Just == "confuse" {
				for _, t := range []specqbft.MessageType{specqbft.PrepareMsgType, specqbft.CommitMsgType} {
					for _, m := range s.poolMsgs(t, round, nil) {
						if !have[m.Signers[0]] && !s.IsByz[m.Signers[0]] && len(rcj) < s.Quorum {
							have[m.Signers[0]] = true
							rcj = append(rcj, m)
						}
					}
				}
			}
			for _, b := range s.byzIDs() { // Byzantine operators add their own (unprepared) round changes
				if !have[b] {
					rcj = append(rcj, byzSign(b, &specqbft.Message{MsgType: specqbft.RoundChangeMsgType, Height: s.Height, Round: round, Identifier: s.ID}))
				}
			}
			if f.Just == "short" && len(rcj) >= s.Quorum {
				rcj = rcj[:s.Quorum-1]
			}
			var hp *specqbft.SignedMessage
			for _, m := range rcj {
				if m.Message.RoundChangePrepared() && (hp == nil || m.Message.DataRound > hp.Message.DataRound) {
					hp = m
				}
			}
			if f.Just == "lowest" || f.Just == "lowest-first" {
				// an outdated lock passed off as the highest prepared one: justify with the round-change of the LOWEST
				// prepared round (placed last / first among the round-changes) and its prepares
				hp = nil
				hi := -1
				for i, m := range rcj {
					if m.Message.RoundChangePrepared() && (hp == nil || m.Message.DataRound < hp.Message.DataRound) {
						hp, hi = m, i
					}
				}
				if hp != nil {
					rest := append(append([]*specqbft.SignedMessage{}, rcj[:hi]...), rcj[hi+1:]...)
					if f.Just == "lowest" {
						rcj = append(rest, hp)
					} else {
						rcj = append([]*specqbft.SignedMessage{hp}, rest...)
					}
				}
			}
			if hp != nil {
				pj = s.poolMsgsH(specqbft.PrepareMsgType, hp.Message.DataRound, f.Just == "replay", func(m *specqbft.SignedMessage) bool { return m.Message.Root == hp.Message.Root })
				for k, v := range Values {
					if Root(v) == hp.Message.Root && f.Value == "auto" {
						def = Values[k]
					}
				}
			}
		}
		fullData = val(def)
		msg.Root = Root(fullData)
		strip := func(ms []*specqbft.SignedMessage) []*specqbft.SignedMessage {
			out := make([]*specqbft.SignedMessage, len(ms))
			for i, m := range ms {
				out[i] = m.WithoutFUllData()
			}
			return out
		}
		msg.RoundChangeJustification, _ = specqbft.MarshalJustifications(strip(rcj))
		msg.PrepareJustification, _ = specqbft.MarshalJustifications(strip(pj))
	case "prepare":
		msg.MsgType = specqbft.PrepareMsgType
		msg.Root = Root(val(Values["A"]))
	case "commit":
		msg.MsgType = specqbft.CommitMsgType
		msg.Root = Root(val(Values["A"]))
	case "rc":
		msg.MsgType = specqbft.RoundChangeMsgType
		switch f.Prepared {
		case "pool": // claim the highest round < this one for which the pool holds a prepare quorum
			for pr := round - 1; pr >= 1; pr-- {
				found := false
				for _, k := range []string{"A", "B", "C"} {
					r := Root(Values[k])
					ps := s.poolMsgs(specqbft.PrepareMsgType, pr, func(m *specqbft.SignedMessage) bool { return m.Message.Root == r })
					if len(ps) >= s.Quorum {
						msg.DataRound, msg.Root, fullData = pr, r, Values[k]
						msg.RoundChangeJustification, _ = specqbft.MarshalJustifications(ps)
						found = true
						break
					}
				}
				if found {
					break
				}
			}
		case "replay": // claims a prepared value backed by prepares of ANOTHER height (same round number and value)
			for pr := round - 1; pr >= 1; pr-- {
				found := false
				for _, k := range []string{"A", "B", "C"} {
					r := Root(Values[k])
					ps := s.poolMsgsH(specqbft.PrepareMsgType, pr, true, func(m *specqbft.SignedMessage) bool { return m.Message.Root == r })
					if len(ps) >= s.Quorum {
						msg.DataRound, msg.Root, fullData = pr, r, Values[k]
						msg.RoundChangeJustification, _ = specqbft.MarshalJustifications(ps[:s.Quorum])
						found = true
						break
					}
				}
				if found {
					break
				}
			}
		case "fake": // claims a prepared value with whatever prepares exist plus Byzantine ones (usually below quorum)
			pr := specqbft.Round(f.PRound)
			if pr < 1 {
				pr = 1
			}
			fullData = val(Values["B"])
			r := Root(fullData)
			ps := s.poolMsgs(specqbft.PrepareMsgType, pr, func(m *specqbft.SignedMessage) bool { return m.Message.Root == r })
			have := map[spectypes.OperatorID]bool{}
			for _, m := range ps {
				have[m.Signers[0]] = true
			}
			for _, b := range s.byzIDs() {
				if !have[b] {
					ps = append(ps, byzSign(b, &specqbft.Message{MsgType: specqbft.PrepareMsgType, Height: s.Height, Round: pr, Identifier: s.ID, Root: r}))
				}
			}
			msg.DataRound, msg.Root = pr, r
			msg.RoundChangeJustification, _ = specqbft.MarshalJustifications(ps)
		}
	case "decided":
		if !s.P.Verify {
			return nil // with signature verification switched off in the operators a fabricated certificate proves nothing
		}
		// a fabricated certificate for val at the current height: commit type, a quorum-sized signer list, but really
		// signed by the Byzantine operators only. f.Just selects how the list is padded.
		msg.MsgType = specqbft.CommitMsgType
		fullData = val(Values["B"])
		msg.Root = Root(fullData)
		byz := s.byzIDs()
		var signers []spectypes.OperatorID
		switch f.Just {
		case "foreign-first": // non-members first, a real (Byzantine) member last
			for i := 0; len(signers) < s.Quorum-1; i++ {
				signers = append(signers, spectypes.OperatorID(s.P.N+1+i))
			}
			signers = append(signers, by)
		case "dup": // the same member over and over
			for len(signers) < s.Quorum {
				signers = append(signers, by)
			}
		case "sigreplay": // the signers and aggregate signature of a genuine certificate for ANOTHER height / value
			for i := len(s.Pool) - 1; i >= 0; i-- {
				m := s.Pool[i].Msg
				if m.Message.MsgType == specqbft.CommitMsgType && len(m.Signers) >= s.Quorum && (m.Message.Height != s.Height || m.Message.Root != msg.Root) {
					sm := &specqbft.SignedMessage{Signature: append([]byte{}, m.Signature...), Signers: append([]spectypes.OperatorID{}, m.Signers...), Message: *msg, FullData: fullData}
					return sm
				}
			}
			return nil
		default: // "claimed": correct members listed next to the Byzantine ones
			have := map[spectypes.OperatorID]bool{}
			for _, b := range byz {
				signers, have[b] = append(signers, b), true
			}
			for id := spectypes.OperatorID(1); len(signers) < s.Quorum && int(id) <= s.P.N; id++ {
				if !have[id] {
					signers = append(signers, id)
				}
			}
			sort.Slice(signers, func(i, j int) bool { return signers[i] < signers[j] })
		}
		var parts []*specqbft.SignedMessage
		for _, b := range byz {
			parts = append(parts, fx.Sign(s.KS, b, msg))
		}
		sm := fx.Aggregate(parts)
		sm.Signers = signers
		sm.FullData = fullData
		return sm
	default:
		return nil
	}
	if f.T == "commit" && f.Just == "sigreplay" {
		if !s.P.Verify {
			return nil
		}
		// a commit for val in the name of a CORRECT operator, carrying the signature bytes of a commit that operator really
		// sent for another height / round / value (receivers have verified those bytes before)
		for i := len(s.Pool) - 1; i >= 0; i-- {
			m := s.Pool[i].Msg
			if m.Message.MsgType == specqbft.CommitMsgType && len(m.Signers) == 1 && !s.IsByz[m.Signers[0]] &&
				(m.Message.Height != msg.Height || m.Message.Round != msg.Round || m.Message.Root != msg.Root) {
				sel := i
				if f.PRound > 0 { // another operator's, for variety
					for j := i - 1; j >= 0 && j > i-40; j-- {
						mj := s.Pool[j].Msg
						if mj.Message.MsgType == specqbft.CommitMsgType && len(mj.Signers) == 1 && !s.IsByz[mj.Signers[0]] && int(mj.Signers[0])%3 == f.PRound%3 {
							sel = j
							break
						}
					}
				}
				o := s.Pool[sel].Msg
				return &specqbft.SignedMessage{Signature: append([]byte{}, o.Signature...), Signers: append([]spectypes.OperatorID{}, o.Signers...), Message: *msg}
			}
		}
		return nil
	}
	claimed := by
	if f.As != 0 && s.P.Verify && !s.IsByz[spectypes.OperatorID(f.As)] && f.As <= s.P.N {
		claimed = spectypes.OperatorID(f.As) // impersonation: own signature, somebody else's id
	}
	sm := fx.SignWith(s.KS.Shares[by], claimed, msg)
	sm.FullData = fullData
	return sm
}

// Aggregate builds a decided message from single-signer commits present in the pool.
func (s *Sim) AggregateCommits(round specqbft.Round, value []byte, mask uint32) *specqbft.SignedMessage {
	r := Root(value)
	cs := s.poolMsgs(specqbft.CommitMsgType, round, func(m *specqbft.SignedMessage) bool { return m.Message.Root == r && s.maskHas(mask, m.Signers[0]) })
	if len(cs) < 2 { // sub-quorum aggregates are generated on purpose: they must be refused
		return nil
	}
	sort.Slice(cs, func(i, j int) bool { return cs[i].Signers[0] < cs[j].Signers[0] })
	agg := fx.Aggregate(cs)
	agg.FullData = value
	return agg
}

// Step interprets one op. onEvent (may be nil) sees every delivery/timeout/start event.
func (s *Sim) Step(op Op, onEvent func(*Event) bool) {
	call := func(e *Event) bool {
		if e == nil || onEvent == nil {
			return true
		}
		return onEvent(e)
	}
	switch op.K {
	case "start":
		call(s.StartOp(spectypes.OperatorID(op.I)))
	case "startall":
		for _, id := range s.Correct {
			if s.maskHas(op.To, id) {
				if !call(s.StartOp(id)) {
					return
				}
			}
		}
	case "flush":
		s.FlushF(op, true, onEvent)
	case "deliver":
		if len(s.Pool) == 0 || s.Ops[spectypes.OperatorID(op.I)] == nil {
			return
		}
		call(s.Deliver(s.Pool[op.M%len(s.Pool)], spectypes.OperatorID(op.I)))
	case "timeout":
		for _, id := range s.Correct {
			if s.maskHas(op.To, id) && s.Ops[id].Started {
				if !call(s.Timeout(id, op.TKind)) {
					return
				}
			}
		}
	case "netfail": // the next broadcast of operator I is published but reports an error (Limit=1: it is lost instead)
		if o := s.Ops[spectypes.OperatorID(op.I)]; o != nil {
			if op.Limit == 1 {
				o.Net.LoseNext++
			} else {
				o.Net.FailNext++
			}
			s.Logf("netfail op%d (lose=%v)", op.I, op.Limit == 1)
		}
	case "nextheight": // every started correct operator (in the mask) starts the next height
		s.Height++
		s.Logf("---- next height %d ----", s.Height)
		for _, id := range s.Correct {
			o := s.Ops[id]
			if !s.maskHas(op.To, id) || !o.Started {
				continue
			}
			ev := Event{Kind: "start", Op: id, Before: s.Snap(id)}
			ev.Err = o.Ctrl.StartNewInstance(logger, s.Height, o.Start)
			ev.Emitted = s.collect(o)
			ev.After = s.Snap(id)
			s.Logf("start op%d height %d err=%v emitted=%d", id, s.Height, ev.Err, len(ev.Emitted))
			s.Events = append(s.Events, ev)
			if !call(&s.Events[len(s.Events)-1]) {
				return
			}
		}
	case "forge":
		if m := s.BuildForge(op.Forge); m != nil {
			pm := s.add(m.Signers[0], true, m)
			s.Logf("forge #%d [%s] (signed by op%d)", pm.Idx, Describe(m), s.P.Byz[op.Forge.By%len(s.P.Byz)])
		}
	case "aggregate":
		v, ok := Values[op.Value]
		if !ok {
			return
		}
		if m := s.AggregateCommits(specqbft.Round(op.Round), v, op.Mask); m != nil {
			pm := s.add(0, true, m) // network-level artefact: anybody can aggregate
			s.Logf("aggregate #%d [%s]", pm.Idx, Describe(m))
		}
	}
}

// FlushCorrect delivers every undelivered message of correct operators to every correct operator until
// quiescent; order picks the delivery order of each batch (nil = pool order).
func (s *Sim) FlushCorrect(order func([]*PoolMsg) []*PoolMsg, onEvent func(*Event) bool) int {
	n := 0
	for {
		var batch []*PoolMsg
		for _, pm := range s.Pool {
			if pm.Byz {
				// gossip forwarding (optional): a decided certificate that some correct operator accepted is
				// re-published by that operator's pubsub layer, whoever aggregated it
				if !(s.ForwardAccepted && len(pm.Msg.Signers) > 1 && len(pm.Accepted) > 0) {
					continue
				}
			}
			for _, id := range s.Correct {
				if !pm.Delivered[id] {
					batch = append(batch, pm)
					break
				}
			}
		}
		if len(batch) == 0 {
			return n
		}
		if order != nil {
			batch = order(batch)
		}
		for _, pm := range batch {
			for _, id := range s.Correct {
				if pm.Delivered[id] {
					continue
				}
				ev := s.Deliver(pm, id)
				n++
				if onEvent != nil && !onEvent(ev) {
					return n
				}
			}
		}
	}
}

// DecidedValues returns the decided value per correct operator (from instance state).
func (s *Sim) DecidedValues() map[spectypes.OperatorID][]byte {
	out := map[spectypes.OperatorID][]byte{}
	for _, id := range s.Correct {
		if inst := s.Inst(id); inst != nil && inst.State.Decided {
			out[id] = inst.State.DecidedValue
		}
	}
	return out
}
