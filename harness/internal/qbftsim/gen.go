package qbftsim

import (
	"os"
	"sort"

	"pgregory.net/rapid"

	"verif/harness/internal/fx"
)

type GenOpts struct {
	Ns          []int // committee sizes to draw from
	MaxOps      int
	ForceByz    bool // always use the maximum number of Byzantine operators
	NoByz       bool
	VerifyOnly  *bool // fix signature verification mode
	MultiHeight bool  // programs may move on to the next height (replay material from earlier heights)
	NetFaults   bool  // broadcast faults (published-but-error, lost)
	Directed    bool  // every script slot is one of the Byzantine strategy scripts (uniformly), never the plain round script
}

func mask(t *rapid.T, n int, label string) uint32 {
	if rapid.IntRange(0, 2).Draw(t, label+"_all") == 0 {
		return 0
	}
	return uint32(rapid.IntRange(1, (1<<uint(n))-1).Draw(t, label))
}

type weights struct{ flush, deliver, timeout, forge, aggregate, start int }

// Gen draws a simulation program. Each case first draws a weight vector (swarm testing: some cases are
// timeout-heavy, some delivery-heavy, some forge-heavy).
func Gen(t *rapid.T, o GenOpts) Prog {
	n := rapid.SampledFrom(o.Ns).Draw(t, "n")
	f := fx.F(n)
	p := Prog{N: n, Height: uint64(rapid.IntRange(0, n+1).Draw(t, "height")), Starts: map[int]string{}}
	if o.VerifyOnly != nil {
		p.Verify = *o.VerifyOnly
	} else {
		p.Verify = rapid.IntRange(0, 3).Draw(t, "verify") == 0
	}
	nb := 0
	if !o.NoByz {
		nb = rapid.IntRange(0, f).Draw(t, "nbyz")
		if o.ForceByz {
			nb = f
		}
	}
	p.Byz = rapid.SliceOfNDistinct(rapid.IntRange(1, n), nb, nb, rapid.ID[int]).Draw(t, "byz")
	sort.Ints(p.Byz)
	isByz := map[int]bool{}
	for _, b := range p.Byz {
		isByz[b] = true
	}
	for id := 1; id <= n; id++ {
		if !isByz[id] {
			p.Starts[id] = rapid.SampledFrom([]string{"A", "A", "B", "C"}).Draw(t, "startval")
		}
	}
	w := weights{
		flush:     rapid.IntRange(1, 8).Draw(t, "w_flush"),
		deliver:   rapid.IntRange(0, 4).Draw(t, "w_deliver"),
		timeout:   rapid.IntRange(0, 5).Draw(t, "w_timeout"),
		forge:     rapid.IntRange(0, 6).Draw(t, "w_forge"),
		aggregate: rapid.IntRange(0, 2).Draw(t, "w_agg"),
		start:     1,
	}
	if nb == 0 {
		w.forge = 0
	}
	var kinds []string
	add := func(k string, c int) {
		for i := 0; i < c; i++ {
			kinds = append(kinds, k)
		}
	}
	add("flush", w.flush)
	add("deliver", w.deliver)
	add("timeout", w.timeout)
	add("forge", w.forge)
	add("aggregate", w.aggregate)
	add("start", w.start)
	// most cases start everybody first; some start a subset and the rest later (or never)
	startMask := uint32(0)
	if !o.Directed && os.Getenv("VERIF_FORCE_SCRIPT") == "" && rapid.IntRange(0, 3).Draw(t, "start_subset") == 0 {
		startMask = mask(t, n, "startmask")
	}
	p.Ops = append(p.Ops, Op{K: "startall", To: startMask})
	tkinds := []string{"", "", "", "", "", "stale-round", "other-height", "lower-height"}
	if o.MultiHeight {
		tkinds = append(tkinds, "prev-height", "prev-height-next")
	}
	genOp := func(t *rapid.T) Op {
		switch rapid.SampledFrom(kinds).Draw(t, "k") {
		case "flush":
			return Op{K: "flush", Types: rapid.SampledFrom([]string{"", "", "", "P", "p", "C", "R", "Pp", "PpC", "pC", "PR"}).Draw(t, "types"),
				From: mask(t, n, "from"), To: mask(t, n, "to"), Limit: rapid.SampledFrom([]int{0, 0, 0, 1, 2, 3, 5, 8}).Draw(t, "limit")}
		case "deliver":
			return Op{K: "deliver", I: rapid.IntRange(1, n).Draw(t, "i"), M: rapid.IntRange(0, 400).Draw(t, "m")}
		case "timeout":
			return Op{K: "timeout", To: mask(t, n, "tmask"), TKind: rapid.SampledFrom(tkinds).Draw(t, "tkind")}
		case "forge":
			fg := &Forge{By: rapid.IntRange(0, 3).Draw(t, "by"),
				T:        rapid.SampledFrom([]string{"proposal", "proposal", "prepare", "commit", "commit", "rc", "rc", "decided"}).Draw(t, "ft"),
				RoundRel: rapid.SampledFrom([]int{0, 0, 0, 0, 1, 1, 2, -1}).Draw(t, "frel"),
				Value:    rapid.SampledFrom([]string{"auto", "A", "B", "C", "B", "X"}).Draw(t, "fval"),
				Just:     rapid.SampledFrom([]string{"auto", "auto", "auto", "none", "short", "replay", "confuse", "lowest", "lowest-first", "sigreplay", "foreign-first", "dup", "claimed"}).Draw(t, "fjust"),
				Prepared: rapid.SampledFrom([]string{"none", "none", "pool", "pool", "fake", "replay"}).Draw(t, "fprep"),
				PRound:   rapid.IntRange(1, 3).Draw(t, "fpround")}
			if rapid.IntRange(0, 9).Draw(t, "fas_on") == 0 {
				fg.As = rapid.IntRange(1, n).Draw(t, "fas")
			}
			return Op{K: "forge", Forge: fg}
		case "aggregate":
			return Op{K: "aggregate", Round: rapid.IntRange(1, 4).Draw(t, "ar"), Value: rapid.SampledFrom([]string{"A", "B", "C"}).Draw(t, "av"), Mask: mask(t, n, "amask")}
		case "netfail":
			return Op{K: "netfail", I: rapid.IntRange(1, n).Draw(t, "nf_i"), Limit: rapid.SampledFrom([]int{0, 0, 1}).Draw(t, "nf_lose")}
		case "nextheight":
			return Op{K: "nextheight"}
		default:
			return Op{K: "start", I: rapid.IntRange(1, n).Draw(t, "si")}
		}
	}
	// A program is a few "round scripts" (the skeleton of one protocol round with every step optional and
	// every sender / receiver set drawn) with free ops in between: uniform op sequences almost never get past
	// round 1, scripts reach partial prepares, locks in different rounds, justified proposals and decisions.
	biasedMask := func(t *rapid.T, label string) uint32 {
		if rapid.IntRange(0, 3).Draw(t, label+"_all") != 0 {
			return 0
		}
		return uint32(rapid.IntRange(1, (1<<uint(n))-1).Draw(t, label))
	}
	script := func(t *rapid.T) []Op {
		var ops []Op
		maybe := func(pct int, op func() Op) {
			if rapid.IntRange(0, 99).Draw(t, "do") < pct {
				ops = append(ops, op())
			}
		}
		noise := func() {
			for k := rapid.SampledFrom([]int{0, 0, 0, 1, 1, 2}).Draw(t, "noise"); k > 0; k-- {
				ops = append(ops, genOp(t))
			}
		}
		maybe(90, func() Op { return Op{K: "flush", Types: "P", To: biasedMask(t, "p_to")} })
		noise()
		maybe(90, func() Op {
			return Op{K: "flush", Types: "p", From: biasedMask(t, "pp_from"), To: biasedMask(t, "pp_to")}
		})
		noise()
		maybe(70, func() Op { return Op{K: "flush", Types: "C", From: biasedMask(t, "c_from"), To: biasedMask(t, "c_to")} })
		noise()
		maybe(80, func() Op { return Op{K: "timeout", To: biasedMask(t, "t_to")} })
		maybe(85, func() Op { return Op{K: "flush", Types: "R", From: biasedMask(t, "r_from"), To: biasedMask(t, "r_to")} })
		noise()
		return ops
	}
	// equivocation script: the Byzantine leader of the current round (if there is one) proposes two values to
	// two halves, Byzantine operators back both with prepares and commits, deliveries are split by value.
	equiv := func(t *rapid.T) []Op {
		v1, v2 := "A", rapid.SampledFrom([]string{"B", "C"}).Draw(t, "ev2")
		half := uint32(rapid.IntRange(1, (1<<uint(n))-2).Draw(t, "half"))
		rel := rapid.SampledFrom([]int{0, 0, 1}).Draw(t, "erel")
		var ops []Op
		fg := func(tp, v string, by int) Op {
			return Op{K: "forge", Forge: &Forge{By: by, ByLeader: tp == "proposal", T: tp, RoundRel: rel, Value: v, Just: "auto", Prepared: "none"}}
		}
		ops = append(ops, fg("proposal", v1, 0), fg("proposal", v2, 0))
		ops = append(ops, Op{K: "flush", Types: "P", Src: 1, Val: v1, To: half}, Op{K: "flush", Types: "P", Src: 1, Val: v2, To: ^half & (1<<uint(n) - 1)})
		for b := 0; b < nb; b++ {
			ops = append(ops, fg("prepare", v1, b), fg("prepare", v2, b))
		}
		ops = append(ops, Op{K: "flush", Types: "p", Val: v1, To: half}, Op{K: "flush", Types: "p", Val: v2, To: ^half & (1<<uint(n) - 1)})
		for b := 0; b < nb; b++ {
			ops = append(ops, fg("commit", v1, b), fg("commit", v2, b))
		}
		if rapid.Bool().Draw(t, "ecross") {
			ops = append(ops, Op{K: "flush", Types: "C", To: biasedMask(t, "ec_to")})
		} else {
			ops = append(ops, Op{K: "flush", Types: "C", Val: v1, To: half}, Op{K: "flush", Types: "C", Val: v2, To: ^half & (1<<uint(n) - 1)})
		}
		return ops
	}
	var correctIDs []int
	for id := 1; id <= n; id++ {
		if !isByz[id] {
			correctIDs = append(correctIDs, id)
		}
	}
	// distinctCorrect draws k distinct correct operator ids (fewer if there are not enough)
	distinctCorrect := func(t *rapid.T, k int, label string) []int {
		if k > len(correctIDs) {
			k = len(correctIDs)
		}
		return rapid.SliceOfNDistinct(rapid.SampledFrom(correctIDs), k, k, rapid.ID[int]).Draw(t, label)
	}
	_ = distinctCorrect
	// lock-split script: one correct operator alone reaches a prepare quorum in round r; after the timeouts its
	// round-change is withheld, the Byzantine operators supply (unprepared) round-changes instead, the next leader
	// proposes its own value and, with Byzantine prepares, another correct operator alone prepares that value in
	// round r+1: two correct operators now hold locks on different values in different rounds.
	lockSplit := func(t *rapid.T) []Op {
		ids := distinctCorrect(t, 2, "ls_ids")
		for len(ids) < 2 {
			ids = append(ids, ids[0])
		}
		a, b := ids[0], ids[1]
		bitA, bitB := uint32(1)<<uint(a-1), uint32(1)<<uint(b-1)
		all := uint32(1<<uint(n)) - 1
		var ops []Op
		fg := func(tp, v string, by int, rel int) Op {
			return Op{K: "forge", Forge: &Forge{By: by, ByLeader: tp == "proposal", T: tp, RoundRel: rel, Value: v, Just: "auto", Prepared: "none"}}
		}
		ops = append(ops, Op{K: "flush", Types: "P"})
		for i := 0; i < nb; i++ {
			ops = append(ops, fg("prepare", "last", i, 0))
		}
		ops = append(ops, Op{K: "flush", Types: "p", To: bitA}) // only A sees the prepare quorum
		ops = append(ops, Op{K: "timeout"})
		for i := 0; i < nb; i++ {
			ops = append(ops, fg("rc", "", i, 0))
		}
		ops = append(ops, fg("proposal", rapid.SampledFrom([]string{"B", "C", "auto"}).Draw(t, "ls_v"), 0, 0)) // in case the next leader is Byzantine
		ops = append(ops, Op{K: "flush", Types: "R", From: all &^ bitA})                                       // A's prepared round-change is withheld
		if rapid.IntRange(0, 2).Draw(t, "ls_commits_first") == 0 {
			// variant: A does get the new proposal (justified without its round-change), the others prepare and commit the
			// new value, and A receives the commit quorum BEFORE any prepare of the new round - while still holding its
			// older lock
			ops = append(ops, Op{K: "flush", Types: "P"})
			for i := 0; i < nb; i++ {
				ops = append(ops, fg("prepare", "last", i, 0))
			}
			ops = append(ops, Op{K: "flush", Types: "p", From: all &^ bitA, To: all &^ bitA})
			for i := 0; i < nb; i++ {
				ops = append(ops, fg("commit", "last", i, 0))
			}
			ops = append(ops, Op{K: "flush", Types: "C", From: all &^ bitA, To: bitA})
			return append(ops, Op{K: "flush", Types: "C"})
		}
		ops = append(ops, Op{K: "flush", Types: "P", To: all &^ bitA})
		for i := 0; i < nb; i++ {
			ops = append(ops, fg("prepare", "last", i, 0))
		}
		ops = append(ops, Op{K: "flush", Types: "p", From: all &^ bitA, To: bitB}) // only B prepares the new value
		if rapid.Bool().Draw(t, "ls_timeout") {
			ops = append(ops, Op{K: "timeout"})
		}
		return ops
	}
	// Byzantine leader of a later round proposes the invalid value with a well-formed justification
	invalidLater := func(t *rapid.T) []Op {
		fg := func(tp string, by int) Op {
			return Op{K: "forge", Forge: &Forge{By: by, ByLeader: tp == "proposal", T: tp, RoundRel: 0, Value: "X", Just: "auto", Prepared: "none"}}
		}
		ops := []Op{{K: "timeout"}}
		for i := 0; i < nb; i++ {
			ops = append(ops, Op{K: "forge", Forge: &Forge{By: i, T: "rc", RoundRel: 0, Prepared: "none"}})
		}
		ops = append(ops, Op{K: "flush", Types: "R"}, fg("proposal", 0), Op{K: "flush", Types: "P", Src: 1})
		for i := 0; i < nb; i++ {
			ops = append(ops, fg("prepare", i))
		}
		ops = append(ops, Op{K: "flush", Types: "p"})
		for i := 0; i < nb; i++ {
			ops = append(ops, fg("commit", i))
		}
		return append(ops, Op{K: "flush", Types: "C"})
	}
	// impersonated-commit script: a Byzantine operator sends the victim a commit that claims the victim's OWN id
	// right after the victim reached the prepare quorum (before its genuine commit loops back)
	impersonateCommit := func(t *rapid.T) []Op {
		v := rapid.IntRange(1, n).Draw(t, "ic_v")
		bv := uint32(1) << uint(v-1)
		ops := []Op{{K: "flush", Types: "P"}}
		for i := 0; i < nb; i++ {
			ops = append(ops, Op{K: "forge", Forge: &Forge{By: i, T: "prepare", Value: "last", Prepared: "none"}})
		}
		ops = append(ops, Op{K: "flush", Types: "p", To: bv})
		ops = append(ops, Op{K: "forge", Forge: &Forge{By: 0, T: "commit", Value: "last", Prepared: "none", As: v}})
		ops = append(ops, Op{K: "flush", Types: "C", Src: 1, To: bv})
		ops = append(ops, Op{K: "flush", Types: "C", To: bv, Limit: rapid.IntRange(1, n).Draw(t, "ic_lim")})
		for i := 0; i < nb; i++ {
			ops = append(ops, Op{K: "forge", Forge: &Forge{By: i, T: "commit", Value: "last", Prepared: "none"}})
		}
		return append(ops, Op{K: "flush", Types: "C"})
	}
	// lock-split-and-decide script: like lockSplit, but two correct operators prepare the second value and one of them
	// decides it (with a Byzantine commit); the following round's leader then sees round-changes carrying two locks
	lockSplitDecide := func(t *rapid.T) []Op {
		ids := distinctCorrect(t, 3, "lsd_ids")
		for len(ids) < 3 {
			ids = append(ids, ids[0])
		}
		a, b, c := ids[0], ids[1], ids[2]
		bitA, bitB, bitC := uint32(1)<<uint(a-1), uint32(1)<<uint(b-1), uint32(1)<<uint(c-1)
		all := uint32(1<<uint(n)) - 1
		fg := func(tp, v string, by int) Op {
			return Op{K: "forge", Forge: &Forge{By: by, ByLeader: tp == "proposal", T: tp, RoundRel: 0, Value: v, Just: "auto", Prepared: "none"}}
		}
		ops := []Op{fg("proposal", "A", 0), {K: "flush", Types: "P"}} // the forged proposal only counts if the round's leader is Byzantine
		for i := 0; i < nb; i++ {
			ops = append(ops, fg("prepare", "last", i))
		}
		ops = append(ops, Op{K: "flush", Types: "p", To: bitA}, Op{K: "timeout"})
		for i := 0; i < nb; i++ {
			ops = append(ops, fg("rc", "", i))
		}
		ops = append(ops, fg("proposal", rapid.SampledFrom([]string{"B", "C"}).Draw(t, "lsd_v"), 0))
		ops = append(ops, Op{K: "flush", Types: "R", From: all &^ bitA}, Op{K: "flush", Types: "P", To: all &^ bitA})
		for i := 0; i < nb; i++ {
			ops = append(ops, fg("prepare", "last", i))
		}
		ops = append(ops, Op{K: "flush", Types: "p", From: all &^ bitA, To: bitB | bitC})
		for i := 0; i < nb; i++ {
			ops = append(ops, fg("commit", "last", i))
		}
		ops = append(ops, Op{K: "flush", Types: "C", To: bitB}, Op{K: "timeout"})
		for i := 0; i < nb; i++ {
			ops = append(ops, fg("rc", "", i))
		}
		// the order in which the two locks' round-changes reach the next leader matters: one of them goes last
		last := rapid.SampledFrom([]uint32{bitA, bitC, 0}).Draw(t, "lsd_last")
		if last != 0 {
			ops = append(ops, Op{K: "flush", Types: "R", From: all &^ last}, Op{K: "flush", Types: "R", From: last})
		} else {
			ops = append(ops, Op{K: "flush", Types: "R"})
		}
		// a Byzantine leader of this round re-proposes: legitimately, or the outdated lock dressed up as the highest one
		lj := rapid.SampledFrom([]string{"auto", "lowest", "lowest-first"}).Draw(t, "lsd_just")
		ops = append(ops, Op{K: "forge", Forge: &Forge{By: 0, ByLeader: true, T: "proposal", Value: "auto", Just: lj, Prepared: "none"}})
		ops = append(ops, Op{K: "flush", Types: "P"})
		for i := 0; i < nb; i++ {
			ops = append(ops, fg("prepare", "last", i))
		}
		ops = append(ops, Op{K: "flush", Types: "p"})
		for i := 0; i < nb; i++ {
			ops = append(ops, fg("commit", "last", i))
		}
		// the operator that decided earlier keeps its decided message to itself, so that the others run the round on their own
		return append(ops, Op{K: "flush", Types: "C", From: all &^ bitB, To: all &^ bitB})
	}
	// forged-certificate script: the correct operators are split over two values (Byzantine leader equivocates); a few of
	// them get a genuine quorum for one value, the others are fed fabricated evidence for the OTHER value: decided
	// messages padded with non-members / repeated / merely claimed signers or carrying the aggregate signature of a
	// certificate of another height, and single commits in the name of correct operators with signature bytes those
	// operators produced for another height / value
	forgedCert := func(t *rapid.T) []Op {
		all := uint32(1<<uint(n)) - 1
		half := uint32(rapid.IntRange(1, (1<<uint(n))-2).Draw(t, "fc_half"))
		ops := []Op{
			{K: "forge", Forge: &Forge{By: 0, ByLeader: true, T: "proposal", Value: "A", Just: "auto", Prepared: "none"}},
			{K: "flush", Types: "P", Val: "A", To: half},
			{K: "forge", Forge: &Forge{By: 0, ByLeader: true, T: "proposal", Value: "B", Just: "auto", Prepared: "none"}},
			{K: "flush", Types: "P", Val: "B", To: all &^ half},
		}
		for i := 0; i < nb; i++ {
			ops = append(ops, Op{K: "forge", Forge: &Forge{By: i, T: "prepare", Value: "A", Prepared: "none"}}, Op{K: "forge", Forge: &Forge{By: i, T: "prepare", Value: "B", Prepared: "none"}})
		}
		ops = append(ops, Op{K: "flush", Types: "p"})
		for i := 0; i < nb; i++ {
			ops = append(ops, Op{K: "forge", Forge: &Forge{By: i, T: "commit", Value: "A", Prepared: "none"}})
		}
		ops = append(ops, Op{K: "flush", Types: "C", Val: "A", To: half})
		kinds := []string{"sigreplay", "sigreplay", "foreign-first", "dup", "claimed"}
		for k := rapid.IntRange(1, 4).Draw(t, "fc_n"); k > 0; k-- {
			j := rapid.SampledFrom(kinds).Draw(t, "fc_kind")
			tp := "decided"
			if j == "sigreplay" && rapid.Bool().Draw(t, "fc_single") {
				tp = "commit"
			}
			ops = append(ops, Op{K: "forge", Forge: &Forge{By: rapid.IntRange(0, 3).Draw(t, "fc_by"), T: tp, Value: "B", Just: j, Prepared: "none", PRound: rapid.IntRange(0, 3).Draw(t, "fc_pr")}})
		}
		return append(ops, Op{K: "flush", Types: "C", Src: 1}, Op{K: "flush", Types: "C"})
	}
	// type-confusion script: after a round in which some operators locked / decided, the Byzantine leader of the next
	// round first shows ONE operator a valid re-proposal (to harvest its prepare), then proposes another value to the
	// rest, "justified" by round-changes padded with that prepare
	typeConfusion := func(t *rapid.T) []Op {
		x := rapid.IntRange(1, n).Draw(t, "tc_x")
		bx := uint32(1) << uint(x-1)
		all := uint32(1<<uint(n)) - 1
		v2 := rapid.SampledFrom([]string{"B", "C"}).Draw(t, "tc_v")
		ops := []Op{{K: "flush", Types: "P"}}
		for i := 0; i < nb; i++ {
			ops = append(ops, Op{K: "forge", Forge: &Forge{By: i, T: "prepare", Value: "last", Prepared: "none"}})
		}
		ops = append(ops, Op{K: "flush", Types: "p", To: biasedMask(t, "tc_pto")})
		for i := 0; i < nb; i++ {
			ops = append(ops, Op{K: "forge", Forge: &Forge{By: i, T: "commit", Value: "last", Prepared: "none"}})
		}
		ops = append(ops, Op{K: "flush", Types: "C", To: uint32(rapid.IntRange(1, (1<<uint(n))-1).Draw(t, "tc_cto"))}, Op{K: "timeout"})
		for i := 0; i < nb; i++ {
			ops = append(ops, Op{K: "forge", Forge: &Forge{By: i, T: "rc", Prepared: "none"}})
		}
		ops = append(ops, Op{K: "flush", Types: "R"})
		ops = append(ops, Op{K: "forge", Forge: &Forge{By: 0, ByLeader: true, T: "proposal", Value: "auto", Just: "auto"}})
		ops = append(ops, Op{K: "flush", Types: "P", Src: 1, To: bx}) // x prepares the legitimate re-proposal; its prepare is now on the network
		ops = append(ops, Op{K: "forge", Forge: &Forge{By: 0, ByLeader: true, T: "proposal", Value: v2, Just: "confuse"}})
		ops = append(ops, Op{K: "flush", Types: "P", Src: 1, Val: v2, To: all &^ bx})
		for i := 0; i < nb; i++ {
			ops = append(ops, Op{K: "forge", Forge: &Forge{By: i, T: "prepare", Value: v2, Prepared: "none"}})
		}
		ops = append(ops, Op{K: "flush", Types: "p", Val: v2})
		for i := 0; i < nb; i++ {
			ops = append(ops, Op{K: "forge", Forge: &Forge{By: i, T: "commit", Value: v2, Prepared: "none"}})
		}
		return append(ops, Op{K: "flush", Types: "C", Val: v2})
	}
	// commit-fault script: X and Y reach the prepare quorum, X's commit is published but its broadcast reports an
	// error; with a Byzantine commit Y alone decides; everybody else times out and the next round runs without Y.
	commitFault := func(t *rapid.T) []Op {
		x := rapid.IntRange(1, n).Draw(t, "cf_x")
		y := rapid.IntRange(1, n).Draw(t, "cf_y")
		bx, by := uint32(1)<<uint(x-1), uint32(1)<<uint(y-1)
		fg := func(tp string, i int) Op {
			return Op{K: "forge", Forge: &Forge{By: i, ByLeader: tp == "proposal", T: tp, RoundRel: 0, Value: "last", Just: "auto", Prepared: "none"}}
		}
		ops := []Op{{K: "flush", Types: "P"}}
		for i := 0; i < nb; i++ {
			ops = append(ops, fg("prepare", i))
		}
		ops = append(ops, Op{K: "netfail", I: x, Limit: rapid.SampledFrom([]int{0, 0, 0, 1}).Draw(t, "cf_lose")})
		ops = append(ops, Op{K: "flush", Types: "p", To: bx | by})
		for i := 0; i < nb; i++ {
			ops = append(ops, fg("commit", i))
		}
		ops = append(ops, Op{K: "flush", Types: "C", To: by}, Op{K: "timeout"})
		for i := 0; i < nb; i++ {
			ops = append(ops, Op{K: "forge", Forge: &Forge{By: i, T: "rc", RoundRel: 0, Prepared: "none"}})
		}
		ops = append(ops, Op{K: "forge", Forge: &Forge{By: 0, ByLeader: true, T: "proposal", RoundRel: 0, Value: rapid.SampledFrom([]string{"B", "C", "auto"}).Draw(t, "cf_v"), Just: "auto"}})
		ops = append(ops, Op{K: "flush", Types: "R"}, Op{K: "flush", Types: "P"})
		for i := 0; i < nb; i++ {
			ops = append(ops, fg("prepare", i))
		}
		ops = append(ops, Op{K: "flush", Types: "p"})
		for i := 0; i < nb; i++ {
			ops = append(ops, fg("commit", i))
		}
		return append(ops, Op{K: "flush", Types: "C"})
	}
	// replay script: round-changes of an earlier height are used to fake an unprepared quorum at the next height
	replay := func(t *rapid.T) []Op {
		var ops []Op
		ops = append(ops, Op{K: "timeout"}, Op{K: "flush", Types: "R", Limit: rapid.SampledFrom([]int{0, 2, 4}).Draw(t, "rp_lim")})
		if rapid.Bool().Draw(t, "rp_sync") {
			ops = append(ops, Op{K: "flush"})
		}
		ops = append(ops, Op{K: "nextheight"})
		ops = append(ops, script(t)...)
		ops = append(ops, Op{K: "timeout"})
		v := rapid.SampledFrom([]string{"B", "C"}).Draw(t, "rp_v")
		fg := func(tp string, by int) Op {
			return Op{K: "forge", Forge: &Forge{By: by, ByLeader: tp == "proposal", T: tp, RoundRel: 0, Value: v, Just: "replay", Prepared: "none"}}
		}
		ops = append(ops, fg("proposal", 0), Op{K: "flush", Types: "P", Src: 1, To: biasedMask(t, "rp_to")})
		for i := 0; i < nb; i++ {
			ops = append(ops, fg("prepare", i))
		}
		ops = append(ops, Op{K: "flush", Types: "p"})
		for i := 0; i < nb; i++ {
			ops = append(ops, fg("commit", i))
		}
		return append(ops, Op{K: "flush", Types: "C"})
	}
	max := o.MaxOps
	if max == 0 {
		max = 40
	}
	if o.NetFaults {
		kinds = append(kinds, "netfail")
	}
	if o.MultiHeight {
		kinds = append(kinds, "nextheight")
	}
	force := os.Getenv("VERIF_FORCE_SCRIPT")
	if o.Directed || force != "" {
		// directed runs start their first script from a clean instance
	} else if nb > 0 && rapid.IntRange(0, 4).Draw(t, "locksplit") == 0 {
		if rapid.Bool().Draw(t, "ls_pre") {
			p.Ops = append(p.Ops, script(t)...)
		}
		p.Ops = append(p.Ops, lockSplit(t)...)
	}
	if !o.Directed && force == "" && nb > 0 && rapid.IntRange(0, 2).Draw(t, "equiv_first") == 0 {
		p.Ops = append(p.Ops, equiv(t)...)
	}
	nscripts := rapid.IntRange(0, 5).Draw(t, "nscripts")
	if (o.Directed || force != "") && nscripts == 0 {
		nscripts = 1
	}
	for i := 0; i < nscripts; i++ {
		if o.NetFaults && rapid.IntRange(0, 2).Draw(t, "nf_pre") == 0 {
			// a broadcast fault right before the round: the operator's next message reports an error
			p.Ops = append(p.Ops, Op{K: "netfail", I: rapid.IntRange(1, n).Draw(t, "nf_pi"), Limit: rapid.SampledFrom([]int{0, 0, 1}).Draw(t, "nf_pl")})
		}
		if !o.Directed && nb > 0 && rapid.IntRange(0, 3).Draw(t, "equiv") == 0 {
			p.Ops = append(p.Ops, equiv(t)...)
		} else if o.Directed && nb > 0 && force == "" {
			switch rapid.IntRange(0, 8).Draw(t, "directed") {
			case 8:
				p.Ops = append(p.Ops, forgedCert(t)...)
			case 0:
				p.Ops = append(p.Ops, equiv(t)...)
			case 1:
				p.Ops = append(p.Ops, lockSplit(t)...)
			case 2:
				p.Ops = append(p.Ops, lockSplitDecide(t)...)
			case 3:
				p.Ops = append(p.Ops, invalidLater(t)...)
			case 4:
				if o.MultiHeight {
					p.Ops = append(p.Ops, replay(t)...)
				} else {
					p.Ops = append(p.Ops, script(t)...)
				}
			case 5:
				if o.NetFaults {
					p.Ops = append(p.Ops, commitFault(t)...)
				} else {
					p.Ops = append(p.Ops, script(t)...)
				}
			case 6:
				if p.Verify {
					p.Ops = append(p.Ops, impersonateCommit(t)...)
				} else {
					p.Ops = append(p.Ops, typeConfusion(t)...)
				}
			default:
				p.Ops = append(p.Ops, typeConfusion(t)...)
			}
		} else if force != "" && nb > 0 {
			// debugging / directed runs: always use one named script
			switch force {
			case "impersonateCommit":
				p.Ops = append(p.Ops, impersonateCommit(t)...)
			case "lockSplitDecide":
				p.Ops = append(p.Ops, lockSplitDecide(t)...)
			case "typeConfusion":
				p.Ops = append(p.Ops, typeConfusion(t)...)
			case "forgedCert":
				p.Ops = append(p.Ops, forgedCert(t)...)
			case "commitFault":
				p.Ops = append(p.Ops, commitFault(t)...)
			case "replay":
				p.Ops = append(p.Ops, replay(t)...)
			}
		} else if nb > 0 && rapid.IntRange(0, 5).Draw(t, "special") == 0 {
			switch rapid.IntRange(0, 2).Draw(t, "which_special") {
			case 0:
				if p.Verify {
					p.Ops = append(p.Ops, impersonateCommit(t)...)
				} else {
					p.Ops = append(p.Ops, lockSplitDecide(t)...)
				}
			case 1:
				p.Ops = append(p.Ops, lockSplitDecide(t)...)
			default:
				p.Ops = append(p.Ops, typeConfusion(t)...)
			}
		} else if nb > 0 && o.NetFaults && rapid.IntRange(0, 4).Draw(t, "commit_fault") == 0 {
			p.Ops = append(p.Ops, commitFault(t)...)
		} else if nb > 0 && rapid.IntRange(0, 5).Draw(t, "invalid_later") == 0 {
			p.Ops = append(p.Ops, invalidLater(t)...)
		} else if nb > 0 && o.MultiHeight && rapid.IntRange(0, 4).Draw(t, "replay") == 0 {
			p.Ops = append(p.Ops, replay(t)...)
		} else {
			p.Ops = append(p.Ops, script(t)...)
		}
	}
	p.Ops = append(p.Ops, rapid.SliceOfN(rapid.Custom(genOp), 1, max/2).Draw(t, "ops")...)
	if rapid.IntRange(0, 2).Draw(t, "finalsync") == 0 {
		p.Ops = append(p.Ops, Op{K: "flush"})
	}
	return p
}
