// Package regsim is the shared machinery of the registry-event harnesses (C11, C12): a per-process
// pool of keys, ABI log builders that emit logs the way the registry contract would, the event
// program type with its generator, a reference model of the registration rules, and an environment
// that boots the real node storage / key manager / event handler of /repo on a (fault-injecting)
// database exactly like cli/operator/node.go does.
package regsim

import (
	"crypto/sha256"
	"encoding/binary"
	"fmt"
	"math/big"
	"sync"

	"github.com/attestantio/go-eth2-client/spec/phase0"
	ethabi "github.com/ethereum/go-ethereum/accounts/abi"
	ethcommon "github.com/ethereum/go-ethereum/common"
	ethtypes "github.com/ethereum/go-ethereum/core/types"
	"github.com/ethereum/go-ethereum/crypto"
	"github.com/herumi/bls-eth-go-binary/bls"

	"github.com/bloxapp/ssv/eth/contract"
	"github.com/bloxapp/ssv/eth/eventparser"
	"github.com/bloxapp/ssv/operator/keys"
	"github.com/bloxapp/ssv/utils/threshold"
)

const (
	MaxOwners     = 3
	MaxOperators  = 8
	MaxValidators = 6
	MaxShares     = 14 // share keys per validator (13 = largest committee, +1 for the too-many mutation)
	NumFeeAddrs   = 4
	EncKeyLen     = 256
)

// ValKeys are the keys of one pool validator.
type ValKeys struct {
	Master    *bls.SecretKey
	PubKey    []byte // 48 bytes
	ShareSK   []*bls.SecretKey
	SharePubs [][]byte
}

// Pool is generated once per process (RSA key generation and BLS derivations are expensive); programs
// only carry indices into it.
type Pool struct {
	Owners   []ethcommon.Address
	FeeAddrs []ethcommon.Address
	Vals     []*ValKeys
	OwnKey   keys.OperatorPrivateKey // the RSA key of "us"
	OwnPub   []byte                  // base64 public key as stored in OperatorData.PublicKey
	ABI      *ethabi.ABI

	mu  sync.Mutex
	enc map[string][]byte
}

var (
	poolOnce sync.Once
	pool     *Pool
)

// ThePool returns the process-wide pool.
func ThePool() *Pool {
	poolOnce.Do(func() {
		threshold.Init()
		p := &Pool{enc: map[string][]byte{}}
		for i := 0; i < MaxOwners; i++ {
			h := sha256.Sum256([]byte(fmt.Sprintf("verif-owner-%d", i)))
			p.Owners = append(p.Owners, ethcommon.BytesToAddress(h[:20]))
		}
		for i := 0; i < NumFeeAddrs; i++ {
			h := sha256.Sum256([]byte(fmt.Sprintf("verif-fee-%d", i)))
			p.FeeAddrs = append(p.FeeAddrs, ethcommon.BytesToAddress(h[:20]))
		}
		mk := func(tag string) *bls.SecretKey {
			h := sha256.Sum256([]byte(tag))
			sk := &bls.SecretKey{}
			if err := sk.SetLittleEndianMod(h[:]); err != nil {
				panic(err)
			}
			return sk
		}
		for v := 0; v < MaxValidators; v++ {
			vk := &ValKeys{Master: mk(fmt.Sprintf("verif-val-%d", v))}
			vk.PubKey = vk.Master.GetPublicKey().Serialize()
			for j := 0; j < MaxShares; j++ {
				sk := mk(fmt.Sprintf("verif-val-%d-share-%d", v, j))
				vk.ShareSK = append(vk.ShareSK, sk)
				vk.SharePubs = append(vk.SharePubs, sk.GetPublicKey().Serialize())
			}
			p.Vals = append(p.Vals, vk)
		}
		k, err := keys.GeneratePrivateKey()
		if err != nil {
			panic(err)
		}
		p.OwnKey = k
		p.OwnPub, err = k.Public().Base64()
		if err != nil {
			panic(err)
		}
		a, err := contract.ContractMetaData.GetAbi()
		if err != nil {
			panic(err)
		}
		p.ABI = a
		pool = p
	})
	return pool
}

// ForeignPub is the (synthetic) public key announced by operator id when it is not "us"; the handler
// never parses other operators' keys.
func ForeignPub(id uint64) []byte {
	return []byte(fmt.Sprintf("LS0tLS1CRUdJTiBSU0EgUFVCTElDIEtFWS0tLS0tverif-operator-%03d", id))
}

func (p *Pool) encrypt(tag string, plain []byte) []byte {
	p.mu.Lock()
	defer p.mu.Unlock()
	if c, ok := p.enc[tag]; ok {
		return c
	}
	c, err := p.OwnKey.Public().Encrypt(plain)
	if err != nil {
		panic(err)
	}
	if len(c) != EncKeyLen {
		panic(fmt.Sprintf("ciphertext length %d", len(c)))
	}
	p.enc[tag] = c
	return c
}

// OwnCipher returns the 256-byte encrypted key placed at our committee position.
//
//	""         the share secret of (v, j), encrypted to our RSA key
//	"mismatch" another share secret (does not match the announced public share)
//	"nothex"   decrypts, but not to a hex BLS secret
//	"garbage"  not decryptable
func (p *Pool) OwnCipher(v, j int, kind string) []byte {
	switch kind {
	case "":
		return p.encrypt(fmt.Sprintf("ok-%d-%d", v, j), []byte(p.Vals[v].ShareSK[j].SerializeToHexStr()))
	case "mismatch":
		o := (j + 1) % MaxShares
		return p.encrypt(fmt.Sprintf("ok-%d-%d", v, o), []byte(p.Vals[v].ShareSK[o].SerializeToHexStr()))
	case "nothex":
		return p.encrypt("nothex", []byte("this is not a hexadecimal BLS secret key"))
	case "garbage":
		return filler(0xEE, v, j)
	}
	panic("bad own-share kind " + kind)
}

func filler(tag byte, v, j int) []byte {
	b := make([]byte, EncKeyLen)
	for i := range b {
		b[i] = tag ^ byte(i*7+v*31+j*13)
	}
	b[0] = 0xFF // >= modulus for sure: never a valid RSA ciphertext
	return b
}

// SignAdd is the owner signature of a registration: BLS signature by validator key k over
// keccak256("<owner>:<nonce>").
func (p *Pool) SignAdd(k int, owner ethcommon.Address, nonce int) []byte {
	msg := fmt.Sprintf("%s:%d", owner.String(), nonce)
	return p.Vals[k].Master.SignByte(crypto.Keccak256([]byte(msg))).Serialize()
}

// ---- logs ---------------------------------------------------------------------------------

var zeroCluster = contract.ISSVNetworkCoreCluster{ValidatorCount: 1, NetworkFeeIndex: 1, Index: 1, Active: true, Balance: big.NewInt(1000)}

func topicAddr(a ethcommon.Address) ethcommon.Hash { return ethcommon.BytesToHash(a.Bytes()) }
func topicU64(x uint64) ethcommon.Hash {
	var b [32]byte
	binary.BigEndian.PutUint64(b[24:], x)
	return b
}

func (p *Pool) mkLog(event string, topics []ethcommon.Hash, args ...interface{}) ethtypes.Log {
	ev, ok := p.ABI.Events[event]
	if !ok {
		panic("no event " + event)
	}
	data, err := ev.Inputs.NonIndexed().Pack(args...)
	if err != nil {
		panic(fmt.Sprintf("pack %s: %v", event, err))
	}
	return ethtypes.Log{Topics: append([]ethcommon.Hash{ev.ID}, topics...), Data: data}
}

func (p *Pool) LogOperatorAdded(id uint64, owner ethcommon.Address, pub []byte) ethtypes.Log {
	packed, err := eventparser.PackOperatorPublicKey(pub)
	if err != nil {
		panic(err)
	}
	return p.mkLog("OperatorAdded", []ethcommon.Hash{topicU64(id), topicAddr(owner)}, packed, big.NewInt(100))
}

func (p *Pool) LogOperatorRemoved(id uint64) ethtypes.Log {
	return p.mkLog("OperatorRemoved", []ethcommon.Hash{topicU64(id)})
}

func (p *Pool) LogValidatorAdded(owner ethcommon.Address, ops []uint64, pk, shares []byte) ethtypes.Log {
	return p.mkLog("ValidatorAdded", []ethcommon.Hash{topicAddr(owner)}, cp(ops), pk, shares, zeroCluster)
}

func (p *Pool) LogValidatorRemoved(owner ethcommon.Address, ops []uint64, pk []byte) ethtypes.Log {
	return p.mkLog("ValidatorRemoved", []ethcommon.Hash{topicAddr(owner)}, cp(ops), pk, zeroCluster)
}

func (p *Pool) LogValidatorExited(owner ethcommon.Address, ops []uint64, pk []byte) ethtypes.Log {
	return p.mkLog("ValidatorExited", []ethcommon.Hash{topicAddr(owner)}, cp(ops), pk)
}

func (p *Pool) LogClusterLiquidated(owner ethcommon.Address, ops []uint64) ethtypes.Log {
	return p.mkLog("ClusterLiquidated", []ethcommon.Hash{topicAddr(owner)}, cp(ops), zeroCluster)
}

func (p *Pool) LogClusterReactivated(owner ethcommon.Address, ops []uint64) ethtypes.Log {
	return p.mkLog("ClusterReactivated", []ethcommon.Hash{topicAddr(owner)}, cp(ops), zeroCluster)
}

func (p *Pool) LogFeeRecipientUpdated(owner, recipient ethcommon.Address) ethtypes.Log {
	return p.mkLog("FeeRecipientAddressUpdated", []ethcommon.Hash{topicAddr(owner)}, recipient)
}

func cp(x []uint64) []uint64 {
	if x == nil {
		return []uint64{}
	}
	return append([]uint64(nil), x...)
}

// SharesData lays out the registration payload: signature || public shares || encrypted keys.
func SharesData(sig []byte, pubs, encs [][]byte) []byte {
	out := append([]byte(nil), sig...)
	for _, x := range pubs {
		out = append(out, x...)
	}
	for _, x := range encs {
		out = append(out, x...)
	}
	return out
}

const (
	SigLen = phase0.SignatureLength
	PubLen = phase0.PublicKeyLength
)
