package regsim

import (
	"encoding/hex"
	"fmt"
	"sort"
	"strings"

	ethcommon "github.com/ethereum/go-ethereum/common"
)

// Ev is one step of an event program. All fields are explicit (indices into the pool, absolute
// nonces), so a saved program is self-contained. K = opadd oprem vadd vrem vexit liq react fee
// are contract events; K = meta is not an event: the beacon-metadata updater stores the validator's
// beacon index (needed to observe exit tasks) — it always sits between two blocks.
type Ev struct {
	K   string   `json:"k"`
	O   int      `json:"o,omitempty"`   // owner index of the event
	V   int      `json:"v,omitempty"`   // validator index
	Op  uint64   `json:"op,omitempty"`  // operator id (opadd, oprem)
	PK  int      `json:"pk,omitempty"`  // opadd: whose public key is announced: 0 = the id's own (ours if Op == Us), -1 = OUR key, n > 0 = operator n's key
	Ops []uint64 `json:"ops,omitempty"` // committee / cluster operator ids as emitted

	// vadd: what the owner signed, and how the payload is damaged
	SigO   int    `json:"sig_o,omitempty"`   // owner index in the signed message
	SigN   int    `json:"sig_n,omitempty"`   // nonce in the signed message
	SigK   int    `json:"sig_k,omitempty"`   // validator whose key signs
	SigBad bool   `json:"sig_bad,omitempty"` // signature bytes corrupted
	Len    int    `json:"len,omitempty"`     // bytes appended (>0) or cut (<0) from the share data
	Own    string `json:"own,omitempty"`     // our encrypted share: "" | mismatch | nothex | garbage

	Fee  int    `json:"fee,omitempty"`  // fee: recipient address index (NumFeeAddrs = the owner itself)
	Idx  uint64 `json:"idx,omitempty"`  // meta: beacon validator index
	Note string `json:"note,omitempty"` // generator's intention (documentation only)
}

// Scenario is an event program: the operator population, who we are, and the event sequence.
type Scenario struct {
	NOps   int  `json:"nops"` // operator ids 1..NOps may be registered
	Us     int  `json:"us"`   // the operator id announced with our RSA key; 0 = we are not registered
	Events []Ev `json:"events"`
}

// OpKey is the public key an OperatorAdded event of the program announces.
func OpKey(us int, e Ev) []byte {
	switch {
	case e.PK == -1:
		return ThePool().OwnPub
	case e.PK > 0:
		return ForeignPub(uint64(e.PK))
	case us != 0 && e.Op == uint64(us):
		return ThePool().OwnPub
	}
	return ForeignPub(e.Op)
}

// SelfID is the operator id under which the event log registers OUR key: the first accepted
// OperatorAdded carrying it (0: none). The log builders encrypt our share for that committee member.
func (sc Scenario) SelfID() uint64 {
	own := string(ThePool().OwnPub)
	seen := map[uint64]bool{}
	for _, e := range sc.Events {
		if e.K != "opadd" || seen[e.Op] {
			continue
		}
		seen[e.Op] = true
		if string(OpKey(sc.Us, e)) == own {
			return e.Op
		}
	}
	return 0
}

// ---- reference model (written from the property statement) ---------------------------------

type MOperator struct {
	ID    uint64
	Pub   string
	Owner ethcommon.Address
}

type MShare struct {
	V          int
	Owner      int
	Ops        []uint64
	Pubs       [][]byte
	OwnID      uint64 // our operator id if we are in the committee, else 0
	OwnPub     []byte
	Liquidated bool
	Meta       *uint64
}

type MRecipient struct {
	Fee   ethcommon.Address
	Nonce *int // number of add attempts - 1 (nil: none yet)
}

// Model is the reference implementation of the registration rules.
type Model struct {
	p          *Pool
	Self       uint64
	Operators  map[uint64]*MOperator
	Shares     map[int]*MShare
	Recipients map[int]*MRecipient
	Last       uint64
	HasLast    bool
}

func NewModel() *Model {
	return &Model{p: ThePool(), Operators: map[uint64]*MOperator{}, Shares: map[int]*MShare{}, Recipients: map[int]*MRecipient{}}
}

// NextNonce is the nonce the next registration of owner o must be signed with: the number of
// registration attempts of that owner so far ("the nonce counts every add attempt exactly once").
func (m *Model) NextNonce(o int) int {
	r := m.Recipients[o]
	if r == nil || r.Nonce == nil {
		return 0
	}
	return *r.Nonce + 1
}

func (m *Model) bump(o int) {
	r := m.Recipients[o]
	if r == nil {
		r = &MRecipient{Fee: m.p.Owners[o]} // default fee recipient: the owner
		m.Recipients[o] = r
	}
	if r.Nonce == nil {
		z := 0
		r.Nonce = &z
	} else {
		*r.Nonce++
	}
}

// ExpTask is a task the handler is expected to hand to the task executor.
type ExpTask struct {
	Desc     string
	Optional bool // the statement does not fix whether this task is emitted
}

// Outcome of one event according to the model.
type Outcome struct {
	Class string // label for histograms, e.g. "vadd:ok-own", "vadd:mal:sig"
	Added bool   // vadd created a share
	Mal   bool   // vadd refused (nonce still counted)
	Own   bool   // the event touched a validator of ours (side effects outside the block transaction)
	Tasks []ExpTask
}

// ValidCommitteeSize: 3f+1 with 1 <= f <= 4.
func validSize(n int) bool { return n == 4 || n == 7 || n == 10 || n == 13 }

func sortedCopy(x []uint64) []uint64 {
	c := append([]uint64(nil), x...)
	sort.Slice(c, func(i, j int) bool { return c[i] < c[j] })
	return c
}

func sameCluster(a, b []uint64) bool {
	a, b = sortedCopy(a), sortedCopy(b)
	if len(a) != len(b) {
		return false
	}
	for i := range a {
		if a[i] != b[i] {
			return false
		}
	}
	return true
}

func (m *Model) opsProblem(ops []uint64) string {
	if len(ops) > 13 {
		return "ops-toomany"
	}
	if len(ops) == 0 {
		return "ops-empty"
	}
	if !validSize(len(ops)) {
		return "ops-size"
	}
	seen := map[uint64]bool{}
	for _, id := range ops {
		if seen[id] {
			return "ops-dup"
		}
		seen[id] = true
	}
	for _, id := range ops {
		if m.Operators[id] == nil {
			return "ops-unknown"
		}
	}
	return ""
}

func pkTag(v int) string { return hex.EncodeToString(ThePool().Vals[v].PubKey[:6]) }

func taskStart(v int) string { return "start:" + pkTag(v) }
func taskStop(v int) string  { return "stop:" + pkTag(v) }
func taskExit(v int, block, idx uint64) string {
	return fmt.Sprintf("exit:%s:block=%d:index=%d", pkTag(v), block, idx)
}
func taskCluster(kind string, owner ethcommon.Address, vals []string) string {
	sort.Strings(vals)
	return fmt.Sprintf("%s:%s:[%s]", kind, owner.Hex()[:10], strings.Join(vals, ","))
}
func taskFee(owner, rcpt ethcommon.Address) string {
	return fmt.Sprintf("fee:%s:%s", owner.Hex()[:10], rcpt.Hex()[:10])
}

// FeeAddr resolves a fee index for owner o.
func (p *Pool) FeeAddr(o, fee int) ethcommon.Address {
	if fee >= 0 && fee < len(p.FeeAddrs) {
		return p.FeeAddrs[fee]
	}
	return p.Owners[o]
}

// Apply executes one event (delivered in block number block) on the model.
func (m *Model) Apply(us int, e Ev, block uint64) Outcome {
	switch e.K {
	case "opadd":
		pub := OpKey(us, e)
		if m.Operators[e.Op] != nil {
			return Outcome{Class: "opadd:exists"}
		}
		mine := string(pub) == string(m.p.OwnPub)
		if mine && m.Self != 0 && m.Self != e.Op {
			// our own key announced under a second id: refused, nothing changes (in particular the id
			// stays unknown to later committee validation and to the restart's own-id lookup)
			return Outcome{Class: "opadd:refused-own-key-other-id"}
		}
		m.Operators[e.Op] = &MOperator{ID: e.Op, Pub: string(pub), Owner: m.p.Owners[e.O]}
		if mine {
			m.Self = e.Op
			if e.PK == -1 && (us == 0 || e.Op != uint64(us)) {
				return Outcome{Class: "opadd:us-under-unexpected-id"}
			}
			return Outcome{Class: "opadd:us"}
		}
		if e.PK > 0 && uint64(e.PK) != e.Op {
			return Outcome{Class: "opadd:other-reused-key"}
		}
		return Outcome{Class: "opadd:other"}

	case "oprem":
		if m.Operators[e.Op] == nil {
			return Outcome{Class: "oprem:unknown"}
		}
		return Outcome{Class: "oprem:known"} // removal is not applied to the registry (statement: no rule)

	case "vadd":
		nonce := m.NextNonce(e.O)
		m.bump(e.O) // every attempt counts, exactly once
		mal := func(why string) Outcome { return Outcome{Class: "vadd:mal:" + why, Mal: true} }
		if why := m.opsProblem(e.Ops); why != "" {
			return mal(why)
		}
		if e.Len != 0 {
			return mal("len")
		}
		switch {
		case e.SigBad:
			return mal("sig-bytes")
		case e.SigK != e.V:
			return mal("sig-key")
		case e.SigO != e.O:
			return mal("sig-owner")
		case e.SigN != nonce:
			return mal("sig-nonce")
		}
		if ex := m.Shares[e.V]; ex != nil {
			if ex.Owner != e.O {
				return mal("dup-other-owner")
			}
			out := Outcome{Class: "vadd:dup-same-owner"}
			if ex.OwnID != 0 && ex.OwnID == m.Self {
				out.Tasks = []ExpTask{{Desc: taskStart(e.V), Optional: true}}
			}
			return out
		}
		sh := &MShare{V: e.V, Owner: e.O, Ops: append([]uint64(nil), e.Ops...)}
		vk := m.p.Vals[e.V]
		for i, id := range e.Ops {
			sh.Pubs = append(sh.Pubs, vk.SharePubs[i%MaxShares])
			if m.Self != 0 && id == m.Self {
				if e.Own != "" {
					return mal("own-" + e.Own)
				}
				sh.OwnID = id
				sh.OwnPub = vk.SharePubs[i%MaxShares]
			}
		}
		m.Shares[e.V] = sh
		if sh.OwnID != 0 {
			return Outcome{Class: "vadd:ok-own", Added: true, Own: true, Tasks: []ExpTask{{Desc: taskStart(e.V)}}}
		}
		return Outcome{Class: "vadd:ok-foreign", Added: true}

	case "vrem", "vexit":
		sh := m.Shares[e.V]
		if sh == nil {
			return Outcome{Class: e.K + ":unknown"}
		}
		if sh.Owner != e.O {
			return Outcome{Class: e.K + ":nonowner"}
		}
		own := sh.OwnID != 0 && sh.OwnID == m.Self
		if e.K == "vrem" {
			delete(m.Shares, e.V)
			if own {
				return Outcome{Class: "vrem:ok-own", Own: true, Tasks: []ExpTask{{Desc: taskStop(e.V)}}}
			}
			return Outcome{Class: "vrem:ok-foreign"}
		}
		if own && sh.Meta != nil {
			return Outcome{Class: "vexit:ok-own-task", Tasks: []ExpTask{{Desc: taskExit(e.V, block, *sh.Meta)}}}
		}
		if own {
			return Outcome{Class: "vexit:ok-own-nometa"}
		}
		return Outcome{Class: "vexit:ok-foreign"}

	case "liq", "react":
		var vals []string
		for _, v := range m.sortedVals() {
			sh := m.Shares[v]
			if sh.Owner == e.O && sameCluster(sh.Ops, e.Ops) && sh.OwnID != 0 && sh.OwnID == m.Self {
				sh.Liquidated = e.K == "liq"
				vals = append(vals, pkTag(v))
			}
		}
		if len(vals) == 0 {
			return Outcome{Class: e.K + ":none"}
		}
		kind := "liquidate"
		if e.K == "react" {
			kind = "reactivate"
		}
		return Outcome{Class: e.K + ":own", Own: true, Tasks: []ExpTask{{Desc: taskCluster(kind, m.p.Owners[e.O], vals)}}}

	case "fee":
		addr := m.p.FeeAddr(e.O, e.Fee)
		r := m.Recipients[e.O]
		if r == nil {
			m.Recipients[e.O] = &MRecipient{Fee: addr}
			return Outcome{Class: "fee:new", Tasks: []ExpTask{{Desc: taskFee(m.p.Owners[e.O], addr)}}}
		}
		if r.Fee == addr {
			return Outcome{Class: "fee:same"}
		}
		r.Fee = addr
		return Outcome{Class: "fee:changed", Tasks: []ExpTask{{Desc: taskFee(m.p.Owners[e.O], addr)}}}

	case "meta":
		if sh := m.Shares[e.V]; sh != nil {
			idx := e.Idx
			sh.Meta = &idx
			return Outcome{Class: "meta:set"}
		}
		return Outcome{Class: "meta:unknown"}
	}
	panic("bad event kind " + e.K)
}

// pkOf returns the PK field that reproduces operator id's registered key.
func (m *Model) pkOf(id uint64) int {
	if o := m.Operators[id]; o != nil && o.Pub == string(m.p.OwnPub) {
		return -1
	}
	if o := m.Operators[id]; o != nil {
		for k := uint64(1); k <= MaxOperators+2; k++ {
			if o.Pub == string(ForeignPub(k)) {
				return int(k)
			}
		}
	}
	return int(id)
}

func (m *Model) sortedVals() []int {
	var vs []int
	for v := range m.Shares {
		vs = append(vs, v)
	}
	sort.Ints(vs)
	return vs
}

// ---- snapshots ------------------------------------------------------------------------------

type CommitteeSnap struct {
	ID  uint64 `json:"id"`
	Pub string `json:"pub"`
}

type ShareSnap struct {
	Val        string          `json:"val"`
	Owner      string          `json:"owner"`
	Committee  []CommitteeSnap `json:"committee"`
	OperatorID uint64          `json:"operator_id"`
	SharePub   string          `json:"share_pub"`
	Liquidated bool            `json:"liquidated"` // judged for our own validators only
	Quorum     uint64          `json:"quorum"`
	Partial    uint64          `json:"partial_quorum"`
	Meta       int64           `json:"meta_index"` // -1: no beacon metadata
}

type OperatorSnap struct {
	ID    uint64 `json:"id"`
	Pub   string `json:"pub"`
	Owner string `json:"owner"`
}

type RecipientSnap struct {
	Owner     string `json:"owner"`
	Found     bool   `json:"found"`
	Fee       string `json:"fee"`
	NextNonce int    `json:"next_nonce"`
}

// Snapshot is the registry state the statement talks about, in a canonical order.
type Snapshot struct {
	Shares     []ShareSnap     `json:"shares"`
	Operators  []OperatorSnap  `json:"operators"`
	Recipients []RecipientSnap `json:"recipients"`
	HasLast    bool            `json:"has_last"`
	Last       uint64          `json:"last"`
	Self       uint64          `json:"self_operator_id"` // live: operator data store; fresh: what a restart resolves by public key
}

func short(b []byte) string {
	if len(b) > 8 {
		b = b[:8]
	}
	return hex.EncodeToString(b)
}

// Snapshot renders the model state.
func (m *Model) Snapshot() Snapshot {
	s := Snapshot{HasLast: m.HasLast, Last: m.Last, Self: m.Self}
	for _, v := range m.sortedVals() {
		sh := m.Shares[v]
		n := len(sh.Ops)
		f := (n - 1) / 3
		ss := ShareSnap{Val: hex.EncodeToString(m.p.Vals[v].PubKey), Owner: m.p.Owners[sh.Owner].Hex(), OperatorID: sh.OwnID,
			SharePub: hex.EncodeToString(sh.OwnPub), Quorum: uint64(2*f + 1), Partial: uint64(f + 1), Meta: -1}
		if sh.OwnID != 0 {
			ss.Liquidated = sh.Liquidated
		}
		if sh.Meta != nil {
			ss.Meta = int64(*sh.Meta)
		}
		for i, id := range sh.Ops {
			ss.Committee = append(ss.Committee, CommitteeSnap{ID: id, Pub: hex.EncodeToString(sh.Pubs[i])})
		}
		s.Shares = append(s.Shares, ss)
	}
	sort.Slice(s.Shares, func(i, j int) bool { return s.Shares[i].Val < s.Shares[j].Val })
	var ids []uint64
	for id := range m.Operators {
		ids = append(ids, id)
	}
	sort.Slice(ids, func(i, j int) bool { return ids[i] < ids[j] })
	for _, id := range ids {
		o := m.Operators[id]
		s.Operators = append(s.Operators, OperatorSnap{ID: id, Pub: o.Pub, Owner: o.Owner.Hex()})
	}
	for o := range m.p.Owners {
		rs := RecipientSnap{Owner: m.p.Owners[o].Hex(), NextNonce: m.NextNonce(o)}
		if r := m.Recipients[o]; r != nil {
			rs.Found = true
			rs.Fee = r.Fee.Hex()
		}
		s.Recipients = append(s.Recipients, rs)
	}
	return s
}

// Diff returns ("","") when the snapshots are equal, else a short category and a description of the
// first difference.
func Diff(want, got Snapshot) (cat, msg string) {
	if want.HasLast != got.HasLast || want.Last != got.Last {
		return "last-block", fmt.Sprintf("last processed block: want (%v,%d) got (%v,%d)", want.HasLast, want.Last, got.HasLast, got.Last)
	}
	if want.Self != got.Self {
		return "self-id", fmt.Sprintf("the node's own operator id: want %d got %d", want.Self, got.Self)
	}
	wm, gm := map[string]ShareSnap{}, map[string]ShareSnap{}
	for _, s := range want.Shares {
		wm[s.Val] = s
	}
	for _, s := range got.Shares {
		if _, dup := gm[s.Val]; dup {
			return "share-twice", "share listed twice: " + s.Val[:12]
		}
		gm[s.Val] = s
	}
	for _, s := range want.Shares {
		g, ok := gm[s.Val]
		if !ok {
			return "share-missing", "share missing: validator " + s.Val[:12] + " owner " + s.Owner[:10]
		}
		if a, b := fmt.Sprintf("%+v", s), fmt.Sprintf("%+v", g); a != b {
			c := "share-differs"
			if s.Liquidated != g.Liquidated {
				c = "share-liquidated-flag"
			}
			return c, "share differs for validator " + s.Val[:12] + ":\n  want " + a + "\n  got  " + b
		}
	}
	for _, s := range got.Shares {
		if _, ok := wm[s.Val]; !ok {
			return "share-unexpected", "unexpected share: validator " + s.Val[:12] + " owner " + s.Owner[:10] + fmt.Sprintf(" committee %v", s.Committee)
		}
	}
	if a, b := fmt.Sprintf("%+v", want.Operators), fmt.Sprintf("%+v", got.Operators); a != b {
		return "operators", "operators differ:\n  want " + a + "\n  got  " + b
	}
	for i := range want.Recipients {
		if i >= len(got.Recipients) || want.Recipients[i] != got.Recipients[i] {
			g := RecipientSnap{}
			if i < len(got.Recipients) {
				g = got.Recipients[i]
			}
			c := "recipient"
			if want.Recipients[i].NextNonce != g.NextNonce {
				c = "nonce"
			}
			return c, fmt.Sprintf("recipient/nonce differs:\n  want %+v\n  got  %+v", want.Recipients[i], g)
		}
	}
	return "", ""
}
