package regsim

import (
	"encoding/hex"
	"errors"
	"fmt"
	"math/big"
	"os"
	"sort"
	"sync"

	eth2apiv1 "github.com/attestantio/go-eth2-client/api/v1"
	"github.com/attestantio/go-eth2-client/spec/phase0"
	ekmcore "github.com/bloxapp/eth2-key-manager/core"
	spectypes "github.com/bloxapp/ssv-spec/types"
	ethcommon "github.com/ethereum/go-ethereum/common"
	ethtypes "github.com/ethereum/go-ethereum/core/types"
	"github.com/herumi/bls-eth-go-binary/bls"
	"go.uber.org/zap"

	"github.com/bloxapp/ssv/ekm"
	"github.com/bloxapp/ssv/eth/contract"
	"github.com/bloxapp/ssv/eth/eventhandler"
	"github.com/bloxapp/ssv/eth/eventparser"
	"github.com/bloxapp/ssv/eth/executionclient"
	ibftstorage "github.com/bloxapp/ssv/ibft/storage"
	"github.com/bloxapp/ssv/networkconfig"
	operatordatastore "github.com/bloxapp/ssv/operator/datastore"
	operatorstorage "github.com/bloxapp/ssv/operator/storage"
	"github.com/bloxapp/ssv/protocol/v2/blockchain/beacon"
	ssvtypes "github.com/bloxapp/ssv/protocol/v2/types"
	registrystorage "github.com/bloxapp/ssv/registry/storage"
	"github.com/bloxapp/ssv/storage/basedb"
	"github.com/bloxapp/ssv/storage/kv"

	"verif/harness/internal/faultdb"
)

// fixedNet is the beacon network with a frozen clock (the slashing-protection bump reads the
// estimated current slot; only the presence of its records is ever judged).
type fixedNet struct{ beacon.Network }

func (fixedNet) EstimatedCurrentSlot() phase0.Slot   { return 320000 }
func (fixedNet) EstimatedCurrentEpoch() phase0.Epoch { return 10000 }

// Network is the network configuration every environment uses.
func Network() networkconfig.NetworkConfig {
	n := networkconfig.TestNetwork
	n.Beacon = fixedNet{beacon.NewNetwork(spectypes.PraterNetwork)}
	return n
}

// Store is a logical store on a real Badger database that survives "process deaths". In-memory
// stores are namespaces of one process-wide in-memory Badger (opening one costs ~200 ms for its 64 MB
// arena); an on-disk store is its own Badger under /var/tmp, closed and re-opened at every restart.
type Store struct {
	Raw  *kv.BadgerDB
	ns   []byte
	dir  string
	disk bool
}

var (
	sharedMu  sync.Mutex
	sharedDB  *kv.BadgerDB
	sharedSeq int
)

func OpenStore(disk bool) (*Store, error) {
	s := &Store{disk: disk}
	if !disk {
		sharedMu.Lock()
		defer sharedMu.Unlock()
		if sharedDB == nil {
			db, err := kv.NewInMemory(zap.NewNop(), basedb.Options{})
			if err != nil {
				return nil, err
			}
			sharedDB = db
		}
		sharedSeq++
		s.Raw = sharedDB
		s.ns = []byte(fmt.Sprintf("store-%08d/", sharedSeq))
		return s, nil
	}
	d, err := os.MkdirTemp("/var/tmp", "verif-regsim-")
	if err != nil {
		return nil, err
	}
	s.dir = d
	if s.Raw, err = kv.New(zap.NewNop(), basedb.Options{Path: s.dir}); err != nil {
		s.Destroy()
		return nil, err
	}
	return s, nil
}

// View is the database as a process sees it (fault points go to in; nil = no faults).
func (s *Store) View(in *faultdb.Injector) *faultdb.DB { return faultdb.WrapNS(s.Raw, in, s.ns) }

// Reopen closes and re-opens an on-disk store (what survives a real process death); a no-op for an
// in-memory store, whose handle is the surviving database.
func (s *Store) Reopen() error {
	if !s.disk {
		return nil
	}
	if err := s.Raw.Close(); err != nil {
		return err
	}
	var err error
	s.Raw, err = kv.New(zap.NewNop(), basedb.Options{Path: s.dir})
	return err
}

// Destroy releases the store (deletes the namespace's keys / the directory).
func (s *Store) Destroy() {
	if s.Raw == nil {
		return
	}
	if s.disk {
		_ = s.Raw.Close()
		_ = os.RemoveAll(s.dir)
	} else {
		_, _ = s.Raw.DeletePrefix(s.ns)
	}
	s.Raw = nil
}

// Recorder is the task executor: it writes down what the handler asks the validator controller to do.
type Recorder struct{ Tasks []string }

func (r *Recorder) add(s string) error { r.Tasks = append(r.Tasks, s); return nil }

func tagOf(pk []byte) string {
	if len(pk) > 6 {
		pk = pk[:6]
	}
	return hex.EncodeToString(pk)
}

func (r *Recorder) StartValidator(share *ssvtypes.SSVShare) error {
	return r.add("start:" + tagOf(share.ValidatorPubKey))
}
func (r *Recorder) StopValidator(pubKey spectypes.ValidatorPK) error {
	return r.add("stop:" + tagOf(pubKey))
}
func clusterVals(shares []*ssvtypes.SSVShare) []string {
	var v []string
	for _, s := range shares {
		v = append(v, tagOf(s.ValidatorPubKey))
	}
	return v
}
func (r *Recorder) LiquidateCluster(owner ethcommon.Address, _ []uint64, sh []*ssvtypes.SSVShare) error {
	return r.add(taskCluster("liquidate", owner, clusterVals(sh)))
}
func (r *Recorder) ReactivateCluster(owner ethcommon.Address, _ []uint64, sh []*ssvtypes.SSVShare) error {
	return r.add(taskCluster("reactivate", owner, clusterVals(sh)))
}
func (r *Recorder) UpdateFeeRecipient(owner, recipient ethcommon.Address) error {
	return r.add(taskFee(owner, recipient))
}
func (r *Recorder) ExitValidator(pubKey phase0.BLSPubKey, blockNumber uint64, validatorIndex phase0.ValidatorIndex) error {
	return r.add(fmt.Sprintf("exit:%s:block=%d:index=%d", tagOf(pubKey[:]), blockNumber, uint64(validatorIndex)))
}

// KM wraps the real key manager: AddShare, RemoveShare and BumpSlashingProtection are fault points of
// the shared injector; everything else is delegated.
type KM struct {
	spectypes.KeyManager
	sp ekm.StorageProvider
	in *faultdb.Injector
}

func (k *KM) AddShare(sk *bls.SecretKey) error {
	return k.in.Do("km.AddShare", func() error { return k.KeyManager.AddShare(sk) })
}
func (k *KM) RemoveShare(pk string) error {
	return k.in.Do("km.RemoveShare", func() error { return k.KeyManager.RemoveShare(pk) })
}
func (k *KM) BumpSlashingProtection(pk []byte) error {
	return k.in.Do("km.BumpSlashingProtection", func() error { return k.sp.BumpSlashingProtection(pk) })
}
func (k *KM) ListAccounts() ([]ekmcore.ValidatorAccount, error) { return k.sp.ListAccounts() }
func (k *KM) RetrieveHighestAttestation(pk []byte) (*phase0.AttestationData, bool, error) {
	return k.sp.RetrieveHighestAttestation(pk)
}
func (k *KM) RetrieveHighestProposal(pk []byte) (phase0.Slot, bool, error) {
	return k.sp.RetrieveHighestProposal(pk)
}

var _ ekm.StorageProvider = (*KM)(nil)

// Env is one "process": everything cli/operator/node.go builds around the database before it hands
// blocks to the event handler.
type Env struct {
	Store *Store
	In    *faultdb.Injector
	DB    *faultdb.DB
	NS    operatorstorage.Storage
	ODS   operatordatastore.OperatorDataStore
	KM    *KM
	EH    *eventhandler.EventHandler
	Rec   *Recorder
}

// Boot is a process start on the given store (setupOperatorStorage + key manager + setupEventHandling).
// The injector is left untouched: callers enable it around block processing only.
func Boot(st *Store, in *faultdb.Injector) (*Env, error) {
	p := ThePool()
	if in == nil {
		in = faultdb.NewInjector()
	}
	logger := zap.NewNop()
	e := &Env{Store: st, In: in, DB: st.View(in), Rec: &Recorder{}}
	ns, err := operatorstorage.NewNodeStorage(logger, e.DB)
	if err != nil {
		return nil, fmt.Errorf("node storage: %w", err)
	}
	e.NS = ns
	// setupOperatorStorage: private key hash, operator data by public key
	h, err := p.OwnKey.StorageHash()
	if err != nil {
		return nil, err
	}
	if stored, found, err := ns.GetPrivateKeyHash(); err != nil {
		return nil, err
	} else if !found {
		if err := ns.SavePrivateKeyHash(h); err != nil {
			return nil, err
		}
	} else if stored != h {
		return nil, errors.New("operator private key is not matching the one encrypted the storage")
	}
	od, found, err := ns.GetOperatorDataByPubKey(nil, p.OwnPub)
	if err != nil {
		return nil, fmt.Errorf("operator data by public key: %w", err)
	}
	if !found {
		od = &registrystorage.OperatorData{PublicKey: p.OwnPub}
	}
	e.ODS = operatordatastore.New(od)
	net := Network()
	km, err := ekm.NewETHKeyManagerSigner(logger, e.DB, net, true, "")
	if err != nil {
		return nil, fmt.Errorf("key manager: %w", err)
	}
	e.KM = &KM{KeyManager: km, sp: km.(ekm.StorageProvider), in: in}
	filterer, err := contract.NewContractFilterer(ethcommon.Address{}, nil)
	if err != nil {
		return nil, err
	}
	stores := ibftstorage.NewStoresFromRoles(e.DB, spectypes.BNRoleAttester)
	e.EH, err = eventhandler.New(ns, eventparser.New(filterer), e.Rec, net, e.ODS, p.OwnKey, e.KM, nil, stores,
		eventhandler.WithFullNode())
	if err != nil {
		return nil, err
	}
	return e, nil
}

// Deliver hands one block to the real handler through HandleBlockEventsStream (tasks executed, as in
// SyncOngoing). died != nil when the injector killed the "process" inside the call.
func (e *Env) Deliver(b executionclient.BlockLogs) (tasks []string, err error, died *faultdb.Died) {
	ch := make(chan executionclient.BlockLogs, 1)
	ch <- b
	close(ch)
	e.Rec.Tasks = nil
	defer func() {
		e.In.Disable()
		if r := recover(); r != nil {
			d, ok := r.(faultdb.Died)
			if !ok {
				panic(r)
			}
			died = &d
		}
	}()
	e.In.Enable()
	_, err = e.EH.HandleBlockEventsStream(ch, true)
	return e.Rec.Tasks, err, nil
}

// ResumeFrom is setupEventHandling's computation of the first block to fetch.
func (e *Env) ResumeFrom() (uint64, error) {
	last, found, err := e.NS.GetLastProcessedBlock(nil)
	if err != nil {
		return 0, err
	}
	if !found {
		return 0, nil // RegistrySyncOffset: the harness numbers blocks from 1
	}
	if last == nil {
		return 0, errors.New("last processed block is nil")
	}
	return last.Uint64() + 1, nil
}

// SetMeta is the beacon-metadata updater storing a validator's index.
func (e *Env) SetMeta(v int, idx uint64) error {
	pk := hex.EncodeToString(ThePool().Vals[v].PubKey)
	return e.NS.Shares().UpdateValidatorMetadata(pk, &beacon.ValidatorMetadata{Index: phase0.ValidatorIndex(idx), Status: eth2apiv1.ValidatorStateActiveOngoing})
}

// SnapshotOf reads the registry state through the node-storage getters.
func SnapshotOf(ns operatorstorage.Storage, self uint64) (Snapshot, error) {
	p := ThePool()
	var s Snapshot
	last, found, err := ns.GetLastProcessedBlock(nil)
	if err != nil {
		return s, err
	}
	if found && last != nil {
		s.HasLast, s.Last = true, last.Uint64()
	}
	for _, sh := range ns.Shares().List(nil) {
		ss := ShareSnap{Val: hex.EncodeToString(sh.ValidatorPubKey), Owner: sh.OwnerAddress.Hex(), OperatorID: sh.OperatorID,
			SharePub: hex.EncodeToString(sh.SharePubKey), Quorum: sh.Quorum, Partial: sh.PartialQuorum, Meta: -1}
		if sh.OperatorID != 0 { // liquidation flags are specified for our own validators only
			ss.Liquidated = sh.Liquidated
		}
		if sh.BeaconMetadata != nil {
			ss.Meta = int64(sh.BeaconMetadata.Index)
		}
		for _, c := range sh.Committee {
			ss.Committee = append(ss.Committee, CommitteeSnap{ID: c.OperatorID, Pub: hex.EncodeToString(c.PubKey)})
		}
		// the getter by key must agree with the listing
		if g := ns.Shares().Get(nil, sh.ValidatorPubKey); g != sh {
			return s, fmt.Errorf("Shares().Get disagrees with List for %s", ss.Val[:12])
		}
		s.Shares = append(s.Shares, ss)
	}
	sort.Slice(s.Shares, func(i, j int) bool { return s.Shares[i].Val < s.Shares[j].Val })
	ops, err := ns.ListOperators(nil, 0, 0)
	if err != nil {
		return s, err
	}
	for _, o := range ops {
		g, found, err := ns.GetOperatorData(nil, o.ID)
		if err != nil || !found || string(g.PublicKey) != string(o.PublicKey) {
			return s, fmt.Errorf("GetOperatorData(%d) disagrees with ListOperators (found=%v err=%v)", o.ID, found, err)
		}
		s.Operators = append(s.Operators, OperatorSnap{ID: o.ID, Pub: string(o.PublicKey), Owner: o.OwnerAddress.Hex()})
	}
	sort.Slice(s.Operators, func(i, j int) bool { return s.Operators[i].ID < s.Operators[j].ID })
	for _, owner := range p.Owners {
		rs := RecipientSnap{Owner: owner.Hex()}
		rd, found, err := ns.GetRecipientData(nil, owner)
		if err != nil {
			return s, err
		}
		if found && rd != nil {
			rs.Found = true
			rs.Fee = ethcommon.BytesToAddress(rd.FeeRecipient[:]).Hex()
		}
		n, err := ns.GetNextNonce(nil, owner)
		if err != nil {
			return s, err
		}
		rs.NextNonce = int(n)
		s.Recipients = append(s.Recipients, rs)
	}
	s.Self = self
	return s, nil
}

// Snapshot reads this process's view (in-memory share map + database).
func (e *Env) Snapshot() (Snapshot, error) { return SnapshotOf(e.NS, e.ODS.GetOperatorID()) }

// FreshSnapshot re-creates node storage (and with it the shares storage) on the same database, the
// way a restart does, and reads the state from there.
func FreshSnapshot(st *Store) (Snapshot, error) {
	ns, err := operatorstorage.NewNodeStorage(zap.NewNop(), st.View(nil))
	if err != nil {
		return Snapshot{}, err
	}
	// setupOperatorStorage: the node finds its own operator id by looking its public key up
	var self uint64
	od, found, err := ns.GetOperatorDataByPubKey(nil, ThePool().OwnPub)
	if err != nil {
		return Snapshot{}, err
	}
	if found && od != nil {
		self = od.ID
	}
	return SnapshotOf(ns, self)
}

// KMSnapshot is what the key manager holds: account public keys (sorted, with multiplicity) and, for
// every share key of the pool, whether slashing-protection records exist.
type KMSnapshot struct {
	Accounts []string `json:"accounts"`
	SP       []string `json:"slashing_protection"` // "<sharepub>:att" / "<sharepub>:prop" for records present
}

func KMSnapshotOf(st *Store) (KMSnapshot, error) {
	var s KMSnapshot
	km, err := ekm.NewETHKeyManagerSigner(zap.NewNop(), st.View(nil), Network(), true, "")
	if err != nil {
		return s, err
	}
	sp := km.(ekm.StorageProvider)
	accs, err := sp.ListAccounts()
	if err != nil {
		return s, err
	}
	for _, a := range accs {
		s.Accounts = append(s.Accounts, short(a.ValidatorPublicKey()))
	}
	sort.Strings(s.Accounts)
	for _, vk := range ThePool().Vals {
		for _, pub := range vk.SharePubs {
			if a, found, err := sp.RetrieveHighestAttestation(pub); err != nil {
				return s, err
			} else if found && a != nil {
				s.SP = append(s.SP, short(pub)+":att")
			}
			if _, found, err := sp.RetrieveHighestProposal(pub); err != nil {
				return s, err
			} else if found {
				s.SP = append(s.SP, short(pub)+":prop")
			}
		}
	}
	sort.Strings(s.SP)
	return s, nil
}

// ---- building blocks of logs ----------------------------------------------------------------

// BuildLog turns one contract event of the program into the log the contract would emit.
func BuildLog(sc Scenario, e Ev) ethtypes.Log {
	p := ThePool()
	owner := p.Owners[e.O]
	switch e.K {
	case "opadd":
		return p.LogOperatorAdded(e.Op, owner, OpKey(sc.Us, e))
	case "oprem":
		return p.LogOperatorRemoved(e.Op)
	case "vadd":
		vk := p.Vals[e.V]
		var pubs, encs [][]byte
		self := sc.SelfID()
		// the i-th public share and the i-th encrypted key belong to the i-th operator id AS LISTED
		for i, id := range e.Ops {
			j := i % MaxShares
			pubs = append(pubs, vk.SharePubs[j])
			if self != 0 && id == self {
				encs = append(encs, p.OwnCipher(e.V, j, e.Own))
			} else {
				encs = append(encs, filler(0x11, e.V, j))
			}
		}
		sig := p.SignAdd(e.SigK, p.Owners[e.SigO], e.SigN)
		if e.SigBad {
			sig[10] ^= 0xFF
			sig[50] ^= 0x55
		}
		data := SharesData(sig, pubs, encs)
		if e.Len > 0 {
			data = append(data, make([]byte, e.Len)...)
		} else if e.Len < 0 {
			cut := -e.Len
			if cut > len(data) {
				cut = len(data)
			}
			data = data[:len(data)-cut]
		}
		return p.LogValidatorAdded(owner, e.Ops, vk.PubKey, data)
	case "vrem":
		return p.LogValidatorRemoved(owner, e.Ops, p.Vals[e.V].PubKey)
	case "vexit":
		return p.LogValidatorExited(owner, e.Ops, p.Vals[e.V].PubKey)
	case "liq":
		return p.LogClusterLiquidated(owner, e.Ops)
	case "react":
		return p.LogClusterReactivated(owner, e.Ops)
	case "fee":
		return p.LogFeeRecipientUpdated(owner, p.FeeAddr(e.O, e.Fee))
	}
	panic("not a contract event: " + e.K)
}

// Block is a block of the program: the indices of its events.
type Block struct {
	Number uint64
	Events []int // indices into Scenario.Events (contract events only)
	Metas  []int // meta steps executed after this block is processed (before the next one)
}

// Cut splits the event sequence into blocks. cuts[i%len(cuts)] says whether a block ends after event
// i; gaps[j%len(gaps)] (>=1) is the distance of block j from its predecessor. A meta step always ends
// the current block. Cut never yields empty blocks; WithMarkers adds the client's empty progress markers.
func Cut(sc Scenario, cuts []bool, gaps []int) (pre []int, blocks []Block) {
	var cur *Block
	num := uint64(0)
	flush := func() {
		if cur != nil {
			blocks = append(blocks, *cur)
			cur = nil
		}
	}
	for i, e := range sc.Events {
		if e.K == "meta" {
			flush()
			if len(blocks) == 0 {
				pre = append(pre, i)
			} else {
				blocks[len(blocks)-1].Metas = append(blocks[len(blocks)-1].Metas, i)
			}
			continue
		}
		if cur == nil {
			g := 1
			if len(gaps) > 0 {
				g = gaps[len(blocks)%len(gaps)]
			}
			if g < 1 {
				g = 1
			}
			num += uint64(g)
			cur = &Block{Number: num}
		}
		cur.Events = append(cur.Events, i)
		if len(cuts) == 0 || cuts[i%len(cuts)] {
			flush()
		}
	}
	flush()
	return pre, blocks
}

// WithMarkers inserts the empty BlockLogs the execution client emits as progress markers when a fetched
// range holds no registry logs (eth/executionclient: "Emit empty block logs to indicate that we have
// advanced to this block"): after block j when markers[j%len(markers)] is set and the next block's
// number leaves room, and before the first block when markers[0] is set and its number is > 1.
func WithMarkers(blocks []Block, markers []bool) []Block {
	if len(markers) == 0 || len(blocks) == 0 {
		return blocks
	}
	var out []Block
	if markers[0] && blocks[0].Number > 1 {
		out = append(out, Block{Number: blocks[0].Number - 1})
	}
	for j, b := range blocks {
		out = append(out, b)
		if !markers[j%len(markers)] {
			continue
		}
		n := b.Number + 1
		if j+1 < len(blocks) && blocks[j+1].Number <= n {
			continue
		}
		out = append(out, Block{Number: n})
	}
	return out
}

// Logs builds the BlockLogs of a block.
func Logs(sc Scenario, b Block) executionclient.BlockLogs {
	out := executionclient.BlockLogs{BlockNumber: b.Number}
	for k, i := range b.Events {
		l := BuildLog(sc, sc.Events[i])
		l.BlockNumber = b.Number
		l.Index = uint(k)
		l.TxIndex = uint(k)
		l.TxHash = ethcommon.BigToHash(new(big.Int).SetUint64(b.Number*1000 + uint64(k)))
		out.Logs = append(out.Logs, l)
	}
	return out
}
