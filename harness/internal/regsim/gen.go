package regsim

import (
	"sort"

	"pgregory.net/rapid"
)

// Bias steers the generator.
type Bias struct {
	MaxEvents int
	OwnHeavy  bool // C12: we are always registered, most validators are ours, few malformed events
}

// abs is a state-independent draw; Resolve turns a list of them into concrete events by walking the
// reference model (construction instead of rejection; rapid shrinks the abstract list).
type abs struct {
	Kind       string
	A, B, C, D int
	Mut        string
}

var muts = []string{"sig-bytes", "sig-replay", "sig-future", "sig-owner", "sig-key", "ops-dup", "ops-unknown", "ops-toomany",
	"ops-size", "ops-empty", "len-short", "len-long", "own-garbage", "own-nothex", "own-mismatch", "dup-other-owner"}

var kindsC11 = []string{"opadd", "opadd", "opdup", "opdup", "oprem", "vaddok", "vaddok", "vaddok", "vaddok", "vaddok", "vaddmut", "vaddmut", "vaddmut", "vaddmut", "vaddmut",
	"vrem", "vrem", "vrem", "vexit", "vexit", "vexit", "liq", "liq", "react", "react", "fee", "fee", "meta", "meta"}

var kindsOwn = []string{"opadd", "opdup", "oprem", "vaddok", "vaddok", "vaddok", "vaddok", "vaddok", "vaddok", "vaddmut", "vaddmut",
	"vrem", "vrem", "vrem", "vrem", "vexit", "liq", "liq", "liq", "react", "react", "react", "fee"}

func genAbs(kinds []string) func(t *rapid.T) abs {
	return func(t *rapid.T) abs {
		a := abs{Kind: rapid.SampledFrom(kinds).Draw(t, "kind"),
			A: rapid.IntRange(0, 999).Draw(t, "a"), B: rapid.IntRange(0, 999).Draw(t, "b"),
			C: rapid.IntRange(0, 999).Draw(t, "c"), D: rapid.IntRange(0, 99).Draw(t, "d")}
		if a.Kind == "vaddmut" {
			a.Mut = rapid.SampledFrom(muts).Draw(t, "mut")
		}
		return a
	}
}

// GenScenario draws an event program.
func GenScenario(t *rapid.T, b Bias) Scenario {
	if b.MaxEvents == 0 {
		b.MaxEvents = 30
	}
	nops := rapid.IntRange(5, MaxOperators).Draw(t, "nops")
	us := rapid.IntRange(1, nops).Draw(t, "us")
	kinds := kindsC11
	pre := rapid.IntRange(0, nops).Draw(t, "pre")
	if b.OwnHeavy {
		kinds = kindsOwn
		pre = nops
	} else {
		if rapid.IntRange(0, 6).Draw(t, "unregistered") == 0 {
			us = 0
		}
		if rapid.IntRange(0, 9).Draw(t, "allpre") < 7 {
			pre = nops
		}
	}
	nowners := rapid.IntRange(2, MaxOwners).Draw(t, "nowners")
	nvals := rapid.IntRange(1, MaxValidators).Draw(t, "nvals")
	// our key first announced under another (smaller) id than Us: that id becomes ours, the later one is refused
	early := 0
	if us >= 2 && rapid.IntRange(0, 11).Draw(t, "early_own_key") == 0 {
		early = rapid.IntRange(1, us-1).Draw(t, "early_id")
	}
	as := rapid.SliceOfN(rapid.Custom(genAbs(kinds)), 1, b.MaxEvents).Draw(t, "events")
	if more := rapid.SliceOfN(rapid.Custom(genAbs(kinds)), 0, b.MaxEvents/2).Draw(t, "more_events"); len(as)+len(more) <= b.MaxEvents {
		as = append(as, more...)
	}
	return Resolve(nops, us, nowners, nvals, pre, early, b.OwnHeavy, as)
}

// Resolve builds the concrete program.
func Resolve(nops, us, nowners, nvals, pre, early int, ownHeavy bool, as []abs) Scenario {
	sc := Scenario{NOps: nops, Us: us}
	m := NewModel()
	emit := func(e Ev) {
		sc.Events = append(sc.Events, e)
		m.Apply(us, e, 0)
	}
	// the contract hands out every operator id once: ids of refused registrations are used up too
	used := map[uint64]bool{}
	nextOp := func(max int) uint64 {
		for id := uint64(1); id <= uint64(max); id++ {
			if !used[id] {
				return id
			}
		}
		return 0
	}
	opadd := func(id uint64, o int) {
		e := Ev{K: "opadd", Op: id, O: o}
		if early != 0 && id == uint64(early) {
			e.PK = -1
			e.Note = "our key under another id, before our registration"
		}
		used[id] = true
		emit(e)
	}
	// an id that was announced but refused (our key under a second id): unknown to committee validation
	refusedID := func() uint64 {
		for id := uint64(1); id <= uint64(nops+1); id++ {
			if used[id] && m.Operators[id] == nil {
				return id
			}
		}
		return 0
	}
	for i := 0; i < pre; i++ {
		opadd(nextOp(nops), i%nowners)
	}
	registered := func() []uint64 {
		var ids []uint64
		for id := range m.Operators {
			ids = append(ids, id)
		}
		sort.Slice(ids, func(i, j int) bool { return ids[i] < ids[j] })
		return ids
	}
	existing := func() []int { return m.sortedVals() }
	pUs := 50
	if ownHeavy {
		pUs = 90
	}
	// committee of the given size out of the registered operators (ids 1..size when there are too few)
	committee := func(size int, withUs bool, off int) []uint64 {
		reg := registered()
		var cand []uint64
		self := m.Self // the id our key is registered under (normally us)
		usReg := self != 0
		for _, id := range reg {
			if usReg && id == self {
				continue
			}
			cand = append(cand, id)
		}
		need := size
		var out []uint64
		if withUs && usReg {
			out = append(out, self)
			need--
		} else if len(cand) < need && usReg {
			cand = reg // not enough without us
		}
		if len(cand) < need {
			out = out[:0]
			for id := uint64(1); id <= uint64(size); id++ {
				out = append(out, id)
			}
			return out
		}
		for k := 0; k < need; k++ {
			out = append(out, cand[(off+k)%len(cand)])
		}
		return sortedCopy(out)
	}
	baseAdd := func(a abs, forceUs bool) Ev {
		v := a.A % nvals
		for k := 0; k < nvals; k++ {
			if m.Shares[(v+k)%nvals] == nil {
				v = (v + k) % nvals
				break
			}
		}
		o := a.B % nowners
		if ex := m.Shares[v]; ex != nil && a.B%2 == 0 {
			o = ex.Owner
		}
		size := 4
		if len(registered()) >= 7 && a.C%3 == 0 {
			size = 7
		}
		ops := reorder(committee(size, forceUs || a.D < pUs, a.C/3), a.A/7, a.B)
		return Ev{K: "vadd", O: o, V: v, Ops: ops, SigO: o, SigN: m.NextNonce(o), SigK: v}
	}
	for _, a := range as {
		if ownHeavy && (a.Kind == "vrem" || a.Kind == "liq" || a.Kind == "react") {
			haveOwn := false
			for _, sh := range m.Shares {
				haveOwn = haveOwn || sh.OwnID != 0
			}
			if !haveOwn {
				a.Kind = "vaddok" // nothing of ours to remove / liquidate yet: register something first
			}
		}
		switch a.Kind {
		case "opadd":
			if id := nextOp(nops); id != 0 {
				opadd(id, a.A%nowners)
			} else {
				emit(Ev{K: "fee", O: a.A % nowners, Fee: a.B % (NumFeeAddrs + 1)})
			}
		case "opdup":
			// a fresh id announcing a key that is already registered: ours (refused once we have an id;
			// if we have none yet, this IS our registration) or another operator's (nothing forbids it)
			id := nextOp(nops + 1)
			if id == 0 {
				emit(Ev{K: "fee", O: a.A % nowners, Fee: a.B % (NumFeeAddrs + 1)})
				break
			}
			e := Ev{K: "opadd", Op: id, O: a.A % nowners, PK: -1, Note: "our key under a second id"}
			if reg := registered(); a.D < 30 && len(reg) > 0 {
				if pk := m.pkOf(reg[a.B%len(reg)]); pk != -1 {
					e.PK, e.Note = pk, "another operator's key under a new id"
				}
			}
			if e.PK == -1 && m.Self == 0 {
				e.Note = "our key under an unexpected id (first registration)"
			}
			used[id] = true
			emit(e)
		case "oprem":
			emit(Ev{K: "oprem", Op: uint64(1 + a.A%(nops+1))})
		case "vaddok":
			e := baseAdd(a, false)
			e.Note = "valid"
			if rid := refusedID(); rid != 0 && a.D%8 == 0 && len(e.Ops) > 1 {
				// otherwise valid, but one member is an operator whose registration the node refused
				k := a.B % len(e.Ops)
				if e.Ops[k] == m.Self {
					k = (k + 1) % len(e.Ops)
				}
				e.Ops[k] = rid
				e.Note = "ops-unknown (refused id)"
			}
			emit(e)
		case "vaddmut":
			e := baseAdd(a, len(a.Mut) > 4 && a.Mut[:4] == "own-")
			e.Note = a.Mut
			n := e.SigN
			switch a.Mut {
			case "sig-bytes":
				e.SigBad = true
			case "sig-replay":
				if n > 0 {
					e.SigN = n - 1
				} else {
					e.SigN = n + 1
				}
			case "sig-future":
				e.SigN = n + 1 + a.A%2
			case "sig-owner":
				e.SigO = (e.O + 1 + a.A%(nowners-1)) % nowners
			case "sig-key":
				e.SigK = (e.V + 1 + a.A%(MaxValidators-1)) % MaxValidators
			case "ops-dup":
				if len(e.Ops) >= 2 {
					k := a.A % (len(e.Ops) - 1)
					e.Ops[k+1] = e.Ops[k]
				}
			case "ops-unknown":
				if len(e.Ops) > 0 {
					k := a.B % len(e.Ops)
					if self := m.Self; self != 0 && e.Ops[k] == self && len(e.Ops) > 1 {
						k = (k + 1) % len(e.Ops) // keep ourselves in: the refusal must come from the unknown id
					}
					switch id, rid := nextOp(nops), refusedID(); {
					case rid != 0 && a.A%3 != 0:
						e.Ops[k] = rid // announced, but refused: must still be unknown
						e.Note = "ops-unknown (refused id)"
					case id != 0 && a.A%2 == 0:
						e.Ops[k] = id // not announced yet
					default:
						e.Ops[k] = uint64(nops + 2 + a.A%3) // never announced
					}
				}
			case "ops-toomany":
				e.Ops = nil
				for id := uint64(1); id <= 14; id++ {
					e.Ops = append(e.Ops, id)
				}
			case "ops-size":
				size := []int{1, 2, 3, 5, 6, 8}[a.A%6]
				e.Ops = committee(size, a.D < pUs, a.C/3)
			case "ops-empty":
				e.Ops = nil
			case "len-short":
				e.Len = -[]int{1, PubLen, EncKeyLen, 1 + a.A%300}[a.B%4]
			case "len-long":
				e.Len = []int{1, PubLen, EncKeyLen, 1 + a.A%300}[a.B%4]
			case "own-garbage", "own-nothex", "own-mismatch":
				e.Own = a.Mut[4:]
			case "dup-other-owner":
				if ex := existing(); len(ex) > 0 {
					e.V = ex[a.A%len(ex)]
					e.O = (m.Shares[e.V].Owner + 1 + a.B%(nowners-1)) % nowners
					e.SigO, e.SigK, e.SigN = e.O, e.V, m.NextNonce(e.O)
				}
			}
			emit(e)
		case "vrem", "vexit":
			e := Ev{K: a.Kind, V: a.A % nvals, O: a.B % nowners, Ops: []uint64{1, 2, 3, 4}}
			if ex := existing(); len(ex) > 0 && a.D >= 15 {
				e.V = ex[a.A%len(ex)]
				if a.Kind == "vexit" && a.D >= 40 { // prefer validators whose exit is observable
					for _, v := range ex {
						if sh := m.Shares[v]; sh.Meta != nil && sh.OwnID != 0 {
							e.V = v
						}
					}
				}
			}
			if sh := m.Shares[e.V]; sh != nil {
				if a.Kind == "vexit" && !ownHeavy && sh.OwnID != 0 && sh.Meta == nil && a.D%5 < 3 {
					emit(Ev{K: "meta", V: e.V, Idx: uint64(1000 + a.B%50)}) // make the exit observable
				}
				e.Ops = append([]uint64(nil), sh.Ops...)
				e.O = sh.Owner
				if a.C%4 == 0 {
					e.O = (sh.Owner + 1 + a.B%(nowners-1)) % nowners
					e.Note = "non-owner"
				}
			}
			emit(e)
		case "liq", "react":
			e := Ev{K: a.Kind, O: a.B % nowners, Ops: []uint64{1, 2, 3, 4}}
			var pick []int
			for _, v := range existing() {
				sh := m.Shares[v]
				if sh.OwnID != 0 && (a.Kind == "liq") != sh.Liquidated {
					pick = append(pick, v)
				}
			}
			if len(pick) == 0 || a.D < 10 {
				pick = existing()
			}
			if len(pick) > 0 {
				sh := m.Shares[pick[a.A%len(pick)]]
				e.O, e.Ops = sh.Owner, append([]uint64(nil), sh.Ops...)
				switch {
				case a.C%10 == 0:
					e.O = (sh.Owner + 1 + a.B%(nowners-1)) % nowners
					e.Note = "other owner's cluster"
				case a.C%10 == 1 && len(e.Ops) > 1:
					e.Ops = e.Ops[:len(e.Ops)-1]
					e.Note = "other cluster"
				case a.C%10 <= 4:
					e.Ops = reorder(e.Ops, 2+a.C%3, a.A) // same cluster, ids listed in another order
				}
			}
			emit(e)
		case "fee":
			emit(Ev{K: "fee", O: a.A % nowners, Fee: a.B % (NumFeeAddrs + 1)})
		case "meta":
			e := Ev{K: "meta", V: a.A % nvals, Idx: uint64(1000 + a.B%50)}
			var own []int
			for _, v := range existing() {
				if m.Shares[v].OwnID != 0 {
					own = append(own, v)
				}
			}
			if len(own) > 0 && a.D >= 20 {
				e.V = own[a.A%len(own)]
			}
			emit(e)
		}
	}
	return sc
}

// reorder lists a committee in one of several orders: ascending (the order the contract's front ends
// use), descending, rotated, or shuffled. Nothing in the registration rules depends on the order, but
// the i-th public share and encrypted key belong to the i-th id as listed.
func reorder(ops []uint64, mode, seed int) []uint64 {
	out := append([]uint64(nil), ops...)
	n := len(out)
	if n < 2 {
		return out
	}
	switch mode % 5 {
	case 0, 1: // as is
	case 2:
		for i, j := 0, n-1; i < j; i, j = i+1, j-1 {
			out[i], out[j] = out[j], out[i]
		}
	case 3:
		r := 1 + seed%(n-1)
		out = append(out[r:], out[:r]...)
	case 4:
		x := uint32(seed*2654435761 + 12345)
		for i := n - 1; i > 0; i-- {
			x = x*1664525 + 1013904223
			j := int(x>>8) % (i + 1)
			out[i], out[j] = out[j], out[i]
		}
	}
	return out
}
