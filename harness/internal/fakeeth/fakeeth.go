// Package fakeeth is a scripted fake execution-layer node: a go-ethereum/rpc server on a loopback
// websocket that serves eth_blockNumber, eth_getLogs (by block range and address), eth_syncing,
// eth_chainId, eth_getBlockByNumber and eth_subscribe("newHeads") over a fixed scripted chain, and
// lets the harness inject faults at chosen moments: kill every connection, end the head
// subscription with an error (a notification the client cannot decode), fail or kill the n-th
// upcoming eth_getLogs, fail the next eth_subscribe.
//
// All observable state lives in State, protected by one mutex that the harness shares
// (Locked / WaitUntil), so that the harness can synchronise on server-side facts instead of sleeping.
package fakeeth

import (
	"context"
	"encoding/binary"
	"encoding/json"
	"errors"
	"fmt"
	"math/big"
	"net"
	"net/http"
	"strconv"
	"strings"
	"sync"
	"time"

	"github.com/ethereum/go-ethereum/common"
	"github.com/ethereum/go-ethereum/common/hexutil"
	"github.com/ethereum/go-ethereum/core/types"
	"github.com/ethereum/go-ethereum/crypto"
	"github.com/ethereum/go-ethereum/rpc"
)

// ---- scripted chain -------------------------------------------------------------------------

// LogSpec describes one log of a block, in canonical order.
type LogSpec struct {
	NewTx   bool `json:"t,omitempty"` // starts a new transaction (otherwise same tx as the previous log)
	Removed bool `json:"r,omitempty"` // served with removed=true
	Noise   bool `json:"x,omitempty"` // emitted by another contract (must be filtered out by address)
}

// Chain is the immutable scripted chain: Blocks[i] are the logs of block number i.
type Chain struct {
	Contract common.Address
	Other    common.Address
	blocks   [][]types.Log
}

func hashOf(tag string, a, b uint64) common.Hash {
	var buf [16]byte
	binary.BigEndian.PutUint64(buf[:8], a)
	binary.BigEndian.PutUint64(buf[8:], b)
	return crypto.Keccak256Hash([]byte(tag), buf[:])
}

// BuildChain materialises the logs. Log.Index is the position inside the block (all emitters),
// TxIndex is non-decreasing inside a block: the canonical order a real node returns.
func BuildChain(contract common.Address, blocks [][]LogSpec) *Chain {
	c := &Chain{Contract: contract, Other: common.HexToAddress("0x00000000000000000000000000000000000000ff")}
	c.blocks = make([][]types.Log, len(blocks))
	for bn, specs := range blocks {
		tx := uint(0)
		for i, s := range specs {
			if s.NewTx && i > 0 {
				tx++
			}
			addr := contract
			if s.Noise {
				addr = c.Other
			}
			data := make([]byte, 12)
			binary.BigEndian.PutUint64(data[:8], uint64(bn))
			binary.BigEndian.PutUint32(data[8:], uint32(i))
			c.blocks[bn] = append(c.blocks[bn], types.Log{
				Address:     addr,
				Topics:      []common.Hash{hashOf("topic", uint64(bn), uint64(i))},
				Data:        data,
				BlockNumber: uint64(bn),
				TxHash:      hashOf("tx", uint64(bn), uint64(tx)),
				TxIndex:     tx,
				BlockHash:   hashOf("block", uint64(bn), 0),
				Index:       uint(i),
				Removed:     s.Removed,
			})
		}
	}
	return c
}

// All returns every log of a block (any emitter, removed or not), canonical order.
func (c *Chain) All(block uint64) []types.Log {
	if block >= uint64(len(c.blocks)) {
		return nil
	}
	return c.blocks[block]
}

// Valid returns the contract's non-removed logs of a block, in order: what must be delivered.
func (c *Chain) Valid(block uint64) []types.Log {
	var out []types.Log
	for _, l := range c.All(block) {
		if l.Address == c.Contract && !l.Removed {
			out = append(out, l)
		}
	}
	return out
}

// Len is the number of scripted blocks (blocks beyond carry no logs).
func (c *Chain) Len() uint64 { return uint64(len(c.blocks)) }

// SameLog compares the fields a consumer can observe.
func SameLog(a, b types.Log) bool {
	if a.Address != b.Address || a.BlockNumber != b.BlockNumber || a.TxHash != b.TxHash || a.TxIndex != b.TxIndex ||
		a.BlockHash != b.BlockHash || a.Index != b.Index || a.Removed != b.Removed || len(a.Topics) != len(b.Topics) ||
		string(a.Data) != string(b.Data) {
		return false
	}
	for i := range a.Topics {
		if a.Topics[i] != b.Topics[i] {
			return false
		}
	}
	return true
}

// ---- server ---------------------------------------------------------------------------------

// GetLogsReq is one observed eth_getLogs call.
type GetLogsReq struct {
	From, To uint64
	Outcome  string // ok | fail | kill | badaddr
	Logs     int
}

// State is everything the harness may observe; read and written only under the server lock.
type State struct {
	Head           uint64
	LiveSubs       int // head subscriptions on connections that were not killed / poisoned
	SubscribeCalls int
	SubscribeOK    int
	SubscribeFail  int
	GetLogs        []GetLogsReq
	FaultsFired    int    // injected faults that actually hit the client
	LastFault      string // kind of the most recent one: kill | suberr | failget | killget | failsub
	Conns          int    // connections accepted so far
}

type armedGet struct {
	countdown int
	kill      bool
}

type subEntry struct {
	n      *rpc.Notifier
	id     rpc.ID
	remote string
	active bool // the eth_subscribe response has been written to the socket
}

// trackedConn observes completed writes: a subscription only counts as live once the server has
// written something after creating it, i.e. the eth_subscribe response (the client issues one call
// at a time). Killing a connection while the response is still unwritten would exercise a race
// inside go-ethereum's rpc.Client (a request whose send overlaps the teardown is never completed),
// not the code under test.
type trackedConn struct {
	net.Conn
	s      *Server
	remote string
}

func (c *trackedConn) Write(b []byte) (int, error) {
	n, err := c.Conn.Write(b)
	if err == nil {
		c.s.mu.Lock()
		changed := false
		for e := range c.s.subs {
			if e.remote == c.remote && !e.active {
				e.active = true
				c.s.st.SubscribeOK++
				changed = true
			}
		}
		if changed {
			c.s.countLive()
			c.s.bump()
		}
		c.s.mu.Unlock()
	}
	return n, err
}

type Server struct {
	chain *Chain
	rpc   *rpc.Server
	http  *http.Server
	ln    net.Listener

	mu      sync.Mutex
	changed chan struct{}
	st      State
	subs    map[*subEntry]struct{}
	conns   map[string]net.Conn // by remote address
	armed   []armedGet
	failSub int
	closed  bool
}

// New starts a server on 127.0.0.1:0 serving chain with the given initial head.
func New(chain *Chain, head uint64) (*Server, error) {
	s := &Server{chain: chain, changed: make(chan struct{}), subs: map[*subEntry]struct{}{}, conns: map[string]net.Conn{}}
	s.st.Head = head
	s.rpc = rpc.NewServer()
	if err := s.rpc.RegisterName("eth", &ethAPI{s}); err != nil {
		return nil, err
	}
	ln, err := net.Listen("tcp", "127.0.0.1:0")
	if err != nil {
		return nil, err
	}
	s.ln = &trackingListener{Listener: ln, s: s}
	s.http = &http.Server{Handler: s.rpc.WebsocketHandler([]string{"*"})}
	go func() { _ = s.http.Serve(s.ln) }()
	return s, nil
}

// URL is the websocket endpoint.
func (s *Server) URL() string { return "ws://" + s.ln.Addr().String() }

// Close stops everything: every connection is closed, so client-side read loops end.
func (s *Server) Close() {
	s.mu.Lock()
	s.closed = true
	s.killLocked()
	s.bump()
	s.mu.Unlock()
	_ = s.http.Close()
	s.rpc.Stop()
}

type trackingListener struct {
	net.Listener
	s *Server
}

func (l *trackingListener) Accept() (net.Conn, error) {
	c, err := l.Listener.Accept()
	if err != nil {
		return nil, err
	}
	l.s.mu.Lock()
	if l.s.closed {
		l.s.mu.Unlock()
		_ = c.Close()
		return nil, errors.New("fakeeth: closed")
	}
	tc := &trackedConn{Conn: c, s: l.s, remote: c.RemoteAddr().String()}
	l.s.conns[tc.remote] = tc
	l.s.st.Conns++
	l.s.bump()
	l.s.mu.Unlock()
	return tc, nil
}

func (s *Server) countLive() { // lock held
	n := 0
	for e := range s.subs {
		if e.active {
			n++
		}
	}
	s.st.LiveSubs = n
}

func (s *Server) liveTargets() []*subEntry { // lock held
	var out []*subEntry
	for e := range s.subs {
		if e.active {
			out = append(out, e)
		}
	}
	return out
}

func (s *Server) bump() { // lock held
	close(s.changed)
	s.changed = make(chan struct{})
}

// Locked runs fn under the server lock and wakes every waiter afterwards. The harness keeps its own
// observables (stream entries, metrics) under this lock as well.
func (s *Server) Locked(fn func(st *State)) {
	s.mu.Lock()
	fn(&s.st)
	s.bump()
	s.mu.Unlock()
}

// WaitUntil blocks until cond (evaluated under the lock) holds or d elapsed; it reports cond's last value.
// The time-out is only ever a stop condition for the harness, never a verdict.
func (s *Server) WaitUntil(d time.Duration, cond func(st *State) bool) bool {
	deadline := time.NewTimer(d)
	defer deadline.Stop()
	for {
		s.mu.Lock()
		ok := cond(&s.st)
		ch := s.changed
		s.mu.Unlock()
		if ok {
			return true
		}
		select {
		case <-ch:
		case <-deadline.C:
			s.mu.Lock()
			ok = cond(&s.st)
			s.mu.Unlock()
			return ok
		}
	}
}

// ---- harness actions ------------------------------------------------------------------------

func header(n uint64) *types.Header {
	return &types.Header{
		ParentHash:  hashOf("block", n-1, 0),
		UncleHash:   types.EmptyUncleHash,
		TxHash:      types.EmptyTxsHash,
		ReceiptHash: types.EmptyReceiptsHash,
		Difficulty:  big.NewInt(0),
		Number:      new(big.Int).SetUint64(n),
		GasLimit:    30_000_000,
		Time:        1_700_000_000 + 12*n,
		Extra:       []byte{},
	}
}

// AnnounceHead sets the chain head to n (eth_blockNumber, upper bound of eth_getLogs) and notifies
// every live head subscription. It returns how many subscriptions were notified.
func (s *Server) AnnounceHead(n uint64) int {
	s.mu.Lock()
	if n > s.st.Head {
		s.st.Head = n
	}
	targets := s.liveTargets()
	s.bump()
	s.mu.Unlock()
	h := header(n)
	sent := 0
	for _, e := range targets {
		if e.n.Notify(e.id, h) == nil {
			sent++
		}
	}
	return sent
}

// PoisonSubscriptions ends every live head subscription with an error on the client side while the
// connection stays up: it sends a notification that cannot be decoded as a header. The
// subscriptions are considered dead from this moment.
func (s *Server) PoisonSubscriptions() int {
	s.mu.Lock()
	targets := make([]*subEntry, 0, len(s.subs))
	for e := range s.subs {
		targets = append(targets, e)
		delete(s.subs, e)
	}
	s.st.LiveSubs = 0
	if len(targets) > 0 {
		s.st.FaultsFired++
		s.st.LastFault = "suberr"
	}
	s.bump()
	s.mu.Unlock()
	for _, e := range targets {
		_ = e.n.Notify(e.id, "fakeeth: injected subscription failure")
	}
	return len(targets)
}

// KillConnections closes every open connection (and thereby every subscription and in-flight call).
func (s *Server) KillConnections() int {
	s.mu.Lock()
	defer s.mu.Unlock()
	n := s.killLocked()
	if n > 0 {
		s.st.FaultsFired++
		s.st.LastFault = "kill"
	}
	s.bump()
	return n
}

func (s *Server) killLocked() int {
	n := len(s.conns)
	for k, c := range s.conns {
		_ = c.Close()
		delete(s.conns, k)
	}
	for e := range s.subs {
		delete(s.subs, e)
	}
	s.st.LiveSubs = 0
	return n
}

// FailGetLogs arms an error for the nth upcoming eth_getLogs (1 = the next one).
func (s *Server) FailGetLogs(nth int) { s.arm(nth, false) }

// KillOnGetLogs arms a connection kill while the nth upcoming eth_getLogs is in flight.
func (s *Server) KillOnGetLogs(nth int) { s.arm(nth, true) }

func (s *Server) arm(nth int, kill bool) {
	if nth < 1 {
		nth = 1
	}
	s.mu.Lock()
	s.armed = append(s.armed, armedGet{countdown: nth, kill: kill})
	s.mu.Unlock()
}

// Armed is the number of eth_getLogs faults not fired yet.
func (s *Server) Armed() int {
	s.mu.Lock()
	defer s.mu.Unlock()
	return len(s.armed)
}

// FailSubscribe makes the next n eth_subscribe calls return an error.
func (s *Server) FailSubscribe(n int) {
	s.mu.Lock()
	s.failSub += n
	s.mu.Unlock()
}

// Snapshot copies the state.
func (s *Server) Snapshot() State {
	s.mu.Lock()
	defer s.mu.Unlock()
	st := s.st
	st.GetLogs = append([]GetLogsReq(nil), s.st.GetLogs...)
	return st
}

// ---- JSON-RPC API ---------------------------------------------------------------------------

type ethAPI struct{ s *Server }

func (a *ethAPI) BlockNumber() hexutil.Uint64 {
	a.s.mu.Lock()
	defer a.s.mu.Unlock()
	return hexutil.Uint64(a.s.st.Head)
}

func (a *ethAPI) ChainId() *hexutil.Big { return (*hexutil.Big)(big.NewInt(1337)) }

func (a *ethAPI) Syncing() (interface{}, error) { return false, nil }

func parseBlockNum(raw json.RawMessage, head uint64, dflt uint64) (uint64, error) {
	if len(raw) == 0 || string(raw) == "null" {
		return dflt, nil
	}
	var str string
	if err := json.Unmarshal(raw, &str); err != nil {
		return 0, err
	}
	switch str {
	case "latest", "pending", "safe", "finalized":
		return head, nil
	case "earliest":
		return 0, nil
	}
	if !strings.HasPrefix(str, "0x") {
		return 0, fmt.Errorf("bad block number %q", str)
	}
	return strconv.ParseUint(str[2:], 16, 64)
}

func (a *ethAPI) GetBlockByNumber(ctx context.Context, number json.RawMessage, fullTx bool) (map[string]interface{}, error) {
	a.s.mu.Lock()
	head := a.s.st.Head
	a.s.mu.Unlock()
	n, err := parseBlockNum(number, head, head)
	if err != nil {
		return nil, err
	}
	if n > head {
		return nil, nil
	}
	h := header(n)
	raw, err := json.Marshal(h)
	if err != nil {
		return nil, err
	}
	out := map[string]interface{}{}
	if err := json.Unmarshal(raw, &out); err != nil {
		return nil, err
	}
	out["hash"] = h.Hash()
	out["transactions"] = []interface{}{}
	out["uncles"] = []interface{}{}
	return out, nil
}

type filterArg struct {
	Address   json.RawMessage `json:"address"`
	FromBlock json.RawMessage `json:"fromBlock"`
	ToBlock   json.RawMessage `json:"toBlock"`
	BlockHash *common.Hash    `json:"blockHash"`
	Topics    json.RawMessage `json:"topics"`
}

func parseAddresses(raw json.RawMessage) ([]common.Address, error) {
	if len(raw) == 0 || string(raw) == "null" {
		return nil, nil
	}
	var many []common.Address
	if err := json.Unmarshal(raw, &many); err == nil {
		return many, nil
	}
	var one common.Address
	if err := json.Unmarshal(raw, &one); err != nil {
		return nil, err
	}
	return []common.Address{one}, nil
}

var errInjected = errors.New("fakeeth: injected eth_getLogs failure")

const (
	padNotifications = 32
	killGetPause     = 5 * time.Millisecond
)

func (a *ethAPI) GetLogs(ctx context.Context, q filterArg) ([]types.Log, error) {
	s := a.s
	s.mu.Lock()
	defer s.mu.Unlock()
	defer s.bump()
	head := s.st.Head
	from, err := parseBlockNum(q.FromBlock, head, 0)
	if err != nil {
		return nil, err
	}
	to, err := parseBlockNum(q.ToBlock, head, head)
	if err != nil {
		return nil, err
	}
	addrs, err := parseAddresses(q.Address)
	if err != nil {
		return nil, err
	}
	req := GetLogsReq{From: from, To: to, Outcome: "ok"}
	fire := -1
	for i := range s.armed {
		s.armed[i].countdown--
		if s.armed[i].countdown == 0 && fire < 0 {
			fire = i
		}
	}
	if fire >= 0 {
		f := s.armed[fire]
		s.armed = append(s.armed[:fire:fire], s.armed[fire+1:]...)
		// other faults that came due on the same request stay armed for the next one
		for i := range s.armed {
			if s.armed[i].countdown <= 0 {
				s.armed[i].countdown = 1
			}
		}
		s.st.FaultsFired++
		if f.kill {
			req.Outcome = "kill"
			s.st.LastFault = "killget"
			s.st.GetLogs = append(s.st.GetLogs, req)
			// Let the client's dispatcher finish registering the in-flight request before the
			// connection dies (see trackedConn): a burst of notifications for head 0 (which the
			// client ignores: below every cursor) forces that many dispatcher iterations first.
			targets := s.liveTargets()
			s.mu.Unlock()
			// (The sender may also be preempted between its write and its hand-over to the dispatcher;
			// the pause makes that window unlikely to still be open. A lost race only costs a discarded case.)
			time.Sleep(killGetPause)
			h := header(0)
			for i := 0; i < padNotifications; i++ {
				for _, e := range targets {
					_ = e.n.Notify(e.id, h)
				}
			}
			s.mu.Lock()
			s.killLocked()
			return nil, errInjected
		}
		req.Outcome = "fail"
		s.st.LastFault = "failget"
		s.st.GetLogs = append(s.st.GetLogs, req)
		return nil, errInjected
	}
	out := []types.Log{}
	hi := to
	if hi > head {
		hi = head // a node has no logs beyond its head
	}
	for b := from; b <= hi && b < s.chain.Len(); b++ {
		for _, l := range s.chain.All(b) {
			if len(addrs) > 0 {
				match := false
				for _, ad := range addrs {
					if ad == l.Address {
						match = true
					}
				}
				if !match {
					continue
				}
			}
			out = append(out, l)
		}
	}
	if len(addrs) != 1 || addrs[0] != s.chain.Contract {
		req.Outcome = "badaddr"
	}
	req.Logs = len(out)
	s.st.GetLogs = append(s.st.GetLogs, req)
	return out, nil
}

// NewHeads implements eth_subscribe("newHeads").
func (a *ethAPI) NewHeads(ctx context.Context) (*rpc.Subscription, error) {
	notifier, ok := rpc.NotifierFromContext(ctx)
	if !ok {
		return nil, rpc.ErrNotificationsUnsupported
	}
	remote := rpc.PeerInfoFromContext(ctx).RemoteAddr
	s := a.s
	s.mu.Lock()
	s.st.SubscribeCalls++
	if s.failSub > 0 {
		s.failSub--
		s.st.SubscribeFail++
		s.st.FaultsFired++
		s.st.LastFault = "failsub"
		s.bump()
		s.mu.Unlock()
		return nil, errors.New("fakeeth: injected eth_subscribe failure")
	}
	if _, alive := s.conns[remote]; !alive {
		// the connection was killed while the call was in flight
		s.st.SubscribeFail++
		s.bump()
		s.mu.Unlock()
		return nil, errors.New("fakeeth: connection gone")
	}
	sub := notifier.CreateSubscription()
	e := &subEntry{n: notifier, id: sub.ID, remote: remote}
	s.subs[e] = struct{}{} // becomes live (and counts as SubscribeOK) when the response has been written
	s.bump()
	s.mu.Unlock()
	go func() {
		select {
		case <-sub.Err(): // client unsubscribed or connection closed
		case <-notifier.Closed():
		}
		s.mu.Lock()
		if _, ok := s.subs[e]; ok {
			delete(s.subs, e)
			s.countLive()
			s.bump()
		}
		s.mu.Unlock()
	}()
	return sub, nil
}
