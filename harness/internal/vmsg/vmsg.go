// Package vmsg describes a pubsub message as data (Spec) and builds the bytes / topic / reception
// time for the real message validator. Used by C08 (robustness), C09 (rule mutants), C18.
package vmsg

import (
	"time"

	"github.com/attestantio/go-eth2-client/spec/phase0"
	specqbft "github.com/bloxapp/ssv-spec/qbft"
	spectypes "github.com/bloxapp/ssv-spec/types"

	"github.com/bloxapp/ssv/network/commons"
	ssvmessage "github.com/bloxapp/ssv/protocol/v2/message"

	"verif/harness/internal/valfx"
)

type ByteMut struct {
	Off int  `json:"o"`
	Xor byte `json:"x"`
}

// Spec is a JSON-serialisable description of one pubsub message.
type Spec struct {
	Val     int    `json:"val"`              // validator index in the fixture
	PKAlt   []byte `json:"pk_alt,omitempty"` // if set: this validator public key instead of the fixture validator's (message id and topic follow it)
	Role    int    `json:"role"`             // numeric BeaconRole (may be invalid)
	SSVType string `json:"ssv_type"`         // consensus partial event dkg unknown
	DomainX bool   `json:"domain_x,omitempty"`

	// consensus
	QType     int      `json:"qtype,omitempty"`
	SlotRel   int64    `json:"slot_rel,omitempty"`   // height = Slot0 + SlotRel
	HeightAbs *uint64  `json:"height_abs,omitempty"` // overrides SlotRel
	Round     uint64   `json:"round,omitempty"`
	Signers   []uint64 `json:"signers,omitempty"`
	Leader    bool     `json:"leader,omitempty"` // single signer = round-robin leader of (height, round)
	Value     string   `json:"value,omitempty"`  // "" none, else literal full data
	BadRoot   bool     `json:"bad_root,omitempty"`
	Just      string   `json:"just,omitempty"` // none garbage nested prepare-in-rc
	SigKind   string   `json:"sig,omitempty"`  // ok zero short long

	// partial signature
	PType    int     `json:"ptype,omitempty"`
	PSigner  uint64  `json:"psigner,omitempty"`
	PCount   int     `json:"pcount,omitempty"`
	PInner   *uint64 `json:"pinner,omitempty"` // signer id inside the partial messages (default = PSigner)
	PDupRoot bool    `json:"pdup,omitempty"`
	PSigKind string  `json:"psig,omitempty"`

	// envelope (signed mode)
	EnvOp  uint64 `json:"env_op,omitempty"`
	EnvSig string `json:"env_sig,omitempty"` // valid other rogue garbage

	Topic     string    `json:"topic,omitempty"` // right wrong:<n> garbage
	TopicN    int       `json:"topic_n,omitempty"`
	RecvRelMs int64     `json:"recv_rel_ms,omitempty"` // reception = slot start of the message's slot + this
	InnerMuts []ByteMut `json:"inner_muts,omitempty"`  // applied to SSVMessage.Data
	OuterMuts []ByteMut `json:"outer_muts,omitempty"`  // applied to the final pubsub bytes
	RawData   []byte    `json:"raw,omitempty"`         // if set: SSVMessage.Data is exactly this
	RawOuter  []byte    `json:"raw_outer,omitempty"`   // if set: pubsub data is exactly this
}

func sig(kind string, fill byte) []byte {
	n := 96
	switch kind {
	case "short":
		n = 95
	case "long":
		n = 97
	case "empty":
		n = 0
	}
	b := make([]byte, n)
	if kind != "zero" {
		for i := range b {
			b[i] = fill + byte(i)
		}
	}
	return b
}

func applyMuts(b []byte, ms []ByteMut) []byte {
	if len(b) == 0 {
		return b
	}
	c := append([]byte(nil), b...)
	for _, m := range ms {
		o := m.Off % len(c)
		if o < 0 {
			o += len(c)
		}
		c[o] ^= m.Xor
	}
	return c
}

// Slot returns the slot the message is for.
func (s *Spec) Slot(e *valfx.Env) phase0.Slot {
	if s.HeightAbs != nil {
		return phase0.Slot(*s.HeightAbs)
	}
	v := int64(e.Slot0()) + s.SlotRel
	if v < 0 {
		v = 0
	}
	return phase0.Slot(v)
}

// LeaderID is the round-robin leader for the spec's height and round (computed independently of the code under test).
func (s *Spec) LeaderID(e *valfx.Env) spectypes.OperatorID {
	v := e.Vals[s.Val%len(e.Vals)]
	n := uint64(len(v.Share.Committee))
	h := uint64(s.Slot(e))
	idx := (h%n + s.Round%n + n - 1) % n
	return v.Share.Committee[idx].OperatorID
}

// Consensus builds the QBFT signed message described by s (nil for non-consensus specs).
func (s *Spec) Consensus(e *valfx.Env, identifier []byte) *specqbft.SignedMessage {
	m := &specqbft.SignedMessage{Signature: sig(s.SigKind, 0x11)}
	for _, x := range s.Signers {
		m.Signers = append(m.Signers, spectypes.OperatorID(x))
	}
	if s.Leader {
		m.Signers = []spectypes.OperatorID{s.LeaderID(e)}
	}
	m.Message = specqbft.Message{MsgType: specqbft.MessageType(s.QType), Height: specqbft.Height(s.Slot(e)), Round: specqbft.Round(s.Round), Identifier: identifier}
	if s.Value != "" {
		m.FullData = []byte(s.Value)
		m.Message.Root, _ = specqbft.HashDataRoot(m.FullData)
	} else {
		m.Message.Root = [32]byte{1, 2, 3}
	}
	if s.BadRoot {
		m.Message.Root[5] ^= 0x10
	}
	inner := func(t specqbft.MessageType, signer spectypes.OperatorID, round specqbft.Round) []byte {
		j := &specqbft.SignedMessage{Signature: sig("ok", 0x22), Signers: []spectypes.OperatorID{signer},
			Message: specqbft.Message{MsgType: t, Height: m.Message.Height, Round: round, Identifier: identifier, Root: m.Message.Root}}
		b, _ := j.Encode()
		return b
	}
	switch s.Just {
	case "rc-quorum": // what an honest leader attaches in round > 1: a quorum of (unprepared) round changes for this round
		v := e.Vals[s.Val%len(e.Vals)]
		for i := 0; i < int(v.Share.Quorum); i++ {
			j := &specqbft.SignedMessage{Signature: sig("ok", 0x22), Signers: []spectypes.OperatorID{v.Share.Committee[i].OperatorID},
				Message: specqbft.Message{MsgType: specqbft.RoundChangeMsgType, Height: m.Message.Height, Round: m.Message.Round, Identifier: identifier}}
			b, _ := j.Encode()
			m.Message.RoundChangeJustification = append(m.Message.RoundChangeJustification, b)
		}
	case "garbage":
		m.Message.RoundChangeJustification = [][]byte{{1, 2, 3}}
		m.Message.PrepareJustification = [][]byte{{0xff}}
	case "nested":
		for i := 1; i <= 3; i++ {
			m.Message.RoundChangeJustification = append(m.Message.RoundChangeJustification, inner(specqbft.RoundChangeMsgType, spectypes.OperatorID(i), m.Message.Round))
		}
	case "prepares":
		for i := 1; i <= 3; i++ {
			m.Message.PrepareJustification = append(m.Message.PrepareJustification, inner(specqbft.PrepareMsgType, spectypes.OperatorID(i), 1))
		}
	case "rc-prepares":
		for i := 1; i <= 3; i++ {
			m.Message.RoundChangeJustification = append(m.Message.RoundChangeJustification, inner(specqbft.PrepareMsgType, spectypes.OperatorID(i), 1))
		}
	}
	return m
}

// Build returns topic, pubsub bytes and reception time.
func (s *Spec) Build(e *valfx.Env, signed bool) (string, []byte, time.Time) {
	v := e.Vals[s.Val%len(e.Vals)]
	domain := e.NetCfg.Domain
	if s.DomainX {
		domain[0] ^= 0xff
	}
	pk := v.PK
	if len(s.PKAlt) > 0 {
		pk = s.PKAlt
	}
	msgID := spectypes.NewMsgID(domain, pk, spectypes.BeaconRole(s.Role))
	msg := &spectypes.SSVMessage{MsgID: msgID}
	slot := s.Slot(e)
	switch s.SSVType {
	case "consensus":
		msg.MsgType = spectypes.SSVConsensusMsgType
		b, err := s.Consensus(e, msgID[:]).Encode()
		if err != nil {
			b = []byte{0xde, 0xad}
		}
		msg.Data = b
	case "partial":
		msg.MsgType = spectypes.SSVPartialSignatureMsgType
		innerSigner := s.PSigner
		if s.PInner != nil {
			innerSigner = *s.PInner
		}
		pm := &spectypes.SignedPartialSignatureMessage{Signature: sig(s.SigKind, 0x33), Signer: spectypes.OperatorID(s.PSigner)}
		pm.Message = spectypes.PartialSignatureMessages{Type: spectypes.PartialSigMsgType(s.PType), Slot: slot}
		for i := 0; i < s.PCount; i++ {
			r := [32]byte{byte(i + 1), byte(i >> 8)}
			if s.PDupRoot {
				r = [32]byte{7}
			}
			pm.Message.Messages = append(pm.Message.Messages, &spectypes.PartialSignatureMessage{PartialSignature: sig(s.PSigKind, 0x44), SigningRoot: r, Signer: spectypes.OperatorID(innerSigner)})
		}
		b, err := pm.Encode()
		if err != nil {
			b = []byte{0xbe, 0xef}
		}
		msg.Data = b
	case "event":
		msg.MsgType = ssvmessage.SSVEventMsgType
		msg.Data = []byte(`{"Type":1,"Data":"e30="}`)
	case "dkg":
		msg.MsgType = spectypes.DKGMsgType
		msg.Data = []byte{1, 2, 3, 4}
	default:
		msg.MsgType = spectypes.MsgType(77)
		msg.Data = []byte{9, 9, 9}
	}
	if s.RawData != nil {
		msg.Data = s.RawData
	}
	msg.Data = applyMuts(msg.Data, s.InnerMuts)

	enc, err := commons.EncodeNetworkMsg(msg)
	if err != nil {
		enc = []byte{0}
	}
	if signed {
		key := e.OpKeys[1]
		if k, ok := e.OpKeys[spectypes.OperatorID(s.EnvOp)]; ok {
			key = k
		}
		var sg []byte
		switch s.EnvSig {
		case "other":
			sg, _ = e.OpKeys[spectypes.OperatorID(s.EnvOp%13+1)%13+1].Sign(enc)
		case "rogue":
			sg, _ = e.Rogue.Sign(enc)
		case "garbage":
			sg = make([]byte, 256)
			sg[3] = 9
		case "stale": // signature over other bytes
			sg, _ = key.Sign(append([]byte{1}, enc...))
		default:
			sg, _ = key.Sign(enc)
		}
		enc = commons.EncodeSignedSSVMessage(enc, spectypes.OperatorID(s.EnvOp), sg)
	}
	if s.RawOuter != nil {
		enc = s.RawOuter
	}
	enc = applyMuts(enc, s.OuterMuts)

	topic := valfx.Topic(pk)
	switch s.Topic {
	case "wrong":
		ts := commons.Topics()
		t := ts[s.TopicN%len(ts)]
		if t == topic {
			t = ts[(s.TopicN+1)%len(ts)]
		}
		topic = t
	case "index": // exactly the TopicN-th topic, whether or not it is the validator's
		ts := commons.Topics()
		topic = ts[s.TopicN%len(ts)]
	case "garbage":
		topic = "ssv.v2.unknown"
	case "empty":
		topic = ""
	}
	recv := e.NetCfg.Beacon.GetSlotStartTime(slot).Add(time.Duration(s.RecvRelMs) * time.Millisecond)
	return topic, enc, recv
}
