// Package c10 checks property C10: messages produced by correct operators are never rejected by
// correct peers.
//
// A case is one duty of one validator executed by a whole committee on a virtual clock. Every
// operator is a REAL duty runner of /repo (runner.New*Runner around a real controller.Controller,
// wired like operator/validator.SetupRunners does) behind a real message queue drained the way
// validator.ConsumeQueue drains it. The network is a discrete-event simulator: every Broadcast of
// a runner is stamped with the virtual emission time, handed to every operator after a drawn
// delay, and - for correct operators - wrapped as network/p2p.Broadcast wraps it and validated by
// the real message validator of one more correct peer at receivedAt = emission time + delta.
// Round timers fire at the deadline the real roundtimer.RoundTimer.RoundTimeout computes.
package c10

import (
	"container/heap"
	"context"
	"encoding/json"
	"fmt"
	"os"
	"sort"
	"strings"
	"sync"
	"testing"
	"time"

	eth2apiv1 "github.com/attestantio/go-eth2-client/api/v1"
	apiv1capella "github.com/attestantio/go-eth2-client/api/v1/capella"
	apiv1deneb "github.com/attestantio/go-eth2-client/api/v1/deneb"
	"github.com/attestantio/go-eth2-client/spec"
	"github.com/attestantio/go-eth2-client/spec/altair"
	"github.com/attestantio/go-eth2-client/spec/capella"
	"github.com/attestantio/go-eth2-client/spec/phase0"
	specqbft "github.com/bloxapp/ssv-spec/qbft"
	specssv "github.com/bloxapp/ssv-spec/ssv"
	spectypes "github.com/bloxapp/ssv-spec/types"
	"github.com/bloxapp/ssv-spec/types/testingutils"
	ssz "github.com/ferranbt/fastssz"
	pubsub "github.com/libp2p/go-libp2p-pubsub"
	pspb "github.com/libp2p/go-libp2p-pubsub/pb"
	"github.com/prysmaticlabs/go-bitfield"
	"go.uber.org/zap"
	"pgregory.net/rapid"

	"github.com/bloxapp/ssv/message/validation"
	"github.com/bloxapp/ssv/network/commons"
	"github.com/bloxapp/ssv/networkconfig"
	"github.com/bloxapp/ssv/operator/duties/dutystore"
	"github.com/bloxapp/ssv/operator/keys"
	operatorstorage "github.com/bloxapp/ssv/operator/storage"
	beaconprotocol "github.com/bloxapp/ssv/protocol/v2/blockchain/beacon"
	ssvmessage "github.com/bloxapp/ssv/protocol/v2/message"
	"github.com/bloxapp/ssv/protocol/v2/qbft"
	"github.com/bloxapp/ssv/protocol/v2/qbft/controller"
	"github.com/bloxapp/ssv/protocol/v2/qbft/instance"
	"github.com/bloxapp/ssv/protocol/v2/qbft/roundtimer"
	"github.com/bloxapp/ssv/protocol/v2/ssv/queue"
	"github.com/bloxapp/ssv/protocol/v2/ssv/runner"
	ssvtypes "github.com/bloxapp/ssv/protocol/v2/types"
	registrystorage "github.com/bloxapp/ssv/registry/storage"
	"github.com/bloxapp/ssv/storage/basedb"
	"github.com/bloxapp/ssv/storage/kv"

	"verif/harness/internal/fx"
	"verif/harness/internal/prog"
)

func TestMain(m *testing.M) { prog.Main(m) }

const testName = "TestPropTimelyNeverRejected"

// ---- program ------------------------------------------------------------------------------------

// Silence describes one operator that is faulty by omission only: it runs the real code, but part
// of what it broadcasts never leaves the machine (or it stops altogether). Its messages are fed to
// the validating peer when they are sent, but they are not judged.
type Silence struct {
	Op             int    `json:"op"`
	CrashRound     int    `json:"crash_round,omitempty"` // 0 = never; else stops (sending, receiving, timers) inside global round CrashRound
	CrashFrac      int    `json:"crash_frac,omitempty"`  // position inside that round, per mille
	DropRounds     uint32 `json:"drop_rounds,omitempty"` // bit r-1: sends no consensus message of round r
	NoCommitRounds uint32 `json:"nocommit_rounds,omitempty"`
	DropPartial    bool   `json:"drop_partial,omitempty"` // sends no partial-signature message
}

type Prog struct {
	N       int   `json:"n"`    // committee size 4 | 7
	Role    int   `json:"role"` // spectypes.BeaconRole 0..4
	Signed  bool  `json:"signed"`
	Verify  bool  `json:"verify"`   // BLS verification inside the operators' QBFT (as in production) or off (faster)
	SlotOff int   `json:"slot_off"` // duty slot = first slot of the base epoch + SlotOff
	Deneb   bool  `json:"deneb,omitempty"`
	Blinded bool  `json:"blinded,omitempty"`
	SyncIdx []int `json:"sync_idx,omitempty"` // contribution duty: ValidatorSyncCommitteeIndices

	StartMs   []int `json:"start_ms"`             // per operator: duty start, ms after the role's nominal start
	BNMs      []int `json:"bn_ms"`                // per operator: latency of the beacon-node call that produces the consensus input
	ValVar    []int `json:"val_var"`              // per operator: which variant of the duty data its beacon node returns
	LateRound []int `json:"late_round,omitempty"` // per operator: 0 = on time; R = duty starts inside global round R ...
	LateFrac  []int `json:"late_frac,omitempty"`  // ... at this position, per mille

	Faulty []Silence `json:"faulty,omitempty"`

	InOrder bool  `json:"in_order"`         // one constant link delay, validating peer sees messages with one constant delta
	DelayMs int   `json:"delay_ms"`         // in-order: the link delay
	Delays  []int `json:"delays,omitempty"` // otherwise: per (message, receiver) link delays, consumed cyclically
	Deltas  []int `json:"deltas"`           // delta of the validating peer per message, consumed cyclically (one entry when in-order)
	NoCap   bool  `json:"no_cap,omitempty"` // do not clip link delays to the end of the message's round (slot-anchored roles)
	// PeerBehindMs: the validating peer's clock runs this much behind the operators' (0..50 ms, the validator's own
	// clockErrorTolerance): it stamps a message received at true time T with T - PeerBehindMs.
	PeerBehindMs int `json:"peer_behind_ms,omitempty"`
	QueueSz      int `json:"queue_sz,omitempty"` // operator queue capacity (0 = 1024)
	// ExpiredTimerFirst, per operator: a timer armed after its deadline fires at once; its event reaches the operator's
	// queue either before the operator pops its next message (true: handled first, events have top priority) or a
	// moment (1 ms) later, after the messages already queued have been handled (false). Both are schedules of the real
	// node: the timer goroutine races with the queue consumer (and, at the start of an instance, with
	// BaseRunner.registerTimeoutHandler, which installs the callback only after the instance has armed the timer).
	ExpiredTimerFirst []bool `json:"expired_timer_first,omitempty"`
	// CommitLagMs, per operator: extra link delay of this operator's single-signer commit messages (late commits: the
	// aggregated decided message of a faster operator overtakes them). Not used in in-order mode.
	CommitLagMs []int `json:"commit_lag_ms,omitempty"`
}

// ---- process-wide fixtures --------------------------------------------------------------------------

const (
	baseEpochCapella = phase0.Epoch(200000) // Capella on the test network of the spec's testing beacon node
	baseEpochDeneb   = phase0.Epoch(240000) // Deneb
	// goclient.SyncCommitteeSize / goclient.SyncCommitteeSubnetCount (beacon/goclient/types.go:8-9): the
	// production beacon client maps a sync-committee index to its subcommittee as index / (512/4).
	syncCommitteeSize        = 512
	syncCommitteeSubnetCount = 4
)

type store struct {
	ns    operatorstorage.Storage
	share *ssvtypes.SSVShare
}

var (
	fixOnce sync.Once
	opKeys  map[spectypes.OperatorID]keys.OperatorPrivateKey
	stores  map[int]*store
	rtMu    sync.Mutex
	dlMemo  = map[string]int64{}
	blkMu   sync.Mutex
	blkMemo = map[string]ssz.Marshaler{}
)

func fixtures() {
	fixOnce.Do(func() {
		opKeys = map[spectypes.OperatorID]keys.OperatorPrivateKey{}
		for id := spectypes.OperatorID(1); id <= 7; id++ {
			k, err := keys.GeneratePrivateKey()
			if err != nil {
				panic(err)
			}
			opKeys[id] = k
		}
		stores = map[int]*store{}
		for _, n := range []int{4, 7} {
			db, err := kv.NewInMemory(zap.NewNop(), basedb.Options{})
			if err != nil {
				panic(err)
			}
			ns, err := operatorstorage.NewNodeStorage(zap.NewNop(), db)
			if err != nil {
				panic(err)
			}
			for id := spectypes.OperatorID(1); id <= 7; id++ {
				pub, _ := opKeys[id].Public().Base64()
				if _, err := ns.SaveOperatorData(nil, &registrystorage.OperatorData{ID: id, PublicKey: pub}); err != nil {
					panic(err)
				}
			}
			sh := &ssvtypes.SSVShare{Share: *testingutils.TestingShare(fx.KeySet(n)), Metadata: ssvtypes.Metadata{
				BeaconMetadata: &beaconprotocol.ValidatorMetadata{Status: eth2apiv1.ValidatorStateActiveOngoing, Index: testingutils.TestingValidatorIndex},
			}}
			if err := ns.Shares().Save(nil, sh); err != nil {
				panic(err)
			}
			stores[n] = &store{ns: ns, share: sh}
		}
	})
}

// monitor is the validating correct peer: a fresh real message validator over the committee's node storage.
type monitor struct {
	clock  *fx.Clock
	beacon *fx.Beacon
	mv     validation.MessageValidator
	topic  string
}

func newMonitor(n int, signed bool, epoch phase0.Epoch, slot phase0.Slot) *monitor {
	fixtures()
	st := stores[n]
	clock := fx.NewClock(time.Time{})
	b := fx.NewBeacon(clock)
	cfg := networkconfig.TestNetwork
	cfg.Beacon = b
	cfg.Domain = fx.Domain
	if signed {
		cfg.PermissionlessActivationEpoch = epoch - 10
	} else {
		cfg.PermissionlessActivationEpoch = epoch + 1000000
	}
	clock.Set(b.GetSlotStartTime(slot))
	ds := dutystore.New()
	idx := st.share.BeaconMetadata.Index
	ds.Proposer.Add(b.EstimatedEpochAtSlot(slot), slot, idx, &eth2apiv1.ProposerDuty{Slot: slot, ValidatorIndex: idx}, true)
	ds.SyncCommittee.Add(b.EstimatedSyncCommitteePeriodAtEpoch(b.EstimatedEpochAtSlot(slot)), idx, &eth2apiv1.SyncCommitteeDuty{ValidatorIndex: idx}, true)
	mv := validation.NewMessageValidator(cfg, validation.WithNodeStorage(st.ns), validation.WithDutyStore(ds))
	return &monitor{clock: clock, beacon: b, mv: mv, topic: commons.GetTopicFullName(commons.ValidatorTopicID(st.share.ValidatorPubKey)[0])}
}

// wrap is what network/p2p.(*p2pNetwork).Broadcast publishes.
func wrap(msg *spectypes.SSVMessage, signed bool, id spectypes.OperatorID) []byte {
	enc, err := commons.EncodeNetworkMsg(msg)
	if err != nil {
		panic(err)
	}
	if !signed {
		return enc
	}
	sig, err := opKeys[id].Sign(enc)
	if err != nil {
		panic(err)
	}
	return commons.EncodeSignedSSVMessage(enc, id, sig)
}

// ---- the operators' beacon node -----------------------------------------------------------------------

// bnode is the spec's testing beacon node with (i) a latency on the calls that block a real node, (ii) the data
// variant of this operator's beacon node, (iii) the production mapping of sync-committee indices to subnets and one
// contribution per requested subnet (as beacon/goclient does).
type bnode struct {
	*testingutils.TestingBeaconNode
	o *oper
}

func variantRoot(r phase0.Root, v int) phase0.Root { r[0] ^= byte(v); return r }

func (b *bnode) GetAttestationData(slot phase0.Slot, ci phase0.CommitteeIndex) (ssz.Marshaler, spec.DataVersion, error) {
	b.o.block(0)
	d := *testingutils.TestingAttestationData
	d.Slot = slot
	d.BeaconBlockRoot = variantRoot(d.BeaconBlockRoot, b.o.variant)
	return &d, spec.DataVersionPhase0, nil
}

func sszCopy(src ssz.Marshaler, dst ssz.Unmarshaler) {
	raw, err := src.MarshalSSZ()
	if err != nil {
		panic(err)
	}
	if err := dst.UnmarshalSSZ(raw); err != nil {
		panic(err)
	}
}

func blockVariant(slot phase0.Slot, blinded bool, v int) (ssz.Marshaler, spec.DataVersion) {
	ver := testingutils.VersionBySlot(slot)
	k := fmt.Sprintf("%v/%v/%d", ver, blinded, v)
	blkMu.Lock()
	defer blkMu.Unlock()
	if m, ok := blkMemo[k]; ok {
		return m, ver
	}
	var out ssz.Marshaler
	switch {
	case ver == spec.DataVersionCapella && !blinded:
		c := &capella.BeaconBlock{}
		sszCopy(testingutils.TestingBeaconBlockV(ver).Capella, c)
		c.Body.Graffiti[0] ^= byte(v)
		out = c
	case ver == spec.DataVersionCapella && blinded:
		c := &apiv1capella.BlindedBeaconBlock{}
		sszCopy(testingutils.TestingBlindedBeaconBlockV(ver).Capella, c)
		c.Body.Graffiti[0] ^= byte(v)
		out = c
	case ver == spec.DataVersionDeneb && !blinded:
		c := &apiv1deneb.BlockContents{}
		sszCopy(testingutils.TestingBeaconBlockV(ver).Deneb, c)
		c.Block.Body.Graffiti[0] ^= byte(v)
		out = c
	default:
		c := &apiv1deneb.BlindedBeaconBlock{}
		sszCopy(testingutils.TestingBlindedBeaconBlockV(ver).Deneb, c)
		c.Body.Graffiti[0] ^= byte(v)
		out = c
	}
	blkMemo[k] = out
	return out, ver
}

func (b *bnode) GetBeaconBlock(slot phase0.Slot, graffiti, randao []byte) (ssz.Marshaler, spec.DataVersion, error) {
	b.o.block(0)
	m, ver := blockVariant(slot, false, b.o.variant)
	return m, ver, nil
}

func (b *bnode) GetBlindedBeaconBlock(slot phase0.Slot, graffiti, randao []byte) (ssz.Marshaler, spec.DataVersion, error) {
	b.o.block(0)
	m, ver := blockVariant(slot, true, b.o.variant)
	return m, ver, nil
}

func (b *bnode) SubmitAggregateSelectionProof(slot phase0.Slot, ci phase0.CommitteeIndex, cl uint64, index phase0.ValidatorIndex, slotSig []byte) (ssz.Marshaler, spec.DataVersion, error) {
	b.o.block(b.o.s.twoThirds) // goclient waits to two thirds of the slot (beacon/goclient/aggregator.go:19)
	a := &phase0.AggregateAndProof{}
	sszCopy(testingutils.TestingAggregateAndProof, a)
	a.Aggregate.Data.Slot = slot
	a.Aggregate.Data.BeaconBlockRoot = variantRoot(a.Aggregate.Data.BeaconBlockRoot, b.o.variant)
	copy(a.SelectionProof[:], slotSig)
	return a, spec.DataVersionPhase0, nil
}

func (b *bnode) GetSyncMessageBlockRoot(slot phase0.Slot) (phase0.Root, spec.DataVersion, error) {
	b.o.block(0)
	return variantRoot(testingutils.TestingSyncCommitteeBlockRoot, b.o.variant), spec.DataVersionPhase0, nil
}

func (b *bnode) SyncCommitteeSubnetID(index phase0.CommitteeIndex) (uint64, error) {
	return uint64(index) / (syncCommitteeSize / syncCommitteeSubnetCount), nil
}

func (b *bnode) GetSyncCommitteeContribution(slot phase0.Slot, proofs []phase0.BLSSignature, subnets []uint64) (ssz.Marshaler, spec.DataVersion, error) {
	b.o.block(b.o.s.twoThirds) // goclient waits to two thirds of the slot (beacon/goclient/sync_committee_contribution.go:62)
	out := spectypes.Contributions{}
	for i, sn := range subnets {
		out = append(out, &spectypes.Contribution{SelectionProofSig: proofs[i], Contribution: altair.SyncCommitteeContribution{
			Slot: slot, BeaconBlockRoot: variantRoot(testingutils.TestingSyncCommitteeBlockRoot, b.o.variant), SubcommitteeIndex: sn,
			AggregationBits: bitfield.NewBitvector128(),
		}})
	}
	return &out, spec.DataVersionBellatrix, nil
}

// ---- simulator -------------------------------------------------------------------------------------------

type capNet struct{ o *oper }

func (n *capNet) Broadcast(m *spectypes.SSVMessage) error { n.o.s.onBroadcast(n.o, m); return nil }

type capTimer struct{ o *oper }

func (t *capTimer) TimeoutForRound(h specqbft.Height, r specqbft.Round) { t.o.s.onArm(t.o, h, r) }

type oper struct {
	s        *sim
	id       spectypes.OperatorID
	run      runner.Runner
	ctrl     *controller.Controller
	q        queue.Queue
	variant  int
	bnMs     int64
	now      int64 // local time while a handler runs (advanced by blocking beacon-node calls)
	busy     int64 // not processing anything before this time
	started  bool
	crashed  bool
	armGen   int
	faulty   *Silence
	crashAt  int64
	decided  int                       // aggregated decided messages broadcast
	rcData   map[specqbft.Round]string // full data (hash) of the prepared round-change sent for a round
	lastSent specqbft.Round
	expired  *event                   // an already expired timer whose event goes to the queue before the next pop
	curRound specqbft.Round           // last armed round
	leftAt   map[specqbft.Round]int64 // when the operator left round r (armed a timer for a later round)
}

func (o *oper) block(until int64) {
	if o.now < until {
		o.now = until
	}
	o.now += o.bnMs
}

const (
	evStart = iota
	evArrive
	evTimer
	evWake
	evEmit
)

type event struct {
	t     int64
	seq   int
	kind  int
	op    *oper
	msg   *queue.DecodedSSVMessage
	h     specqbft.Height
	r     specqbft.Round
	gen   int
	rAtEm specqbft.Round // receiver's round when the message was emitted (0 = not in an instance)
	te    int64          // emission time of the carried message
	// futureStamp: a proposal emitted by the known mechanism "justified for a future round, stamped with the current one"
	futureStamp bool
}

type evHeap []*event

func (h evHeap) Len() int { return len(h) }
func (h evHeap) Less(i, j int) bool {
	return h[i].t < h[j].t || (h[i].t == h[j].t && h[i].seq < h[j].seq)
}
func (h evHeap) Swap(i, j int)       { h[i], h[j] = h[j], h[i] }
func (h *evHeap) Push(x interface{}) { *h = append(*h, x.(*event)) }
func (h *evHeap) Pop() interface{} {
	old := *h
	n := len(old)
	x := old[n-1]
	*h = old[:n-1]
	return x
}

type sim struct {
	p         Prog
	role      spectypes.BeaconRole
	ks        *testingutils.TestKeySet
	slot      phase0.Slot
	slotStart time.Time
	mon       *monitor
	rt        *roundtimer.RoundTimer
	ops       []*oper
	evs       evHeap
	seq       int
	msgSeq    int
	maxRound  specqbft.Round
	twoThirds int64
	anchored  bool
	lastRecv  int64
	discard   string
	log       []string

	// oracle state
	fail                      *prog.Failure
	violated                  bool // a link delay carried a message past the end of its round at some receiver
	lagged                    bool // an operator lagged: it emitted a message of a round its receiver had already left
	judged                    int
	results                   map[string]int // class:text -> count over judged messages
	unjudged                  map[string]int
	reachedRound              specqbft.Round
	preparedRC                int
	justProposal              int
	justPrepared              int
	decidedRepeat             bool
	otherValueAfterPreparedRC int // proposals of a value other than the one the proposer's own round-change of that round carried
	levelWithEstimate         int // judged consensus messages whose round is above the round a 2 s/round clock started at the slot start shows at reception (class only)
	bigMsg                    int
	partialMsgs               int
	outOfPremise              map[string]int
	beyond                    map[string]int
	horizon                   int64 // reception times at or after this are outside the duty's time window and not judged
}

func (s *sim) logf(f string, a ...any) {
	if len(s.log) < 4000 {
		s.log = append(s.log, fmt.Sprintf(f, a...))
	}
}

func (s *sim) push(e *event) {
	s.seq++
	e.seq = s.seq
	heap.Push(&s.evs, e)
}

func roleMaxRound(role spectypes.BeaconRole) specqbft.Round {
	switch role {
	case spectypes.BNRoleAttester, spectypes.BNRoleAggregator:
		return 12
	default:
		return 6
	}
}

var logger = zap.NewNop()

var verbose = false

func newSim(p Prog) *sim {
	fixtures()
	s := &sim{p: p, role: spectypes.BeaconRole(p.Role), ks: fx.KeySet(p.N), results: map[string]int{}, unjudged: map[string]int{}, outOfPremise: map[string]int{}, beyond: map[string]int{}}
	epoch := baseEpochCapella
	if p.Deneb && s.role == spectypes.BNRoleProposer {
		epoch = baseEpochDeneb
	}
	netw := beaconprotocol.NewNetwork(spectypes.PraterNetwork)
	s.slot = netw.GetEpochFirstSlot(epoch) + phase0.Slot(p.SlotOff)
	s.mon = newMonitor(p.N, p.Signed, epoch, s.slot)
	s.slotStart = s.mon.beacon.GetSlotStartTime(s.slot)
	s.rt = roundtimer.New(context.Background(), s.mon.beacon, s.role, nil)
	s.maxRound = roleMaxRound(s.role)
	s.twoThirds = (s.mon.beacon.SlotDurationSec() / 3 * 2).Milliseconds()
	s.reachedRound = 1
	// The duty's time window: an attestation / aggregate can be included for 32 slots; a block proposal and the
	// sync-committee duties belong to their slot - two slots cover every round up to the role's maximum.
	slotMs := s.mon.beacon.SlotDurationSec().Milliseconds()
	switch s.role {
	case spectypes.BNRoleAttester, spectypes.BNRoleAggregator:
		s.horizon = 32 * slotMs
	default:
		s.horizon = 2 * slotMs
	}

	km := testingutils.NewTestingKeyManager()
	bnet := spectypes.BeaconTestNetwork
	idx := phase0.ValidatorIndex(testingutils.TestingValidatorIndex)
	for i := 1; i <= p.N; i++ {
		id := spectypes.OperatorID(i)
		o := &oper{s: s, id: id, variant: p.ValVar[i-1], bnMs: int64(p.BNMs[i-1])}
		qs := p.QueueSz
		if qs == 0 {
			qs = 1024
		}
		o.q = queue.New(qs)
		share := fx.Share(s.ks, id)
		net := &capNet{o}
		bn := &bnode{TestingBeaconNode: testingutils.NewTestingBeaconNode(), o: o}
		build := func(vc specqbft.ProposedValueCheckF) *controller.Controller {
			cfg := &qbft.Config{
				Signer: km, SigningPK: share.ValidatorPubKey, Domain: fx.Domain, ValueCheckF: vc,
				ProposerF: func(state *specqbft.State, round specqbft.Round) spectypes.OperatorID {
					return specqbft.RoundRobinProposer(state, round)
				},
				Storage: fx.NewMemStore(), Network: net, Timer: &capTimer{o}, SignatureVerification: p.Verify,
			}
			mid := spectypes.NewMsgID(fx.Domain, share.ValidatorPubKey, s.role)
			return controller.NewController(mid[:], share, cfg, false)
		}
		switch s.role {
		case spectypes.BNRoleAttester:
			vc := specssv.AttesterValueCheckF(km, bnet, share.ValidatorPubKey, idx, share.SharePubKey)
			o.ctrl = build(vc)
			o.run = runner.NewAttesterRunnner(bnet, share, o.ctrl, bn, net, km, vc, 0)
		case spectypes.BNRoleProposer:
			vc := specssv.ProposerValueCheckF(km, bnet, share.ValidatorPubKey, idx, share.SharePubKey)
			o.ctrl = build(vc)
			o.run = runner.NewProposerRunner(bnet, share, o.ctrl, bn, net, km, vc, 0)
			o.run.(*runner.ProposerRunner).ProducesBlindedBlocks = p.Blinded
		case spectypes.BNRoleAggregator:
			vc := specssv.AggregatorValueCheckF(km, bnet, share.ValidatorPubKey, idx)
			o.ctrl = build(vc)
			o.run = runner.NewAggregatorRunner(bnet, share, o.ctrl, bn, net, km, vc, 0)
		case spectypes.BNRoleSyncCommittee:
			vc := specssv.SyncCommitteeValueCheckF(km, bnet, share.ValidatorPubKey, idx)
			o.ctrl = build(vc)
			o.run = runner.NewSyncCommitteeRunner(bnet, share, o.ctrl, bn, net, km, vc, 0)
		case spectypes.BNRoleSyncCommitteeContribution:
			vc := specssv.SyncCommitteeContributionValueCheckF(km, bnet, share.ValidatorPubKey, idx)
			o.ctrl = build(vc)
			o.run = runner.NewSyncCommitteeAggregatorRunner(bnet, share, o.ctrl, bn, net, km, vc, 0)
		default:
			panic("role")
		}
		s.ops = append(s.ops, o)
	}
	for i := range p.Faulty {
		f := &p.Faulty[i]
		if f.Op >= 1 && f.Op <= p.N {
			s.ops[f.Op-1].faulty = f
		}
	}
	return s
}

// deadline returns the virtual time (ms after slot start) at which the timer armed now for (h, r) fires. The
// duration comes from the real RoundTimer.RoundTimeout. For the slot-anchored roles that function returns
// time.Until(slotStart + base + allowance), measured against the WALL clock; the virtual slot start lies years in
// the past, so the result is hugely negative and wallNow + result is the absolute deadline, exact after rounding to
// a millisecond (slot starts and all allowances are whole seconds). For the proposer role it returns a plain
// allowance counted from the moment of arming.
func (s *sim) deadline(o *oper, h specqbft.Height, r specqbft.Round) (int64, bool) {
	k := fmt.Sprintf("%d/%d/%d", s.role, h, r)
	rtMu.Lock()
	if v, ok := dlMemo[k]; ok {
		rtMu.Unlock()
		s.anchored = true
		return v, true
	}
	rtMu.Unlock()
	for try := 0; try < 200; try++ {
		before := time.Now()
		d := s.rt.RoundTimeout(h, r)
		after := time.Now()
		if d > -24*time.Hour {
			return o.now + d.Milliseconds(), true
		}
		lo, hi := before.Add(d), after.Add(d)
		t := hi.Truncate(time.Millisecond)
		if hi.Sub(lo) < time.Millisecond && !t.Before(lo.Truncate(time.Microsecond)) {
			ms := t.Sub(s.slotStart).Milliseconds()
			rtMu.Lock()
			dlMemo[k] = ms
			rtMu.Unlock()
			s.anchored = true
			return ms, true
		}
	}
	return 0, false
}

func (s *sim) onArm(o *oper, h specqbft.Height, r specqbft.Round) {
	o.armGen++
	if o.leftAt == nil {
		o.leftAt = map[specqbft.Round]int64{}
	}
	for q := o.curRound; q < r; q++ {
		if _, ok := o.leftAt[q]; !ok {
			o.leftAt[q] = o.now
		}
	}
	if r > o.curRound {
		o.curRound = r
	}
	if r > s.reachedRound && o.faulty == nil {
		s.reachedRound = r
	}
	if r >= s.maxRound {
		return // the quantifier ends at the role's maximum round: its timer is not fired
	}
	dl, ok := s.deadline(o, h, r)
	if !ok {
		s.discard = "wall clock too jittery to read the round deadline"
		return
	}
	if dl <= o.now {
		// time.NewTimer with a non-positive duration fires at once
		dl = o.now + 1
		if i := int(o.id) - 1; i < len(s.p.ExpiredTimerFirst) && s.p.ExpiredTimerFirst[i] {
			dl = o.now
			o.expired = &event{t: dl, kind: evTimer, op: o, h: h, r: r, gen: o.armGen}
			return // handed to the queue by consume() before its next pop
		}
	}
	s.push(&event{t: dl, kind: evTimer, op: o, h: h, r: r, gen: o.armGen})
}

// roundWindow returns [start, end) of global round R in ms after slot start, for placing late starts and crashes.
// Slot-anchored roles: end = the real deadline; the proposer role: consecutive allowances from the slot start.
func (s *sim) roundWindow(R int) (int64, int64) {
	if R < 1 {
		R = 1
	}
	if R > int(s.maxRound) {
		R = int(s.maxRound)
	}
	probe := &oper{s: s}
	var prev int64
	for r := 1; r <= R; r++ {
		probe.now = prev
		d, ok := s.deadline(probe, specqbft.Height(s.slot), specqbft.Round(r))
		if !ok {
			s.discard = "wall clock too jittery to read the round deadline"
			return prev, prev + 1
		}
		if r == R {
			return prev, d
		}
		prev = d
	}
	return 0, 1
}

func (s *sim) nominalStart() int64 {
	switch s.role {
	case spectypes.BNRoleAttester, spectypes.BNRoleSyncCommittee:
		return 0 // StartMs carries the wait for the block / one third of the slot (operator/duties/scheduler.go:372)
	}
	return 0
}

func msgKind(m *spectypes.SSVMessage, body interface{}) string {
	switch b := body.(type) {
	case *specqbft.SignedMessage:
		switch b.Message.MsgType {
		case specqbft.ProposalMsgType:
			return "proposal"
		case specqbft.PrepareMsgType:
			return "prepare"
		case specqbft.CommitMsgType:
			if len(b.Signers) > 1 {
				return "decided"
			}
			return "commit"
		case specqbft.RoundChangeMsgType:
			return "round-change"
		}
	case *spectypes.SignedPartialSignatureMessage:
		if b.Message.Type == spectypes.PostConsensusPartialSig {
			return "post-consensus"
		}
		return "pre-consensus"
	}
	return "other"
}

func slug(s string) string {
	var b strings.Builder
	for _, r := range strings.ToLower(s) {
		switch {
		case r >= 'a' && r <= 'z', r >= '0' && r <= '9':
			b.WriteRune(r)
		default:
			if b.Len() > 0 && !strings.HasSuffix(b.String(), "-") {
				b.WriteByte('-')
			}
		}
	}
	return strings.TrimSuffix(b.String(), "-")
}

// onBroadcast captures a Broadcast call. The message leaves the operator at the operator's local time (later than the
// event being processed when the handler blocked on its beacon node), so the emission itself is an event: the
// validating peer and the links see messages in emission-time order.
func (s *sim) onBroadcast(o *oper, m *spectypes.SSVMessage) {
	dec, err := queue.DecodeSSVMessage(m)
	if err != nil {
		s.fail = prog.Failf("C10:undecodable-broadcast", "operator %d broadcast a message that does not decode: %v", o.id, err)
		return
	}
	s.push(&event{t: o.now, kind: evEmit, op: o, msg: dec, futureStamp: s.futureRoundStamp(o, dec)})
}

// futureRoundStamp recognises, at the moment of the Broadcast call, the one known mechanism behind a 'signer is not
// leader' reject of a correct operator's proposal (instance/round_change.go:60-70 + proposal.go:276): the instance
// holds a quorum of round-changes for a round ABOVE its current one, this operator leads that round, and the
// proposal it emits carries the instance's current round, which it does not lead.
func (s *sim) futureRoundStamp(o *oper, dec *queue.DecodedSSVMessage) bool {
	sm, ok := dec.Body.(*specqbft.SignedMessage)
	if !ok || sm.Message.MsgType != specqbft.ProposalMsgType {
		return false
	}
	inst := o.inst()
	if inst == nil || inst.State == nil || sm.Message.Round != inst.State.Round {
		return false
	}
	if specqbft.RoundRobinProposer(inst.State, sm.Message.Round) == o.id {
		return false
	}
	for r := inst.State.Round + 1; r <= s.maxRound; r++ {
		if specqbft.HasQuorum(inst.State.Share, inst.State.RoundChangeContainer.MessagesForRound(r)) && specqbft.RoundRobinProposer(inst.State, r) == o.id {
			return true
		}
	}
	return false
}

func (s *sim) emit(o *oper, dec *queue.DecodedSSVMessage, te int64, futureStamp bool) {
	m := dec.SSVMessage
	kind := msgKind(m, dec.Body)
	var round specqbft.Round
	sm, isQ := dec.Body.(*specqbft.SignedMessage)
	if isQ {
		round = sm.Message.Round
	}
	if f := o.faulty; f != nil {
		drop := false
		if isQ {
			bit := uint32(1) << (uint(round-1) % 32)
			if f.DropRounds&bit != 0 || (f.NoCommitRounds&bit != 0 && sm.Message.MsgType == specqbft.CommitMsgType) {
				drop = true
			}
		} else if f.DropPartial {
			drop = true
		}
		if drop {
			s.logf("t=%d op%d (faulty) keeps %s r%d to itself", te, o.id, kind, round)
			return
		}
	}
	s.msgSeq++
	seqNo := s.msgSeq
	if isQ && o.faulty == nil {
		switch kind {
		case "proposal":
			if h, ok := o.rcData[round]; ok && h != prog.Hash(sm.FullData) {
				s.otherValueAfterPreparedRC++
			}
			if round >= 2 {
				s.justProposal++
				if len(sm.Message.PrepareJustification) > 0 {
					s.justPrepared++
				}
			}
		case "round-change":
			if sm.Message.RoundChangePrepared() {
				s.preparedRC++
				if o.rcData == nil {
					o.rcData = map[specqbft.Round]string{}
				}
				o.rcData[round] = prog.Hash(sm.FullData)
			}
		case "decided":
			o.decided++
			if o.decided >= 2 {
				s.decidedRepeat = true
			}
		}
	} else if !isQ {
		s.partialMsgs++
	}
	s.validate(o, m, dec, kind, round, te, seqNo, futureStamp)
	if isQ && len(sm.Signers) == 1 {
		s.noteSent(o, round)
	}

	// hand the message to every operator (the sender receives its own publication at once)
	for _, rcv := range s.ops {
		var d int64
		if rcv != o {
			if s.p.InOrder {
				d = int64(s.p.DelayMs)
			} else {
				d = int64(s.p.Delays[(seqNo*s.p.N+int(rcv.id))%len(s.p.Delays)])
			}
			if d < 1 {
				d = 1
			}
			if i := int(o.id) - 1; kind == "commit" && !s.p.InOrder && i < len(s.p.CommitLagMs) {
				d += int64(s.p.CommitLagMs[i])
			}
		}
		at := te + d
		if isQ && kind != "decided" && !s.p.NoCap && !s.p.InOrder {
			// keep the link inside the premise where the round's end is one global instant (slot-anchored timers)
			if end, ok := s.anchoredEnd(round); ok && te < end-1 && at > end-1 {
				at = end - 1
			}
		}
		var rAt specqbft.Round
		if inst := rcv.inst(); inst != nil {
			rAt = inst.State.Round
		}
		s.push(&event{t: at, kind: evArrive, op: rcv, msg: dec, rAtEm: rAt, te: te})
	}
}

func (s *sim) anchoredEnd(r specqbft.Round) (int64, bool) {
	if !s.anchored || r >= s.maxRound {
		return 0, false
	}
	rtMu.Lock()
	defer rtMu.Unlock()
	v, ok := dlMemo[fmt.Sprintf("%d/%d/%d", s.role, specqbft.Height(s.slot), r)]
	return v, ok
}

func (o *oper) inst() *instance.Instance {
	if !o.started || !o.run.HasRunningDuty() {
		return nil
	}
	st := o.run.GetBaseRunner().State
	if st == nil {
		return nil
	}
	return st.RunningInstance
}

// validate is the correct peer: the message, wrapped like the p2p layer wraps it, goes through the real validator
// at emission time + delta. Messages are validated in emission order (a linear extension of causality) and the
// reception times are made monotone.
func (s *sim) validate(o *oper, m *spectypes.SSVMessage, dec *queue.DecodedSSVMessage, kind string, round specqbft.Round, te int64, seqNo int, futureStamp bool) {
	delta := int64(s.p.Deltas[seqNo%len(s.p.Deltas)])
	recv := te + delta
	if recv < s.lastRecv {
		recv = s.lastRecv
	}
	s.lastRecv = recv
	data := wrap(m, s.p.Signed, o.id)
	if len(data) > 1<<20 {
		s.bigMsg++
	}
	peerRecv := recv - int64(s.p.PeerBehindMs)
	at := s.slotStart.Add(time.Duration(peerRecv) * time.Millisecond)
	if at.After(s.mon.clock.Now()) {
		s.mon.clock.Set(at)
	}
	topic := s.mon.topic
	_, _, err := validation.ValidateP2PMessageAt(s.mon.mv, &pubsub.Message{Message: &pspb.Message{Data: data, Topic: &topic}}, at)
	class := validation.ErrorClass(err)
	text := validation.ErrorText(err)
	if err != nil && text == "" {
		text = "non-validation-error: " + err.Error()
	}
	fd := ""
	if sm, ok := dec.Body.(*specqbft.SignedMessage); ok && verbose {
		fd = fmt.Sprintf(" [signers=%v root=%x fulldata=%d:%s prepared-round=%d]", sm.Signers, sm.Message.Root[:3], len(sm.FullData), prog.Hash(sm.FullData), sm.Message.DataRound)
	}
	s.logf("t=%d op%d sends %s r%d (%d bytes)%s -> peer at t=%d: %s %s", te, o.id, kind, round, len(data), fd, recv, class, text)
	if o.faulty != nil {
		if class != "accept" {
			s.unjudged[class+":"+text]++
			if os.Getenv("C10_DEBUG_UNJUDGED") != "" && strings.Contains(text, os.Getenv("C10_DEBUG_UNJUDGED")) && s.fail == nil {
				s.fail = prog.Failf("C10:debug-unjudged", "debug: faulty operator %d %s r%d: %s %s", o.id, kind, round, class, text)
			}
		}
		return
	}
	if recv >= s.horizon {
		// outside the message's time window (the duty's lifetime): fed to the peer, not judged
		s.beyond[class+":"+text]++
		return
	}
	s.judged++
	if d := os.Getenv("C10_DEBUG_JUDGED"); d != "" && class != "accept" && strings.Contains(text, d) && s.fail == nil {
		s.fail = prog.Failf("C10:debug-judged", "debug: op %d %s r%d: %s %s", o.id, kind, round, class, text)
	}
	if round >= 2 && round <= 8 && peerRecv < int64(round-1)*2000 {
		s.levelWithEstimate++
	}
	if class != "accept" {
		s.results[class+":"+text+":"+kind]++
	}
	if class == "reject" {
		if s.violated {
			s.outOfPremise[text+":"+kind]++
			if d := os.Getenv("C10_DEBUG_OOP"); d != "" && strings.Contains(text, d) && s.fail == nil {
				s.fail = prog.Failf("C10:debug-oop", "debug: op %d %s r%d: %s %s", o.id, kind, round, class, text)
			}
			return
		}
		sig := "C10:reject:" + slug(text) + ":" + kind
		if s.lagged {
			// links and timers are timely, but some operator runs behind the others (late duty start; the proposer
			// role's per-operator timers): separately listable
			sig = "C10:reject-with-lagging-operator:" + slug(text) + ":" + kind
		}
		if text == validation.ErrSignerNotLeader.Text() && !futureStamp {
			// only the recognised mechanism keeps the plain (listable) signature
			sig += ":not-the-future-round-mechanism"
		}
		if prog.IsKnown(sig) {
			prog.KnownHit(testName, sig)
			return
		}
		if s.fail == nil {
			s.fail = prog.Failf(sig, "a %s message (round %d, %d bytes) that correct operator %d emitted at t=%dms after slot start was REJECTED by a correct peer receiving it at t=%dms: %v\nrole=%v n=%d slot=%d signed=%v",
				kind, round, len(data), o.id, te, recv, err, s.role, s.p.N, s.slot, s.p.Signed)
		}
		return
	}
	if class == "ignore" && s.faultFree() && s.p.InOrder && !s.violated && s.fail == nil {
		if s.staleFromLagging(dec, text) {
			s.results["stale-from-lagging-operator:"+kind]++
			return
		}
		if peerRecv < 0 && text == validation.ErrEarlyMessage.Text() {
			// the peer's clock still shows the previous slot: not a property of the message
			s.results["early-by-peer-clock:"+kind]++
			return
		}
		sig := "C10:fault-free-not-accepted:" + slug(text) + ":" + kind
		if prog.IsKnown(sig) {
			prog.KnownHit(testName, sig)
			return
		}
		s.fail = prog.Failf(sig, "fault-free run with in-order timely delivery: a %s message (round %d) that operator %d emitted at t=%dms was not accepted by a correct peer receiving it at t=%dms: %v\nrole=%v n=%d slot=%d signed=%v",
			kind, round, o.id, te, recv, err, s.role, s.p.N, s.slot, s.p.Signed)
	}
}

func (s *sim) faultFree() bool { return len(s.p.Faulty) == 0 }

// staleFromLagging: in a fault-free run whose operators start their duty at different times, a lagging operator
// still emits messages of a round that one of the message's signers has visibly left (that signer's own later-round
// message was emitted before). Such a message is out of round order at its source; the statement's second sentence
// (in-order delivery) is not applied to it. Only the "already advanced" rule text qualifies.
func (s *sim) staleFromLagging(dec *queue.DecodedSSVMessage, text string) bool {
	sm, ok := dec.Body.(*specqbft.SignedMessage)
	if !ok || text != validation.ErrRoundAlreadyAdvanced.Text() {
		return false
	}
	for _, sg := range sm.Signers {
		if int(sg) >= 1 && int(sg) <= len(s.ops) && s.ops[sg-1].lastSent > sm.Message.Round {
			return true
		}
	}
	return false
}

// consume mirrors validator.(*Validator).ConsumeQueue + ProcessMessage for one operator, synchronously.
func (s *sim) consume(o *oper, t int64) {
	if o.crashed || !o.started {
		return
	}
	if o.busy > t {
		return // a wake event is pending
	}
	for s.fail == nil && s.discard == "" {
		o.now = t
		if e := o.expired; e != nil {
			o.expired = nil
			if e.gen == o.armGen && o.run.HasRunningDuty() {
				e.t = t
				s.pushTimeout(o, e)
			}
		}
		st := queue.State{Quorum: o.run.GetBaseRunner().Share.Quorum, Round: 1}
		var running *instance.Instance
		hasDuty := o.run.HasRunningDuty()
		if hasDuty {
			running = o.run.GetBaseRunner().State.RunningInstance
			if running != nil {
				dcd, _ := running.IsDecided()
				st.HasRunningInstance = !dcd
				st.Round = running.State.Round
			}
		}
		st.Height = o.ctrl.Height
		filter := queue.FilterAny
		if !hasDuty {
			filter = func(m *queue.DecodedSSVMessage) bool {
				e, ok := m.Body.(*ssvtypes.EventMsg)
				return ok && e.Type == ssvtypes.ExecuteDuty
			}
		} else if running != nil && running.State.ProposalAcceptedForCurrentRound == nil {
			filter = func(m *queue.DecodedSSVMessage) bool {
				sm, ok := m.Body.(*specqbft.SignedMessage)
				if !ok {
					return true
				}
				if sm.Message.Height != st.Height || sm.Message.Round != st.Round {
					return true
				}
				return sm.Message.MsgType != specqbft.PrepareMsgType && sm.Message.MsgType != specqbft.CommitMsgType
			}
		}
		msg := o.q.TryPop(queue.NewMessagePrioritizer(&st), filter)
		if msg == nil {
			return
		}
		if verbose {
			d := ""
			if sm, ok := msg.Body.(*specqbft.SignedMessage); ok {
				d = fmt.Sprintf(" r%d signers=%v", sm.Message.Round, sm.Signers)
			} else if pm, ok := msg.Body.(*spectypes.SignedPartialSignatureMessage); ok {
				d = fmt.Sprintf(" signer=%d", pm.Signer)
			}
			s.logf("t=%d   op%d (round %d) processes %s%s", t, o.id, st.Round, msgKind(nil, msg.Body), d)
		}
		var err error
		switch body := msg.Body.(type) {
		case *specqbft.SignedMessage:
			err = o.run.ProcessConsensus(logger, body)
		case *spectypes.SignedPartialSignatureMessage:
			if body.Message.Type == spectypes.PostConsensusPartialSig {
				err = o.run.ProcessPostConsensus(logger, body)
			} else {
				err = o.run.ProcessPreConsensus(logger, body)
			}
		case *ssvtypes.EventMsg:
			if body.Type == ssvtypes.Timeout {
				err = o.ctrl.OnTimeout(logger, *body)
			}
		}
		if err != nil {
			s.logf("t=%d op%d handler: %v", o.now, o.id, err)
		}
		if o.now > t { // the handler blocked on its beacon node
			o.busy = o.now
			s.push(&event{t: o.busy, kind: evWake, op: o})
			return
		}
	}
}

func (s *sim) run() {
	// duty starts
	for i, o := range s.ops {
		at := s.nominalStart() + int64(s.p.StartMs[i])
		if i < len(s.p.LateRound) && s.p.LateRound[i] > 0 {
			a, b := s.roundWindow(s.p.LateRound[i])
			fr := 0
			if i < len(s.p.LateFrac) {
				fr = s.p.LateFrac[i]
			}
			at = a + (b-a)*int64(fr)/1000
		}
		if f := o.faulty; f != nil && f.CrashRound > 0 {
			a, b := s.roundWindow(f.CrashRound)
			o.crashAt = a + (b-a)*int64(f.CrashFrac)/1000
		} else {
			o.crashAt = -1
		}
		s.push(&event{t: at, kind: evStart, op: o})
	}
	steps := 0
	for s.evs.Len() > 0 && s.fail == nil && s.discard == "" {
		steps++
		if steps > 200000 {
			s.discard = "event budget exhausted"
			return
		}
		e := heap.Pop(&s.evs).(*event)
		o := e.op
		if o.crashAt >= 0 && e.t >= o.crashAt {
			o.crashed = true
		}
		if o.crashed {
			continue
		}
		switch e.kind {
		case evStart:
			o.now = e.t
			o.started = true
			duty := &spectypes.Duty{Type: s.role, PubKey: testingutils.TestingValidatorPubKey, Slot: s.slot, ValidatorIndex: testingutils.TestingValidatorIndex,
				CommitteeIndex: 3, CommitteesAtSlot: 36, CommitteeLength: 128, ValidatorCommitteeIndex: 11}
			if s.role == spectypes.BNRoleSyncCommittee || s.role == spectypes.BNRoleSyncCommitteeContribution {
				for _, x := range s.p.SyncIdx {
					duty.ValidatorSyncCommitteeIndices = append(duty.ValidatorSyncCommitteeIndices, uint64(x))
				}
			}
			if err := o.run.StartNewDuty(logger, duty); err != nil {
				s.logf("t=%d op%d start duty: %v", e.t, o.id, err)
			} else {
				s.logf("t=%d op%d started its duty (local time now %d)", e.t, o.id, o.now)
			}
			if o.now > e.t {
				o.busy = o.now
				s.push(&event{t: o.busy, kind: evWake, op: o})
			} else {
				s.consume(o, e.t)
			}
		case evArrive:
			if sm, ok := e.msg.Body.(*specqbft.SignedMessage); ok && len(sm.Signers) == 1 && sm.Signers[0] != o.id {
				// premise monitor: the link carried the message past the end of its round at this receiver - the
				// receiver was in the message's round (or before it) when the message was emitted and left that
				// round strictly later, before the message arrived. (A receiver that had left the round already,
				// or races through rounds whose deadlines have passed at the very instant of emission, makes the
				// message stale at its source; that is not the link's doing.)
				left, was := o.leftAt[sm.Message.Round]
				if end, ok := s.anchoredEnd(sm.Message.Round); ok && e.te >= end {
					// emitted after the global (slot-anchored) end of its round: stale at its source, whatever the link did
					was = false
				}
				if inst := o.inst(); inst != nil && inst.State.Round > sm.Message.Round && !(e.rAtEm != 0 && e.rAtEm <= sm.Message.Round && was && left > e.te) {
					if !s.lagged {
						s.logf("t=%d LAGGING: %s r%d from op%v was emitted when op%d had already left that round", e.t, msgKind(nil, sm), sm.Message.Round, sm.Signers, o.id)
					}
					s.lagged = true
				}
				if inst := o.inst(); inst != nil && inst.State.Round > sm.Message.Round && e.rAtEm != 0 && e.rAtEm <= sm.Message.Round && was && left > e.te {
					if !s.violated {
						s.logf("t=%d PREMISE: %s r%d from op%v reaches op%d in round %d", e.t, msgKind(nil, sm), sm.Message.Round, sm.Signers, o.id, inst.State.Round)
					}
					s.violated = true
				}
			}
			if !o.q.TryPush(e.msg) {
				s.logf("t=%d op%d queue full, message dropped", e.t, o.id)
				s.violated = true // a lost message is outside the premise as well
			}
			s.consume(o, e.t)
		case evTimer:
			if e.gen != o.armGen {
				continue // the real timer was reset meanwhile
			}
			if !o.run.HasRunningDuty() {
				continue // validator.onTimeout drops it
			}
			s.pushTimeout(o, e)
			s.consume(o, e.t)
		case evWake:
			if e.t >= o.busy {
				s.consume(o, e.t)
			}
		case evEmit:
			s.emit(o, e.msg, e.t, e.futureStamp)
		}
		// remember the highest round each operator has spoken in (after the event, i.e. in emission order)
	}
}

// pushTimeout is validator.(*Validator).onTimeout: the timer's event message goes into the operator's queue.
func (s *sim) pushTimeout(o *oper, e *event) {
	data, _ := json.Marshal(ssvtypes.TimeoutData{Height: e.h, Round: e.r})
	em := &ssvtypes.EventMsg{Type: ssvtypes.Timeout, Data: data}
	raw, _ := em.Encode()
	dm, err := queue.DecodeSSVMessage(&spectypes.SSVMessage{MsgType: ssvmessage.SSVEventMsgType, MsgID: spectypes.MessageIDFromBytes(o.ctrl.Identifier), Data: raw})
	if err != nil {
		panic(err)
	}
	s.logf("t=%d op%d timer (h%d r%d) fires", e.t, o.id, e.h, e.r)
	o.q.TryPush(dm)
}

func (s *sim) noteSent(o *oper, r specqbft.Round) {
	if r > o.lastSent {
		o.lastSent = r
	}
}

func run(p Prog) *prog.Result { r, _ := runSim(p); return r }

func runSim(p Prog) (*prog.Result, *sim) {
	if err := sane(p); err != "" {
		return &prog.Result{Discard: true, Classes: []string{"insane-program:" + err}}, nil
	}
	s := newSim(p)
	s.run()
	res := &prog.Result{}
	if s.discard != "" {
		res.Discard = true
		return res, s
	}
	dump := func() string {
		l := s.log
		if len(l) > 160 {
			l = append([]string{fmt.Sprintf("... (%d earlier lines omitted)", len(l)-160)}, l[len(l)-160:]...)
		}
		return strings.Join(l, "\n  ")
	}
	if s.fail != nil {
		s.fail.Msg += "\ntrace:\n  " + dump()
		res.Fail = s.fail
	}
	res.NonTrivial = s.justProposal > 0 || s.preparedRC > 0 || s.decidedRepeat
	cl := []string{
		fmt.Sprintf("role=%v", s.role), fmt.Sprintf("n=%d", p.N),
		fmt.Sprintf("max-round=%02d", s.reachedRound),
	}
	if s.faultFree() && p.InOrder {
		cl = append(cl, "fault-free-in-order")
		if s.reachedRound > 1 {
			cl = append(cl, "fault-free-in-order-with-round-changes")
		}
	}
	if s.preparedRC > 0 {
		cl = append(cl, "prepared-round-change")
	}
	if s.justProposal > 0 {
		cl = append(cl, "justified-proposal")
	}
	if s.justPrepared > 0 {
		cl = append(cl, "justified-proposal-with-prepares")
	}
	if s.decidedRepeat {
		cl = append(cl, "decided-repeats")
	}
	if s.otherValueAfterPreparedRC > 0 {
		cl = append(cl, "proposal-of-other-value-after-own-prepared-round-change")
	}
	if s.levelWithEstimate > 0 {
		cl = append(cl, "round-ahead-of-a-2s-clock-at-reception")
	}
	if s.violated {
		cl = append(cl, "link-left-premise")
	}
	if s.lagged {
		cl = append(cl, "lagging-operator")
	}
	if !s.violated && !s.lagged {
		cl = append(cl, "strictly-synchronous")
		if s.reachedRound > 1 {
			cl = append(cl, "strictly-synchronous-with-round-changes")
		}
	}
	if s.bigMsg > 0 {
		cl = append(cl, "message-over-1MiB")
	}
	if s.partialMsgs > 0 {
		cl = append(cl, "has-partial-signature-messages")
	}
	keys := make([]string, 0, len(s.results))
	for k := range s.results {
		keys = append(keys, k)
	}
	sort.Strings(keys)
	for _, k := range keys {
		cl = append(cl, "scenario-with:"+k)
		prog.Count(testName, "msgs:"+k, s.results[k])
	}
	for k, v := range s.unjudged {
		prog.Count(testName, "unjudged-faulty-operator-msgs:"+k, v)
	}
	for k, v := range s.beyond {
		prog.Count(testName, "msgs-after-duty-window-not-judged:"+k, v)
	}
	for k, v := range s.outOfPremise {
		prog.Count(testName, "reject-after-link-left-premise:"+k, v)
		cl = append(cl, "reject-after-link-left-premise:"+k)
	}
	prog.Count(testName, "judged-messages", s.judged)
	prog.Count(testName, "prepared-round-changes", s.preparedRC)
	prog.Count(testName, "justified-proposals", s.justProposal)
	res.Classes = cl
	return res, s
}

// TestTraceOne prints the full trace of the program in the file named by $C10_PROG (a debugging aid, not a check).
func TestTraceOne(t *testing.T) {
	f := os.Getenv("C10_PROG")
	if f == "" {
		t.Skip("no C10_PROG")
	}
	raw, err := os.ReadFile(f)
	if err != nil {
		t.Fatal(err)
	}
	var ff prog.FailFile
	var p Prog
	if json.Unmarshal(raw, &ff) == nil && len(ff.Program) > 0 {
		raw = ff.Program
	}
	if err := json.Unmarshal(raw, &p); err != nil {
		t.Fatal(err)
	}
	verbose = true
	res, s := runSim(p)
	if s != nil {
		fmt.Println(strings.Join(s.log, "\n"))
	}
	fmt.Printf("classes: %v\nnon-trivial: %v discard: %v\n", res.Classes, res.NonTrivial, res.Discard)
	if res.Fail != nil {
		fmt.Printf("FAIL %s\n%s\n", res.Fail.Sig, strings.SplitN(res.Fail.Msg, "\ntrace:", 2)[0])
	}
}

func sane(p Prog) string {
	if p.N != 4 && p.N != 7 {
		return "n"
	}
	if p.Role < 0 || p.Role > 4 {
		return "role"
	}
	if len(p.StartMs) != p.N || len(p.BNMs) != p.N || len(p.ValVar) != p.N || len(p.Deltas) == 0 {
		return "len"
	}
	if !p.InOrder && len(p.Delays) == 0 {
		return "delays"
	}
	if len(p.Faulty) > fx.F(p.N) {
		return "faulty"
	}
	if p.SlotOff < 0 || p.SlotOff > 31 {
		return "slot"
	}
	if p.PeerBehindMs < 0 || p.PeerBehindMs > 50 {
		return "peer-clock"
	}
	for _, x := range p.SyncIdx {
		if x < 0 || x >= syncCommitteeSize {
			return "syncidx"
		}
	}
	if len(p.SyncIdx) > 13 {
		return "syncidx-count"
	}
	return ""
}

// ---- generator -------------------------------------------------------------------------------------------

func gen(t *rapid.T) Prog {
	p := Prog{
		N:      rapid.SampledFrom([]int{4, 4, 7}).Draw(t, "n"),
		Role:   rapid.SampledFrom([]int{0, 0, 1, 2, 2, 3, 4}).Draw(t, "role"),
		Signed: rapid.Bool().Draw(t, "signed"),
		Verify: rapid.IntRange(0, 5).Draw(t, "verify") == 0,
	}
	p.SlotOff = rapid.IntRange(0, 31).Draw(t, "slot_off")
	role := spectypes.BeaconRole(p.Role)
	f := fx.F(p.N)
	maxR := int(roleMaxRound(role))
	switch role {
	case spectypes.BNRoleProposer:
		p.Blinded = rapid.Bool().Draw(t, "blinded")
		p.Deneb = rapid.IntRange(0, 5).Draw(t, "deneb") == 0
	case spectypes.BNRoleSyncCommitteeContribution, spectypes.BNRoleSyncCommittee:
		k := rapid.IntRange(1, 4).Draw(t, "nsync")
		p.SyncIdx = rapid.SliceOfNDistinct(rapid.IntRange(0, syncCommitteeSize-1), k, k, rapid.ID[int]).Draw(t, "sync_idx") // positions in the committee: distinct
	}
	// shape: 0 fault-free on time, 1 fault-free with late starters, 2 silent operators, 3 silent operators + late starters
	// 4 = "prepared": 1..f operators that never send a commit + f+1-that-many correct late starters: the operators
	// present in the first rounds reach a prepare quorum but no commit quorum, so round changes carry prepared values
	// 5 = "fast cluster, slow leader" (proposer role only): everybody is correct and starts at the slot start over
	// millisecond links, but the round-1 leader's beacon node needs more than the round allowance to build the block,
	// so the others time out 2 s after a consensus start that is only milliseconds after the slot start - the one
	// place where an honest round number runs level with the validator's estimate from the slot start
	shapes := []int{0, 0, 1, 1, 1, 2, 3, 3, 3, 4, 4, 4}
	if role == spectypes.BNRoleProposer {
		shapes = append(shapes, 5, 5)
	}
	// 6 = "lagging leader" (roles without pre-consensus): fault-free; the round-1 leader and n-f-2 others start on
	// time (no quorum), f+1 operators start after the round-1 deadline, the last of them being the leader of the round
	// it starts in, with another duty-data variant than the round-1 leader. It drains a backlog holding the round-1
	// proposal and a prepare quorum, so it is prepared while the others are not.
	if role == spectypes.BNRoleAttester || role == spectypes.BNRoleSyncCommittee {
		shapes = append(shapes, 6, 6)
	}
	// 7 = "late pre-consensus quorum" (slot-anchored roles with pre-consensus): fault-free; f+1 operators start inside
	// one later round R, so the pre-consensus quorum completes then and EVERY instance starts with rounds 1..R-1 already
	// expired: all operators catch up at once, their round-changes for several rounds interleave over jittery links
	if role == spectypes.BNRoleAggregator || role == spectypes.BNRoleSyncCommitteeContribution {
		shapes = append(shapes, 7, 7)
	}
	shape := rapid.SampledFrom(shapes).Draw(t, "shape")
	if fs := os.Getenv("C10_FORCE_SHAPE"); fs != "" { // debugging aid: measure what one shape reaches
		shape = int(fs[0] - '0')
	}
	common := 0
	if role == spectypes.BNRoleAttester || role == spectypes.BNRoleSyncCommittee {
		common = rapid.IntRange(300, 4000).Draw(t, "block_arrival") // scheduler waits for the head block or one third of the slot
	}
	for i := 0; i < p.N; i++ {
		p.StartMs = append(p.StartMs, common+rapid.IntRange(0, 150).Draw(t, "start_jitter"))
		bn := rapid.IntRange(0, 300).Draw(t, "bn")
		if rapid.IntRange(0, 7).Draw(t, "bn_slow") == 0 {
			bn = rapid.IntRange(300, 1500).Draw(t, "bn_slow_ms")
		}
		p.BNMs = append(p.BNMs, bn)
		p.ValVar = append(p.ValVar, rapid.SampledFrom([]int{0, 0, 0, 1, 2}).Draw(t, "variant"))
		p.ExpiredTimerFirst = append(p.ExpiredTimerFirst, rapid.Bool().Draw(t, "expired_timer_first"))
	}
	if shape == 5 {
		base := uint64(beaconprotocol.NewNetwork(spectypes.PraterNetwork).GetEpochFirstSlot(baseEpochCapella))
		if p.Deneb {
			base = uint64(beaconprotocol.NewNetwork(spectypes.PraterNetwork).GetEpochFirstSlot(baseEpochDeneb))
		}
		leader := int((base + uint64(p.SlotOff)) % uint64(p.N)) // index of the round-1 leader (only shapes the case; nothing is judged with it)
		for i := 0; i < p.N; i++ {
			p.StartMs[i] = rapid.IntRange(0, 3).Draw(t, "fast_start")
			p.BNMs[i] = rapid.IntRange(0, 15).Draw(t, "fast_bn")
		}
		p.BNMs[leader] = rapid.IntRange(1900, 2600).Draw(t, "slow_leader_bn")
		p.InOrder = true
		p.DelayMs = rapid.IntRange(1, 4).Draw(t, "fast_delay")
		p.Deltas = []int{rapid.IntRange(0, 25).Draw(t, "fast_delta")}
		p.PeerBehindMs = rapid.IntRange(0, 50).Draw(t, "peer_behind")
		return p
	}
	if rapid.IntRange(0, 3).Draw(t, "peer_clock") == 0 {
		p.PeerBehindMs = rapid.IntRange(1, 50).Draw(t, "peer_behind")
	}
	if shape == 6 {
		base := uint64(beaconprotocol.NewNetwork(spectypes.PraterNetwork).GetEpochFirstSlot(baseEpochCapella))
		lead := func(r int) int { return int((base + uint64(p.SlotOff) + uint64(r) - 1) % uint64(p.N)) } // shapes the case only
		R := rapid.IntRange(2, minInt(maxR, 5)).Draw(t, "lag_round")
		for lead(R) == lead(1) {
			R++
		}
		l1, lr := lead(1), lead(R)
		cand := []int{}
		for i := 0; i < p.N; i++ {
			if i != l1 && i != lr {
				cand = append(cand, i)
			}
		}
		others := rapid.SliceOfNDistinct(rapid.SampledFrom(cand), f, f, rapid.ID[int]).Draw(t, "lag_others")
		p.LateRound = make([]int, p.N)
		p.LateFrac = make([]int, p.N)
		f0 := rapid.IntRange(200, 950).Draw(t, "lag_leader_frac")
		p.LateRound[lr], p.LateFrac[lr] = R, f0
		for _, i := range others { // inside round R as well (its leader is still absent), before the leader
			p.LateRound[i] = R
			p.LateFrac[i] = rapid.IntRange(0, f0-150).Draw(t, "lag_other_frac_before")
		}
		p.ValVar[l1] = 0
		p.ValVar[lr] = rapid.IntRange(1, 2).Draw(t, "lag_variant")
		p.ExpiredTimerFirst[lr] = rapid.IntRange(0, 3).Draw(t, "lag_timer_first") == 0
	}
	nf := 0
	if shape >= 2 && shape <= 4 {
		nf = rapid.IntRange(1, f).Draw(t, "nfaulty")
		ids := rapid.SliceOfNDistinct(rapid.IntRange(1, p.N), nf, nf, rapid.ID[int]).Draw(t, "faulty_ids")
		sort.Ints(ids)
		for _, id := range ids {
			s := Silence{Op: id}
			kinds := []string{"mute", "mute", "rounds", "nocommit", "crash"}
			if shape == 4 {
				kinds = []string{"nevercommit"}
			}
			switch rapid.SampledFrom(kinds).Draw(t, "fkind") {
			case "nevercommit":
				s.NoCommitRounds = 0xffffffff
				if rapid.IntRange(0, 3).Draw(t, "fnc_then_mute") == 0 {
					s.DropRounds = ^uint32(0) << uint(rapid.IntRange(1, 3).Draw(t, "fnc_mute_from")) // goes quiet altogether from some round on
				}
			case "mute":
				s.DropRounds = 0xffffffff
				s.DropPartial = rapid.Bool().Draw(t, "fpartial")
			case "rounds":
				s.DropRounds = uint32(rapid.IntRange(1, 1<<uint(maxR)-1).Draw(t, "fdrop"))
			case "nocommit":
				s.NoCommitRounds = uint32(rapid.IntRange(1, 1<<uint(maxR)-1).Draw(t, "fnocommit"))
				s.DropRounds = uint32(rapid.IntRange(0, 1<<uint(maxR)-1).Draw(t, "fdrop2")) &^ s.NoCommitRounds
			case "crash":
				s.CrashRound = rapid.IntRange(1, 3).Draw(t, "fcrash_round")
				s.CrashFrac = rapid.IntRange(0, 999).Draw(t, "fcrash_frac")
			}
			p.Faulty = append(p.Faulty, s)
		}
	}
	if shape == 7 {
		R := rapid.IntRange(3, 6).Draw(t, "catchup_round")
		late := rapid.SliceOfNDistinct(rapid.IntRange(0, p.N-1), f+1, f+1, rapid.ID[int]).Draw(t, "catchup_late")
		p.LateRound = make([]int, p.N)
		p.LateFrac = make([]int, p.N)
		for _, i := range late {
			p.LateRound[i] = R
			p.LateFrac[i] = rapid.IntRange(0, 700).Draw(t, "catchup_frac")
		}
		if rapid.IntRange(0, 3).Draw(t, "catchup_slow_one") > 0 {
			// one operator's beacon node is slower than the links: its instance starts when the others' round-changes
			// are already queued, and it drains them before its own expired timers
			slow := rapid.IntRange(0, p.N-1).Draw(t, "catchup_slow")
			for i := 0; i < p.N; i++ {
				p.BNMs[i] = rapid.IntRange(0, 60).Draw(t, "catchup_bn")
				p.ExpiredTimerFirst[i] = rapid.IntRange(0, 3).Draw(t, "catchup_timer_first") > 0
			}
			p.BNMs[slow] = rapid.IntRange(250, 600).Draw(t, "catchup_slow_bn")
			p.ExpiredTimerFirst[slow] = false
		}
	} else if shape == 6 {
		// late starters are set
	} else if shape == 1 || shape == 3 || shape == 4 {
		// enough late starters that no (commit) quorum is present until the first of them arrives
		nl := f + 1 - nf
		if shape != 4 {
			nl = rapid.IntRange(maxInt(1, f+1-nf), p.N-1-nf).Draw(t, "nlate")
		}
		cand := []int{}
		isF := map[int]bool{}
		for _, s := range p.Faulty {
			isF[s.Op] = true
		}
		for i := 1; i <= p.N; i++ {
			if !isF[i] {
				cand = append(cand, i)
			}
		}
		late := rapid.SliceOfNDistinct(rapid.SampledFrom(cand), nl, nl, rapid.ID[int]).Draw(t, "late_ids")
		p.LateRound = make([]int, p.N)
		p.LateFrac = make([]int, p.N)
		// stall target: the round in which the quorum completes; skewed to small rounds, reaching the maximum
		target := rapid.SampledFrom([]int{2, 2, 3, 3, 4, 5, 6, maxR - 1, maxR}).Draw(t, "stall")
		if target > maxR {
			target = maxR
		}
		for _, id := range late {
			r := rapid.IntRange(1, target).Draw(t, "late_round")
			if rapid.IntRange(0, 2).Draw(t, "late_at_target") > 0 {
				r = target
			}
			p.LateRound[id-1] = r
			p.LateFrac[id-1] = rapid.IntRange(0, 999).Draw(t, "late_frac")
		}
	}
	inOrderPct := 65
	if shape == 0 {
		inOrderPct = 45 // everybody present, jittery links: commits, decided and post-consensus messages race
	}
	if shape >= 2 {
		inOrderPct = 25
	}
	if shape == 4 {
		inOrderPct = 50
	}
	if shape == 6 {
		inOrderPct = 70
	}
	if shape == 7 {
		inOrderPct = 10
	}
	p.InOrder = rapid.IntRange(0, 99).Draw(t, "in_order") < inOrderPct
	if p.InOrder {
		p.DelayMs = rapid.IntRange(1, 300).Draw(t, "delay")
		p.Deltas = []int{rapid.IntRange(0, 1500).Draw(t, "delta")}
	} else {
		his := []int{50, 200, 400, 900, 0, 0}
		if shape == 7 {
			his = []int{30, 150, 150}
		}
		hi := rapid.SampledFrom(his).Draw(t, "delay_hi")
		if hi == 0 {
			// bimodal links: aggregated decided messages overtake the commits they were built from
			p.Delays = rapid.SliceOfN(rapid.OneOf(rapid.IntRange(1, 15), rapid.IntRange(250, 700)), 8, 48).Draw(t, "delays2")
		} else {
			p.Delays = rapid.SliceOfN(rapid.IntRange(1, hi), 8, 48).Draw(t, "delays")
		}
		p.Deltas = rapid.SliceOfN(rapid.IntRange(0, 1500), 4, 32).Draw(t, "deltas")
		p.NoCap = rapid.IntRange(0, 4).Draw(t, "nocap") == 0
		if rapid.IntRange(0, 2).Draw(t, "late_commits") == 0 {
			p.CommitLagMs = make([]int, p.N)
			for k := rapid.IntRange(1, p.N-1).Draw(t, "n_late_commit"); k > 0; k-- {
				p.CommitLagMs[rapid.IntRange(0, p.N-1).Draw(t, "late_commit_op")] = rapid.IntRange(50, 600).Draw(t, "commit_lag")
			}
		}
	}
	return p
}

func minInt(a, b int) int {
	if a < b {
		return a
	}
	return b
}

func maxInt(a, b int) int {
	if a > b {
		return a
	}
	return b
}

func TestPropTimelyNeverRejected(t *testing.T) { prog.Check(t, "C10", testName, gen, run) }

func TestReplay(t *testing.T) { prog.Replay(t, "C10", testName, run) }
