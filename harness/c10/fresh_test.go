package c10

// Second, light-weight check of C10: ONE message of a correct operator reaching a peer that has seen nothing of the
// duty yet (a node that just subscribed, or whose other links are slower) — for every committee size, every height
// residue (leader rotation), every round the role allows, every message kind. The committee simulation above covers
// committees of 4 and 7 along whole executions; it reaches rounds >= 5 and the rotation's wrap-around points only
// rarely. Here the proposal's signer is the leader as the operators themselves compute it (specqbft.RoundRobinProposer
// on the instance state, which is what SetupRunners installs as ProposerF), so the test is also a differential between
// the operators' and the validator's leader calculation. Reception time: when the message's round is current.

import (
	"fmt"
	"sort"
	"testing"

	specqbft "github.com/bloxapp/ssv-spec/qbft"
	spectypes "github.com/bloxapp/ssv-spec/types"
	"pgregory.net/rapid"

	"github.com/bloxapp/ssv/message/validation"

	"verif/harness/internal/prog"
	"verif/harness/internal/valfx"
	"verif/harness/internal/vmsg"
)

const freshTest = "TestPropFreshHonestAccepted"

type FreshProg struct {
	Signed bool      `json:"signed"`
	Msg    vmsg.Spec `json:"msg"`
	// Beyond: the round lies above the role's maximum but below the instance's cut-off (a correct, still undecided
	// instance keeps timing out and announcing rounds up to round 15) and the message is still inside its slot's time
	// window: the statement then only demands "not reject".
	Beyond bool `json:"beyond,omitempty"`
}

func freshMaxRound(role int) int {
	switch spectypes.BeaconRole(role) {
	case spectypes.BNRoleAttester, spectypes.BNRoleAggregator:
		return 12
	}
	return 6
}

// freshRecv: a reception time (ms after the slot start) at which round r is the current round of an operator that
// started its instance at the slot start: quick rounds of 2 s up to round 8, then 2 min each.
func freshRecv(round uint64, intoRoundMs int64) int64 {
	if round <= 8 {
		return int64(round-1)*2000 + intoRoundMs
	}
	return 16000 + int64(round-9)*120000 + intoRoundMs
}

func freshKind(s *vmsg.Spec) string {
	if s.SSVType == "partial" {
		return fmt.Sprintf("partial-type-%d", s.PType)
	}
	switch s.QType {
	case 0:
		return "proposal"
	case 1:
		return "prepare"
	case 2:
		if len(s.Signers) > 1 {
			return "decided"
		}
		return "commit"
	}
	return "round-change"
}

func runFresh(p FreshProg) *prog.Result {
	res := &prog.Result{NonTrivial: true}
	e := valfx.NewEnv(p.Signed)
	e.AddDuties(40)
	s := p.Msg
	v := e.Vals[s.Val]
	n := len(v.Share.Committee)
	if s.SSVType == "consensus" && s.QType == 0 {
		st := &specqbft.State{Share: &v.Share.Share, Height: specqbft.Height(s.Slot(e))}
		ld := uint64(specqbft.RoundRobinProposer(st, specqbft.Round(s.Round)))
		s.Leader, s.Signers, s.EnvOp = false, []uint64{ld}, ld
	}
	topic, data, recv := s.Build(e, p.Signed)
	if recv.After(e.Clock.Now()) {
		e.Clock.Set(recv)
	}
	_, _, err := validation.ValidateP2PMessageAt(e.MV, valfx.PMsg(topic, data), recv)
	h := uint64(s.Slot(e))
	res.Classes = []string{fmt.Sprintf("N=%d", n), "kind=" + freshKind(&s), fmt.Sprintf("role=%d", s.Role), fmt.Sprintf("round=%d", s.Round), fmt.Sprintf("signed=%v", p.Signed),
		fmt.Sprintf("height-and-round-mod-n=0:%v", h%uint64(n) == 0 && s.Round%uint64(n) == 0 && s.Round > 0)}
	sort.Strings(res.Classes)
	if p.Beyond {
		res.Classes = append(res.Classes, "beyond-role-max:"+validation.ErrorClass(err))
		sort.Strings(res.Classes)
		if err != nil && validation.ErrorClass(err) == "reject" {
			res.Fail = prog.Failf("C10:fresh-honest-message-rejected:beyond-role-max", "a %s of a correct operator for round %d (role %d, maximum %d, instance cut-off 15), received %d ms into its slot, was classified as reject by a peer that had seen nothing before: %s\nmessage: %+v",
				freshKind(&s), s.Round, s.Role, freshMaxRound(s.Role), s.RecvRelMs, validation.ErrorText(err), s)
		}
		return res
	}
	if err != nil {
		txt := validation.ErrorText(err)
		if txt == "" {
			txt = err.Error()
		}
		res.Fail = prog.Failf("C10:fresh-honest-message-rejected:"+freshKind(&s), "a %s of a correct operator (committee %d, role %d, height %d, round %d, signers %v, received %d ms into its slot) was refused by a peer that had seen nothing before: %s (class %s)\nmessage: %+v",
			freshKind(&s), n, s.Role, h, s.Round, s.Signers, s.RecvRelMs, txt, validation.ErrorClass(err), s)
	}
	return res
}

func genFresh(t *rapid.T) FreshProg {
	p := FreshProg{Signed: rapid.Bool().Draw(t, "signed")}
	s := vmsg.Spec{Topic: "right", EnvSig: "valid", SigKind: "ok", PSigKind: "ok", Just: "none"}
	s.Val = rapid.SampledFrom(valfx.ActiveIdx()).Draw(t, "val")
	n := valfx.CommitteeSize(s.Val)
	s.Role = rapid.SampledFrom([]int{0, 0, 1, 1, 2, 3, 4}).Draw(t, "role")
	s.SlotRel = int64(rapid.IntRange(0, 26).Draw(t, "slot"))
	signer := uint64(rapid.IntRange(1, n).Draw(t, "signer"))
	s.EnvOp = signer
	if rapid.IntRange(0, 5).Draw(t, "ispartial") == 0 {
		s.SSVType, s.PSigner, s.PCount = "partial", signer, 1
		s.RecvRelMs = int64(rapid.IntRange(0, 11000).Draw(t, "precv"))
		switch spectypes.BeaconRole(s.Role) {
		case spectypes.BNRoleAggregator:
			s.PType = rapid.SampledFrom([]int{0, 2}).Draw(t, "ptype")
		case spectypes.BNRoleProposer:
			s.PType = rapid.SampledFrom([]int{0, 1}).Draw(t, "ptype")
		case spectypes.BNRoleSyncCommitteeContribution:
			s.PType = rapid.SampledFrom([]int{0, 3}).Draw(t, "ptype")
		}
		p.Msg = s
		return p
	}
	s.SSVType = "consensus"
	max := freshMaxRound(s.Role)
	s.Round = uint64(rapid.IntRange(1, max).Draw(t, "round"))
	if rapid.IntRange(0, 2).Draw(t, "wrap") == 0 {
		// the rotation's wrap-around points: height and round at or next to a multiple of the committee size
		h0 := int64(valfx.NewEnv(false).Slot0())
		r := rapid.SampledFrom([]int64{0, 0, 1, int64(n) - 1}).Draw(t, "hres")
		s.SlotRel = (r - h0%int64(n) + int64(n)) % int64(n)
		var rs []int
		for r := 1; r <= max; r++ {
			if r%n == 0 || r%n == 1 || r%n == n-1 {
				rs = append(rs, r)
			}
		}
		s.Round = uint64(rapid.SampledFrom(rs).Draw(t, "round_wrap"))
	}
	if max == 6 && rapid.IntRange(0, 9).Draw(t, "beyond") == 0 {
		// rounds 7-9 of a role whose maximum is 6: reached 12-16 s after the slot start, well inside the slot's window
		p.Beyond = true
		s.Round = uint64(rapid.IntRange(7, 9).Draw(t, "round_beyond"))
	}
	s.RecvRelMs = freshRecv(s.Round, int64(rapid.IntRange(0, 1900).Draw(t, "into_round")))
	if rapid.Bool().Draw(t, "after_duty_wait") {
		// the sender started its instance when the duty's data became available (1/3 or 2/3 into the slot), not at the slot start
		switch spectypes.BeaconRole(s.Role) {
		case spectypes.BNRoleAttester, spectypes.BNRoleSyncCommittee:
			s.RecvRelMs += 4000
		case spectypes.BNRoleAggregator, spectypes.BNRoleSyncCommitteeContribution:
			s.RecvRelMs += 8000
		}
	}
	s.QType = rapid.IntRange(0, 3).Draw(t, "qtype")
	s.Signers = []uint64{signer}
	switch s.QType {
	case 0:
		s.Value = rapid.SampledFrom([]string{"A-value", "B-value"}).Draw(t, "value")
		if s.Round > 1 {
			s.Just = "rc-quorum"
		}
	case 2:
		if rapid.Bool().Draw(t, "decided") {
			q := n - (n-1)/3
			cnt := rapid.IntRange(q, n).Draw(t, "ndecided")
			ids := rapid.SliceOfNDistinct(rapid.IntRange(1, n), cnt, cnt, rapid.ID[int]).Draw(t, "dsigners")
			sort.Ints(ids)
			s.Signers = nil
			for _, i := range ids {
				s.Signers = append(s.Signers, uint64(i))
			}
			s.Value = "A-value"
			s.EnvOp = s.Signers[0]
		}
	}
	p.Msg = s
	return p
}

func TestPropFreshHonestAccepted(t *testing.T) { prog.Check(t, "C10", freshTest, genFresh, runFresh) }

func TestReplayFresh(t *testing.T) { prog.Replay(t, "C10", freshTest, runFresh) }
