package c06

import (
	"bytes"
	"encoding/hex"
	"fmt"
	"sort"
	"testing"

	specqbft "github.com/bloxapp/ssv-spec/qbft"
	spectypes "github.com/bloxapp/ssv-spec/types"
	"github.com/bloxapp/ssv-spec/types/testingutils"
	"go.uber.org/zap"
	"pgregory.net/rapid"

	"github.com/bloxapp/ssv/protocol/v2/qbft/instance"

	"verif/harness/internal/fx"
	"verif/harness/internal/prog"
)

func TestMain(m *testing.M) { prog.Main(m) }

// ---- program ------------------------------------------------------------------------------------

type Mut struct {
	Kind string `json:"k"`
	Arg  int    `json:"a,omitempty"`
}

type MsgSpec struct {
	T        string `json:"t"`                  // proposal prepare commit rc
	Signer   int    `json:"signer"`             // 0 = round-robin leader of the message's round, else operator id
	RoundRel int    `json:"round_rel"`          // message round = current round of the reference instance + RoundRel
	Value    string `json:"value,omitempty"`    // A B X(invalid) acc(accepted proposal's) auto(highest prepared in justification, else A)
	Just     string `json:"just,omitempty"`     // proposal: auto none short
	Prepared string `json:"prepared,omitempty"` // rc: none | pool (highest prepare quorum in pool) | force
	PRound   int    `json:"pround,omitempty"`   // rc force: prepared round
	Muts     []Mut  `json:"muts,omitempty"`
}

type Step struct {
	Kind  string   `json:"kind"` // msg timeout
	Msg   *MsgSpec `json:"msg,omitempty"`
	Burst int      `json:"burst,omitempty"` // >1: the same template from Burst consecutive signers starting at Msg.Signer
	// flow: leader proposal (auto-justified) for the current round, then P prepares and C commits for the
	// accepted value from consecutive signers starting at Off
	P, C, Off int
	Muts      []Mut `json:"muts,omitempty"` // reprop: mutations of the re-proposal
}

type Prog struct {
	N      int    `json:"n"`
	Self   int    `json:"self"`
	Height uint64 `json:"height"`
	Start  string `json:"start"` // start value of the instance under test: A or B
	Steps  []Step `json:"steps"`
}

var values = map[string][]byte{
	"A": []byte("value-A-0123456789"),
	"B": []byte("value-B-9876543210"),
	"X": fx.InvalidValue,
}

func root(v []byte) [32]byte { r, _ := specqbft.HashDataRoot(v); return r }

// ---- interpreter --------------------------------------------------------------------------------

type world struct {
	p      Prog
	ks     *testingutils.TestKeySet
	id     []byte
	height specqbft.Height
	quorum int

	spec                *specqbft.Instance
	node, nodeC         *instance.Instance
	specNet, nodeNet    *fx.Net
	nodeCNet            *fx.Net
	specTimer           *fx.SpecTimer
	nodeTimer, nodeCTmr *fx.Timer

	prepares []*specqbft.SignedMessage // pool of well-formed prepares seen/constructed
	rcs      []*specqbft.SignedMessage // pool of well-formed round changes (with full data)
	log      []string
}

func newWorld(p Prog) *world {
	w := &world{p: p, ks: fx.KeySet(p.N), height: specqbft.Height(p.Height)}
	mid := fx.Identifier(w.ks, spectypes.BNRoleAttester)
	w.id = mid[:]
	w.quorum = int(w.ks.Threshold)
	self := spectypes.OperatorID(p.Self)
	w.specNet, w.nodeNet, w.nodeCNet = &fx.Net{}, &fx.Net{}, &fx.Net{}
	w.specTimer, w.nodeTimer, w.nodeCTmr = &fx.SpecTimer{}, &fx.Timer{}, &fx.Timer{}
	w.spec = specqbft.NewInstance(fx.SpecConfig(w.ks, self, w.specNet, w.specTimer), fx.Share(w.ks, self), w.id, w.height)
	w.node = instance.NewInstance(fx.NodeConfig(w.nodeNet, w.nodeTimer, fx.NewMemStore(), true), fx.Share(w.ks, self), w.id, w.height)
	w.nodeC = instance.NewInstance(fx.NodeConfig(w.nodeCNet, w.nodeCTmr, fx.NewMemStore(), true), fx.Share(w.ks, self), w.id, w.height)
	return w
}

func (w *world) leader(round specqbft.Round) spectypes.OperatorID {
	if round == 0 || uint64(round) > 1<<20 {
		return 1
	}
	return specqbft.RoundRobinProposer(&specqbft.State{Height: w.height, Share: fx.Share(w.ks, 1)}, round)
}

func (w *world) sk(id spectypes.OperatorID) spectypes.OperatorID {
	if _, ok := w.ks.Shares[id]; ok {
		return id
	}
	return 1 // foreign id: signed with operator 1's key (cannot verify)
}

func (w *world) sign(id spectypes.OperatorID, m *specqbft.Message) *specqbft.SignedMessage {
	return fx.SignWith(w.ks.Shares[w.sk(id)], id, m)
}

// poolPrepares returns one prepare per signer for (round, root) from the pool, synthesising missing ones up to want.
func (w *world) poolPrepares(round specqbft.Round, r [32]byte, want int, synth bool) []*specqbft.SignedMessage {
	seen := map[spectypes.OperatorID]bool{}
	var out []*specqbft.SignedMessage
	for _, m := range w.prepares {
		if m.Message.Round == round && m.Message.Root == r && m.Message.Height == w.height && !seen[m.Signers[0]] {
			seen[m.Signers[0]] = true
			out = append(out, m)
		}
	}
	for id := spectypes.OperatorID(1); synth && len(out) < want && int(id) <= w.p.N; id++ {
		if !seen[id] {
			m := w.sign(id, &specqbft.Message{MsgType: specqbft.PrepareMsgType, Height: w.height, Round: round, Identifier: w.id, Root: r})
			w.prepares = append(w.prepares, m)
			out = append(out, m)
		}
	}
	return out
}

// highestPreparedInPool finds the highest round < below with a prepare quorum in the pool.
func (w *world) highestPreparedInPool(below specqbft.Round) (specqbft.Round, [32]byte, bool) {
	type key struct {
		r    specqbft.Round
		root [32]byte
	}
	cnt := map[key]map[spectypes.OperatorID]bool{}
	for _, m := range w.prepares {
		if m.Message.Height != w.height || m.Message.Round >= below {
			continue
		}
		k := key{m.Message.Round, m.Message.Root}
		if cnt[k] == nil {
			cnt[k] = map[spectypes.OperatorID]bool{}
		}
		cnt[k][m.Signers[0]] = true
	}
	var best key
	found := false
	for k, s := range cnt {
		if len(s) >= w.quorum && (!found || k.r > best.r || (k.r == best.r && bytes.Compare(k.root[:], best.root[:]) > 0)) {
			best, found = k, true
		}
	}
	return best.r, best.root, found
}

func (w *world) valueForRoot(r [32]byte) []byte {
	for _, k := range []string{"A", "B", "X"} {
		if root(values[k]) == r {
			return values[k]
		}
	}
	return nil
}

func (w *world) build(s *MsgSpec) *specqbft.SignedMessage {
	cur := int64(w.spec.State.Round)
	rr := cur + int64(s.RoundRel)
	if rr < 0 {
		rr = 0
	}
	round := specqbft.Round(rr)
	signer := spectypes.OperatorID(s.Signer)
	if s.Signer == 0 {
		signer = w.leader(round)
	}
	pickValue := func(def []byte) []byte {
		switch s.Value {
		case "A", "B", "X":
			return values[s.Value]
		case "acc":
			if p := w.spec.State.ProposalAcceptedForCurrentRound; p != nil {
				return p.FullData
			}
		}
		return def
	}
	msg := &specqbft.Message{Height: w.height, Round: round, Identifier: w.id}
	var fullData []byte
	switch s.T {
	case "proposal":
		msg.MsgType = specqbft.ProposalMsgType
		var rcj, pj []*specqbft.SignedMessage
		def := values["A"]
		if round > 1 && s.Just != "none" {
			seen := map[spectypes.OperatorID]bool{}
			for _, m := range w.rcs {
				if m.Message.Round == round && m.Message.Height == w.height && !seen[m.Signers[0]] {
					seen[m.Signers[0]] = true
					rcj = append(rcj, m)
				}
			}
			want := w.quorum
			if s.Just == "short" {
				want--
			}
			for id := spectypes.OperatorID(1); len(rcj) < want && int(id) <= w.p.N; id++ {
				if !seen[id] {
					m := w.sign(id, &specqbft.Message{MsgType: specqbft.RoundChangeMsgType, Height: w.height, Round: round, Identifier: w.id})
					w.rcs = append(w.rcs, m)
					rcj = append(rcj, m)
				}
			}
			if len(rcj) > want && s.Just == "short" {
				rcj = rcj[:want]
			}
			var hp *specqbft.SignedMessage
			for _, m := range rcj {
				if m.Message.RoundChangePrepared() && (hp == nil || m.Message.DataRound > hp.Message.DataRound) {
					hp = m
				}
			}
			if hp != nil {
				pj = w.poolPrepares(hp.Message.DataRound, hp.Message.Root, w.quorum, true)
				if v := w.valueForRoot(hp.Message.Root); v != nil {
					def = v
				}
			}
		}
		fullData = pickValue(def)
		msg.Root = root(fullData)
		strip := func(ms []*specqbft.SignedMessage) []*specqbft.SignedMessage {
			out := make([]*specqbft.SignedMessage, len(ms))
			for i, m := range ms {
				out[i] = m.WithoutFUllData()
			}
			return out
		}
		msg.RoundChangeJustification, _ = specqbft.MarshalJustifications(strip(rcj))
		msg.PrepareJustification, _ = specqbft.MarshalJustifications(strip(pj))
	case "prepare":
		msg.MsgType = specqbft.PrepareMsgType
		msg.Root = root(pickValue(values["A"]))
	case "commit":
		msg.MsgType = specqbft.CommitMsgType
		msg.Root = root(pickValue(values["A"]))
	case "rc":
		msg.MsgType = specqbft.RoundChangeMsgType
		switch s.Prepared {
		case "pool":
			if pr, r, ok := w.highestPreparedInPool(round); ok {
				msg.DataRound, msg.Root = pr, r
				fullData = w.valueForRoot(r)
				msg.RoundChangeJustification, _ = specqbft.MarshalJustifications(w.poolPrepares(pr, r, w.quorum, false))
			}
		case "force":
			pr := specqbft.Round(s.PRound)
			fullData = pickValue(values["A"])
			msg.DataRound, msg.Root = pr, root(fullData)
			msg.RoundChangeJustification, _ = specqbft.MarshalJustifications(w.poolPrepares(pr, msg.Root, w.quorum, true))
		}
	}
	// pre-signature mutations (signature stays valid for the mutated content)
	post := []Mut{}
	for _, m := range s.Muts {
		switch m.Kind {
		case "type":
			msg.MsgType = specqbft.MessageType(m.Arg)
		case "height":
			msg.Height = specqbft.Height(int64(msg.Height) + int64(m.Arg))
		case "round":
			msg.Round = specqbft.Round(m.Arg)
		case "root":
			msg.Root[m.Arg%32] ^= 0x40
		case "dataround":
			msg.DataRound = specqbft.Round(m.Arg)
		case "identifier":
			id := append([]byte(nil), msg.Identifier...)
			id[m.Arg%len(id)] ^= 1
			msg.Identifier = id
		case "fulldata-drop":
			fullData = nil
		case "fulldata-other":
			fullData = values["B"]
			if bytes.Equal(fullData, values["A"]) || msg.Root == root(values["B"]) {
				fullData = values["A"]
			}
		case "rcj-drop":
			if len(msg.RoundChangeJustification) > 0 {
				msg.RoundChangeJustification = msg.RoundChangeJustification[:len(msg.RoundChangeJustification)-1]
			}
		case "rcj-dup":
			if len(msg.RoundChangeJustification) > 0 {
				msg.RoundChangeJustification[len(msg.RoundChangeJustification)-1] = msg.RoundChangeJustification[0]
			}
		case "pj-drop":
			if len(msg.PrepareJustification) > 0 {
				msg.PrepareJustification = msg.PrepareJustification[:len(msg.PrepareJustification)-1]
			}
		case "pj-extra", "rcj-extra":
			// one more WELL-FORMED, correctly signed entry than needed in a justification list, off in one respect chosen by
			// Arg: 0 other root, 1 other round, 2 a copy of the first entry, 3 other height, 4 nothing (a legitimate extra
			// entry by a signer not listed yet)
			list := &msg.PrepareJustification
			if m.Kind == "rcj-extra" || msg.MsgType == specqbft.RoundChangeMsgType {
				list = &msg.RoundChangeJustification
			}
			if len(*list) == 0 || len(*list) >= 13 {
				break
			}
			first := &specqbft.SignedMessage{}
			if err := first.Decode((*list)[0]); err != nil || len(first.Signers) != 1 {
				break
			}
			listed := map[spectypes.OperatorID]bool{}
			for _, b := range *list {
				x := &specqbft.SignedMessage{}
				if x.Decode(b) == nil && len(x.Signers) == 1 {
					listed[x.Signers[0]] = true
				}
			}
			extraSigner := spectypes.OperatorID(0)
			for id := spectypes.OperatorID(1); int(id) <= w.p.N; id++ {
				if !listed[id] {
					extraSigner = id
					break
				}
			}
			if extraSigner == 0 {
				extraSigner = first.Signers[0]
			}
			em := first.Message
			em.RoundChangeJustification, em.PrepareJustification = nil, nil
			var eb []byte
			switch m.Arg % 5 {
			case 0:
				em.Root[3] ^= 0x40
			case 1:
				em.Round++
			case 2:
				eb = (*list)[0]
			case 3:
				em.Height++
			}
			if eb == nil {
				eb, _ = w.sign(extraSigner, &em).Encode()
			}
			*list = append(*list, eb)
		case "rcj-garbage": // the SSZ list holds at most 13 entries: a full list gets its last entry replaced
			if len(msg.RoundChangeJustification) >= 13 {
				msg.RoundChangeJustification[12] = []byte{1, 2, 3}
			} else {
				msg.RoundChangeJustification = append(msg.RoundChangeJustification, []byte{1, 2, 3})
			}
		case "pj-garbage":
			if len(msg.PrepareJustification) >= 13 {
				msg.PrepareJustification[12] = []byte{9, 9}
			} else {
				msg.PrepareJustification = append(msg.PrepareJustification, []byte{9, 9})
			}
		default:
			post = append(post, m)
		}
	}
	sm := w.sign(signer, msg)
	sm.FullData = fullData
	for _, m := range post {
		switch m.Kind {
		case "sig-flip":
			sm.Signature[m.Arg%len(sm.Signature)] ^= 0x01
		case "sig-other":
			other := spectypes.OperatorID(m.Arg%w.p.N + 1)
			sm.Signature = fx.SignWith(w.ks.Shares[other], signer, msg).Signature
		case "signers-dup":
			if len(sm.Signers) > 0 {
				sm.Signers = append(sm.Signers, sm.Signers[0])
			}
		case "signers-zero":
			sm.Signers = []spectypes.OperatorID{0}
		case "signers-foreign":
			sm.Signers = []spectypes.OperatorID{spectypes.OperatorID(w.p.N + 1 + m.Arg%3)}
		case "signers-two":
			o := spectypes.OperatorID(m.Arg%w.p.N + 1)
			if o != signer && len(sm.Signers) == 1 {
				sm = fx.Aggregate([]*specqbft.SignedMessage{sm, w.sign(o, msg)})
				sm.FullData = fullData
			}
		case "signers-empty":
			sm.Signers = nil
		}
	}
	return sm
}

func clone(m *specqbft.SignedMessage) *specqbft.SignedMessage {
	b, err := m.Encode()
	if err != nil {
		return m.DeepCopy()
	}
	c := &specqbft.SignedMessage{}
	if err := c.Decode(b); err != nil {
		return m.DeepCopy()
	}
	return c
}

// learn adds well-formed messages to the pools used by "auto" justifications.
func (w *world) learn(m *specqbft.SignedMessage) {
	if len(m.Signers) != 1 || m.Message.Height != w.height || !bytes.Equal(m.Message.Identifier, w.id) {
		return
	}
	switch m.Message.MsgType {
	case specqbft.PrepareMsgType:
		w.prepares = append(w.prepares, m)
	case specqbft.RoundChangeMsgType:
		w.rcs = append(w.rcs, m)
	}
}

type outcome struct {
	errNil  bool
	errText string
	decided bool
	value   []byte
	agg     *specqbft.SignedMessage
}

func aggKey(a *specqbft.SignedMessage) string {
	if a == nil {
		return "<nil>"
	}
	c := a.DeepCopy()
	c.Signers = fx.SortedSigners(c.Signers) // documented normalisation: the node sorts signers, the spec does not
	b, _ := c.Encode()
	return hex.EncodeToString(b)
}

func encAll(ms []*spectypes.SSVMessage) []string {
	out := make([]string, len(ms))
	for i, m := range ms {
		b, _ := m.Encode()
		out[i] = hex.EncodeToString(b)
	}
	return out
}

func eqStr(a, b []string) bool {
	if len(a) != len(b) {
		return false
	}
	for i := range a {
		if a[i] != b[i] {
			return false
		}
	}
	return true
}

var logger = zap.NewNop()

func run(p Prog) *prog.Result {
	res := &prog.Result{}
	w := newWorld(p)
	start := values[p.Start]
	classes := map[string]bool{}
	mutatedProcessed := false
	maxRound := specqbft.Round(1)
	fail := func(sig, f string, a ...any) *prog.Result {
		res.Fail = prog.Failf("C06:"+sig, f+"\nlog:\n%s", append(a, w.dump())...)
		return res
	}
	// compare everything observable after an action
	twinOff := false // compacted twin excluded after a listed known finding was hit
	compactedWhileDecided := false
	compare := func(step int, what string, so, no, co outcome) *prog.Result {
		sb, nb, cb := encAll(w.specNet.Drain()), encAll(w.nodeNet.Drain()), encAll(w.nodeCNet.Drain())
		diff := func(name string, o outcome, b []string) (string, string) {
			switch {
			case so.errNil != o.errNil:
				return "accept-mismatch", fmt.Sprintf("step %d (%s): spec err=%q, %s err=%q", step, what, so.errText, name, o.errText)
			case !eqStr(sb, b):
				return "broadcast-mismatch", fmt.Sprintf("step %d (%s): spec broadcast %d message(s), %s %d, or contents differ\nspec=%v\n%s=%v", step, what, len(sb), name, len(b), sb, name, b)
			case so.decided != o.decided || !bytes.Equal(so.value, o.value):
				return "decision-mismatch", fmt.Sprintf("step %d (%s): spec decided=%v value=%x, %s decided=%v value=%x", step, what, so.decided, so.value, name, o.decided, o.value)
			case aggKey(so.agg) != aggKey(o.agg):
				return "aggregate-mismatch", fmt.Sprintf("step %d (%s): aggregated commit differs between spec and %s", step, what, name)
			}
			return "", ""
		}
		if sig, msg := diff("node", no, nb); sig != "" {
			return fail(sig, "%s", msg)
		}
		sr, _ := w.spec.State.GetRoot()
		nr, _ := w.node.State.GetRoot()
		if sr != nr {
			sj, _ := w.spec.State.Encode()
			nj, _ := w.node.State.Encode()
			return fail("state-root-mismatch", "step %d (%s): State.GetRoot differs\nspec=%s\nnode=%s", step, what, sj, nj)
		}
		// timers: same sequence of armed rounds
		tmr := func(name string, arms []fx.Arm) string {
			if len(w.specTimer.Rounds) != len(arms) {
				return fmt.Sprintf("step %d (%s): spec armed %v, %s %v", step, what, w.specTimer.Rounds, name, arms)
			}
			for i, r := range w.specTimer.Rounds {
				if arms[i].Round != r || arms[i].Height != w.height {
					return fmt.Sprintf("step %d (%s): spec armed %v, %s %v", step, what, w.specTimer.Rounds, name, arms)
				}
			}
			return ""
		}
		if m := tmr("node", w.nodeTimer.Arms); m != "" {
			return fail("timer-mismatch", "%s", m)
		}
		if !twinOff {
			// divergences of the compacted twin are classified by whether the instance had already decided
			// when a compaction ran: post-decision compaction clears whole containers by design.
			sig, msg := diff("node+compaction", co, cb)
			if sig == "" {
				if m := tmr("node+compaction", w.nodeCTmr.Arms); m != "" {
					sig, msg = "timer-mismatch", m
				}
			}
			if sig != "" {
				phase := "before-decided"
				if compactedWhileDecided {
					phase = "after-decided"
				}
				full := "compaction-" + sig + "-" + phase
				if prog.IsKnown("C06:" + full) {
					prog.KnownHit("TestPropDifferential", "C06:"+full)
					twinOff = true
					classes["known-compaction-divergence"] = true
				} else {
					return fail(full, "%s", msg)
				}
			}
		}
		// own outputs feed the pools
		for _, h := range sb {
			raw, _ := hex.DecodeString(h)
			sm := &spectypes.SSVMessage{}
			if sm.Decode(raw) == nil {
				q := &specqbft.SignedMessage{}
				if q.Decode(sm.Data) == nil {
					w.learn(q)
				}
			}
		}
		return nil
	}

	w.spec.Start(start, w.height)
	w.node.Start(logger, start, w.height)
	w.nodeC.Start(logger, start, w.height)
	if r := compare(-1, "start", outcome{errNil: true}, outcome{errNil: true}, outcome{errNil: true}); r != nil {
		return r
	}
	var steps []Step
	for _, st := range p.Steps {
		if st.Kind == "msg" && st.Burst > 1 && st.Msg.Signer > 0 {
			for j := 0; j < st.Burst; j++ {
				c := *st.Msg
				c.Signer = (st.Msg.Signer-1+j)%p.N + 1
				steps = append(steps, Step{Kind: "msg", Msg: &c})
			}
			classes["burst"] = true
		} else if st.Kind == "timeouts" { // a run of consecutive timeouts (reaches the round cut-off)
			for j := 0; j < st.Burst; j++ {
				steps = append(steps, Step{Kind: "timeout"})
			}
			classes["timeout-run"] = true
		} else if st.Kind == "flow" {
			steps = append(steps, Step{Kind: "msg", Msg: &MsgSpec{T: "proposal", Value: "auto", Just: "auto"}})
			for j := 0; j < st.P; j++ {
				steps = append(steps, Step{Kind: "msg", Msg: &MsgSpec{T: "prepare", Value: "acc", Signer: (st.Off+j)%p.N + 1}})
			}
			for j := 0; j < st.C; j++ {
				steps = append(steps, Step{Kind: "msg", Msg: &MsgSpec{T: "commit", Value: "acc", Signer: (st.Off+j)%p.N + 1}})
			}
			classes["flow"] = true
		} else if st.Kind == "reprop" {
			// a prepared-but-undecided round, its timeout, prepared round-changes from a quorum, and the next leader's
			// re-proposal (justified by those round-changes and the prepares), possibly with one mutation of its lists
			q := p.N - (p.N-1)/3
			steps = append(steps, Step{Kind: "msg", Msg: &MsgSpec{T: "proposal", Value: "auto", Just: "auto"}})
			for j := 0; j < q+st.P%2; j++ {
				steps = append(steps, Step{Kind: "msg", Msg: &MsgSpec{T: "prepare", Value: "acc", Signer: (st.Off+j)%p.N + 1}})
			}
			steps = append(steps, Step{Kind: "timeout"})
			for j := 0; j < q+st.C%2; j++ {
				steps = append(steps, Step{Kind: "msg", Msg: &MsgSpec{T: "rc", Value: "acc", Signer: (st.Off+j)%p.N + 1, Prepared: "pool"}})
			}
			steps = append(steps, Step{Kind: "msg", Msg: &MsgSpec{T: "proposal", Value: "auto", Just: "auto", Muts: st.Muts}})
			for j := 0; j < q; j++ {
				steps = append(steps, Step{Kind: "msg", Msg: &MsgSpec{T: "prepare", Value: "acc", Signer: (st.Off+j)%p.N + 1}})
			}
			classes["reproposal-macro"] = true
		} else {
			steps = append(steps, st)
		}
	}
	for i, st := range steps {
		switch st.Kind {
		case "timeout":
			e1 := w.spec.UponRoundTimeout()
			e2 := w.node.UponRoundTimeout(logger)
			e3 := w.nodeC.UponRoundTimeout(logger)
			w.logf("%d timeout -> round %d err=%v", i, w.spec.State.Round, e1)
			mk := func(e error) outcome {
				o := outcome{errNil: e == nil}
				if e != nil {
					o.errText = e.Error()
				}
				return o
			}
			if r := compare(i, "timeout", mk(e1), mk(e2), mk(e3)); r != nil {
				return r
			}
			classes["timeout"] = true
		case "msg":
			m := w.build(st.Msg)
			if len(st.Msg.Muts) == 0 {
				w.learn(m)
			}
			do := func(f func(*specqbft.SignedMessage) (bool, []byte, *specqbft.SignedMessage, error)) outcome {
				d, v, a, e := f(clone(m))
				o := outcome{errNil: e == nil, decided: d, value: v, agg: a}
				if e != nil {
					o.errText = e.Error()
				}
				return o
			}
			so := do(w.spec.ProcessMsg)
			no := do(func(x *specqbft.SignedMessage) (bool, []byte, *specqbft.SignedMessage, error) {
				return w.node.ProcessMsg(logger, x)
			})
			co := do(func(x *specqbft.SignedMessage) (bool, []byte, *specqbft.SignedMessage, error) {
				return w.nodeC.ProcessMsg(logger, x)
			})
			// the runner compacts after every processed round-change (and decided) message, error or not
			if m.Message.MsgType == specqbft.RoundChangeMsgType {
				instance.Compact(w.nodeC.State, m)
				classes["compacted"] = true
				if w.nodeC.State.Decided {
					compactedWhileDecided = true
					classes["compacted-after-decided"] = true
				}
			}
			w.logf("%d %s r=%d signer=%v muts=%v -> err=%q round=%d decided=%v", i, st.Msg.T, m.Message.Round, m.Signers, st.Msg.Muts, so.errText, w.spec.State.Round, so.decided)
			if r := compare(i, fmt.Sprintf("%s %+v", st.Msg.T, *st.Msg), so, no, co); r != nil {
				return r
			}
			if len(st.Msg.Muts) > 0 {
				mutatedProcessed = true
				if so.errNil {
					classes["mutant-accepted"] = true
				} else {
					classes["mutant-rejected"] = true
				}
			} else if so.errNil {
				classes["accepted-"+st.Msg.T] = true
			}
			if so.decided {
				classes["decided"] = true
			}
		}
		if w.spec.State.Round > maxRound {
			maxRound = w.spec.State.Round
		}
	}
	if maxRound >= 2 {
		classes["round>=2"] = true
	}
	if maxRound >= 3 {
		classes["round>=3"] = true
	}
	if maxRound >= 14 {
		classes["round>=14 (cut-off region)"] = true
	}
	if w.spec.State.LastPreparedRound != 0 {
		classes["prepared"] = true
	}
	if maxRound >= 2 && w.spec.State.ProposalAcceptedForCurrentRound != nil {
		classes["justified-proposal-accepted"] = true
	}
	res.NonTrivial = (maxRound >= 2 || classes["decided"]) && mutatedProcessed
	for c := range classes {
		res.Classes = append(res.Classes, c)
	}
	sort.Strings(res.Classes)
	return res
}

func (w *world) logf(f string, a ...any) { w.log = append(w.log, fmt.Sprintf(f, a...)) }
func (w *world) dump() string {
	var b bytes.Buffer
	for _, l := range w.log {
		b.WriteString("  " + l + "\n")
	}
	return b.String()
}

// ---- generator ----------------------------------------------------------------------------------

var preMuts = []string{"type", "height", "round", "root", "dataround", "identifier", "fulldata-drop", "fulldata-other", "rcj-drop", "rcj-dup", "pj-drop", "rcj-garbage", "pj-garbage", "pj-extra", "pj-extra", "rcj-extra"}
var postMuts = []string{"sig-flip", "sig-other", "signers-dup", "signers-zero", "signers-foreign", "signers-two", "signers-empty"}

func genMut(t *rapid.T) Mut {
	all := append(append([]string{}, preMuts...), postMuts...)
	k := rapid.SampledFrom(all).Draw(t, "mut")
	m := Mut{Kind: k}
	switch k {
	case "type":
		m.Arg = rapid.IntRange(0, 5).Draw(t, "arg")
	case "height":
		m.Arg = rapid.SampledFrom([]int{-1, 1, 2}).Draw(t, "arg")
	case "round", "dataround":
		m.Arg = rapid.IntRange(0, 5).Draw(t, "arg")
	default:
		m.Arg = rapid.IntRange(0, 40).Draw(t, "arg")
	}
	return m
}

func genStep(n int) func(t *rapid.T) Step {
	return func(t *rapid.T) Step {
		kind := rapid.SampledFrom([]string{"msg", "msg", "msg", "msg", "msg", "msg", "msg", "msg", "msg", "msg", "msg", "msg", "flow", "flow", "reprop", "timeout", "timeout", "timeouts"}).Draw(t, "kind")
		if kind == "timeouts" {
			return Step{Kind: "timeouts", Burst: rapid.IntRange(3, 16).Draw(t, "ntimeouts")}
		}
		if kind == "timeout" {
			return Step{Kind: "timeout"}
		}
		if kind == "flow" {
			return Step{Kind: "flow", P: rapid.IntRange(0, n).Draw(t, "p"), C: rapid.IntRange(0, n).Draw(t, "c"), Off: rapid.IntRange(0, n-1).Draw(t, "off")}
		}
		if kind == "reprop" {
			st := Step{Kind: "reprop", P: rapid.IntRange(0, 1).Draw(t, "rp_p"), C: rapid.IntRange(0, 1).Draw(t, "rp_c"), Off: rapid.IntRange(0, n-1).Draw(t, "rp_off")}
			if rapid.IntRange(0, 3).Draw(t, "rp_mut") > 0 {
				k := rapid.SampledFrom([]string{"pj-extra", "pj-extra", "rcj-extra", "pj-drop", "rcj-drop", "rcj-dup", "pj-garbage", "fulldata-other", "root"}).Draw(t, "rp_mk")
				st.Muts = []Mut{{Kind: k, Arg: rapid.IntRange(0, 40).Draw(t, "rp_arg")}}
			}
			return st
		}
		s := &MsgSpec{}
		s.T = rapid.SampledFrom([]string{"proposal", "prepare", "prepare", "prepare", "commit", "commit", "commit", "rc", "rc", "rc"}).Draw(t, "t")
		s.RoundRel = rapid.SampledFrom([]int{0, 0, 0, 0, 0, 0, 1, 1, 2, -1}).Draw(t, "rrel")
		if s.T == "proposal" {
			s.Signer = rapid.SampledFrom([]int{0, 0, 0, 0, 1, 2}).Draw(t, "signer")
			s.Value = rapid.SampledFrom([]string{"auto", "auto", "auto", "A", "B", "X"}).Draw(t, "value")
			s.Just = rapid.SampledFrom([]string{"auto", "auto", "auto", "auto", "none", "short"}).Draw(t, "just")
		} else {
			s.Signer = rapid.IntRange(1, n).Draw(t, "signer")
			s.Value = rapid.SampledFrom([]string{"acc", "acc", "acc", "acc", "A", "B"}).Draw(t, "value")
		}
		if s.T == "rc" {
			s.Prepared = rapid.SampledFrom([]string{"none", "none", "pool", "pool", "force"}).Draw(t, "prepared")
			if s.Prepared == "force" {
				s.PRound = rapid.IntRange(1, 3).Draw(t, "pround")
				s.Value = rapid.SampledFrom([]string{"A", "B", "acc"}).Draw(t, "pvalue")
			}
		}
		nm := rapid.SampledFrom([]int{0, 0, 0, 0, 0, 1, 1, 2}).Draw(t, "nmuts")
		for i := 0; i < nm; i++ {
			s.Muts = append(s.Muts, genMut(t))
		}
		st := Step{Kind: "msg", Msg: s}
		if s.T != "proposal" && rapid.IntRange(0, 2).Draw(t, "isburst") > 0 {
			st.Burst = rapid.IntRange(2, n).Draw(t, "burst")
		}
		return st
	}
}

func gen(t *rapid.T) Prog {
	n := rapid.SampledFrom([]int{4, 4, 4, 7, 7, 10, 13}).Draw(t, "n")
	p := Prog{N: n, Self: rapid.IntRange(1, n).Draw(t, "self"), Height: uint64(rapid.IntRange(0, n+1).Draw(t, "height")),
		Start: rapid.SampledFrom([]string{"A", "B"}).Draw(t, "start")}
	p.Steps = rapid.SliceOfN(rapid.Custom(genStep(n)), 1, 24).Draw(t, "steps")
	return p
}

func TestPropDifferential(t *testing.T) { prog.Check(t, "C06", "TestPropDifferential", gen, run) }
func TestReplay(t *testing.T)           { prog.Replay(t, "C06", "TestPropDifferential", run) }
