package c05

// C05 — "Only validly threshold-signed duty objects reach the beacon node, once".
//
// A real runner (inside a real validator.Validator, see internal/dutysim) is brought by construction to
// the state in which partial signatures are pending: decided + own post-consensus share signed
// (attester, proposer full / blinded, sync-committee contribution) or duty started (voluntary exit,
// validator registration). Then a generated arrival sequence of partial-signature messages from all
// committee members is delivered through Validator.ProcessMessage; up to f members are faulty and
// choose per message among the fault kinds below. The oracle looks only at the beacon-node recorder.

import (
	"crypto/sha256"
	"encoding/json"
	"fmt"
	"os"
	"sort"
	"strings"
	"testing"

	"github.com/attestantio/go-eth2-client/spec/phase0"
	specqbft "github.com/bloxapp/ssv-spec/qbft"
	spectypes "github.com/bloxapp/ssv-spec/types"
	ssz "github.com/ferranbt/fastssz"
	"pgregory.net/rapid"

	"verif/harness/internal/dutysim"
	"verif/harness/internal/fx"
	"verif/harness/internal/prog"
)

func TestMain(m *testing.M) { prog.Main(m) }

// ---- program ---------------------------------------------------------------------------------------

// Arrival is one partial-signature message reaching the runner.
type Arrival struct {
	From int    `json:"from"`           // committee member 1..N (== Self: the runner's own broadcast looped back)
	Kind string `json:"kind,omitempty"` // fault kind; ignored ("good") for members not listed in Faulty
	Mask uint8  `json:"mask,omitempty"` // multi-root duties: which roots (bit i = i-th decided object) carry the fault; 0 = all
	Seed uint16 `json:"seed,omitempty"` // varies garbage bytes / foreign roots
}

type Prog struct {
	N        int       `json:"n"`
	Self     int       `json:"self"`
	Role     string    `json:"role"` // attester proposer proposer-blinded voluntary-exit registration contribution
	Direct   bool      `json:"direct,omitempty"`
	Slot     uint64    `json:"slot"`
	Value    string    `json:"value,omitempty"` // decided value: own | alt (consensus roles)
	Faulty   []int     `json:"faulty"`          // <= f member ids, never Self
	Arrivals []Arrival `json:"arrivals"`
}

// Fault kinds. "good" is the member's correct share.
//
//	garbage      96 pseudo-random bytes as the share signature
//	infinity     the compressed point at infinity as the share signature
//	other-root   a valid BLS signature by the member's own share key, but over another root
//	other-key    a valid BLS signature over the right root, by a key that is not the member's share key
//	wrong-root   the message names another signing root (whole message must be refused)
//	wrong-slot   the message names another slot (whole message must be refused)
//
// "share sent twice", "bad then good" and "good then bad" arise from several arrivals of one member.
var faultKinds = []string{"good", "garbage", "infinity", "other-root", "other-key", "wrong-root", "wrong-slot"}

var roles = []string{"attester", "proposer", "proposer-blinded", "voluntary-exit", "registration"}

func beaconRole(r string) spectypes.BeaconRole {
	switch r {
	case "attester":
		return spectypes.BNRoleAttester
	case "proposer", "proposer-blinded":
		return spectypes.BNRoleProposer
	case "voluntary-exit":
		return spectypes.BNRoleVoluntaryExit
	case "registration":
		return spectypes.BNRoleValidatorRegistration
	case "contribution":
		return spectypes.BNRoleSyncCommitteeContribution
	}
	panic("bad role " + r)
}

// ---- interpreter -----------------------------------------------------------------------------------

type pending struct {
	sim   *dutysim.Sim
	role  spectypes.BeaconRole
	id    spectypes.MessageID
	typ   spectypes.PartialSigMsgType
	slot  phase0.Slot
	objs  []ssz.HashRoot // the decided duty objects, in the order a correct member lists them
	roots [][32]byte     // hash-tree-roots of objs
	dt    phase0.DomainType
	own   *spectypes.SSVMessage // the runner's own partial-signature broadcast
}

// setup brings the runner to "partial signatures pending". Any error here is a harness error (panic).
func setup(p Prog) *pending {
	role := beaconRole(p.Role)
	s := dutysim.New(dutysim.Config{N: p.N, Self: spectypes.OperatorID(p.Self), Blinded: p.Role == "proposer-blinded", Direct: p.Direct})
	pd := &pending{sim: s, role: role, id: s.MsgID(role), slot: phase0.Slot(p.Slot)}
	duty := s.Duty(role, pd.slot)
	s.NextOp()
	if err := s.StartDuty(duty); err != nil {
		panic(fmt.Sprintf("setup: start duty: %v", err))
	}
	preType, hasPre := dutysim.PreType(role)
	consensus := role != spectypes.BNRoleVoluntaryExit && role != spectypes.BNRoleValidatorRegistration
	if !consensus {
		pd.typ = preType
		pd.objs, pd.dt = s.PreObjects(duty)
	} else {
		if hasPre {
			for _, id := range s.QuorumOthers() {
				s.NextOp()
				if err := s.Deliver(dutysim.PartialSSV(pd.id, s.PreMsg(id, duty))); err != nil {
					panic(fmt.Sprintf("setup: pre-consensus from %d: %v", id, err))
				}
			}
		}
		variant := p.Value
		if variant != "alt" {
			variant = "own"
		}
		value := s.Value(duty, variant)
		if err := s.OracleValueCheck(role)(value); err != nil {
			panic(fmt.Sprintf("setup: value %s invalid: %v", variant, err))
		}
		s.NextOp()
		if err := s.Deliver(dutysim.ConsensusSSV(pd.id, s.Cert(s.QuorumOthers(), pd.id[:], specqbft.Height(pd.slot), 1, value))); err != nil {
			panic(fmt.Sprintf("setup: certificate: %v", err))
		}
		pd.typ = spectypes.PostConsensusPartialSig
		var err error
		if pd.objs, pd.dt, err = dutysim.PostObjects(role, value); err != nil {
			panic(err)
		}
	}
	for _, o := range pd.objs {
		r, _ := o.HashTreeRoot()
		pd.roots = append(pd.roots, r)
	}
	for _, m := range s.Net.Drain() {
		if m.MsgType != spectypes.SSVPartialSignatureMsgType {
			continue
		}
		sm := &spectypes.SignedPartialSignatureMessage{}
		if sm.Decode(m.Data) == nil && sm.Message.Type == pd.typ {
			pd.own = m
		}
	}
	if pd.own == nil {
		panic("setup: the runner did not broadcast its own partial signature")
	}
	if len(s.BN.Submits) != 0 {
		panic("setup: something was submitted before any partial signature arrived")
	}
	return pd
}

func prng(seed uint16, tag string, n int) []byte {
	var out []byte
	h := sha256.Sum256([]byte(fmt.Sprintf("%s/%d", tag, seed)))
	for len(out) < n {
		out = append(out, h[:]...)
		h = sha256.Sum256(h[:])
	}
	return out[:n]
}

// build constructs member a.From's message. kind "good" = correct share for every decided object.
func (pd *pending) build(a Arrival, kind string, n int) *spectypes.SSVMessage {
	s := pd.sim
	from := spectypes.OperatorID(a.From)
	key := s.KS.Shares[from]
	m := s.Partial(from, key, pd.typ, pd.slot, pd.objs, pd.dt)
	hit := func(i int) bool { return a.Mask == 0 || len(pd.objs) == 1 || a.Mask&(1<<uint(i)) != 0 }
	touched := false
	for i, pm := range m.Message.Messages {
		if kind == "good" || kind == "wrong-slot" || !hit(i) {
			continue
		}
		touched = true
		switch kind {
		case "garbage":
			pm.PartialSignature = prng(a.Seed, "garbage", 96)
		case "infinity":
			pm.PartialSignature = append([]byte{0xc0}, make([]byte, 95)...)
		case "other-root":
			pm.PartialSignature = key.SignByte(prng(a.Seed, "root", 32)).Serialize()
		case "other-key":
			other := spectypes.OperatorID(a.From%n + 1)
			pm.PartialSignature = s.KS.Shares[other].SignByte(append([]byte(nil), pm.SigningRoot[:]...)).Serialize() // copy: cgo pointer rule
		case "wrong-root":
			copy(pm.SigningRoot[:], prng(a.Seed, "wrong", 32))
			pm.PartialSignature = key.SignByte(append([]byte(nil), pm.SigningRoot[:]...)).Serialize()
		}
	}
	if kind == "wrong-slot" {
		m.Message.Slot = pd.slot + 1 + phase0.Slot(a.Seed%3)
		touched = true
	}
	if touched {
		dutysim.SignEnvelope(m, key)
	}
	return dutysim.PartialSSV(pd.id, m)
}

func run(p Prog) *prog.Result {
	res := &prog.Result{}
	f := fx.F(p.N)
	faulty := map[int]bool{}
	for _, x := range p.Faulty {
		if x != p.Self && x >= 1 && x <= p.N && len(faulty) < f {
			faulty[x] = true
		}
	}
	pd := setup(p)
	s := pd.sim
	defer s.Close()
	quorum := 2*f + 1

	classes := map[string]bool{"role=" + p.Role: true, fmt.Sprintf("n=%d", p.N): true, fmt.Sprintf("faulty=%d", len(faulty)): true}
	correctDelivered := map[int]bool{}
	lastKind := map[int]string{}
	reconFailed, failedBeforeSubmit := 0, false
	var trace []string

	judge := func(step int) *prog.Failure {
		perObj := make([]int, len(pd.roots))
		for _, sub := range s.BN.Submits {
			obj := sub.Obj
			if sub.Kind == "registration" {
				reg := s.Registration(pd.slot)
				if string(sub.PubKey) != string(s.KS.ValidatorPK.Serialize()) || sub.FeeRecipient != reg.FeeRecipient {
					return prog.Failf("C05:submitted-other-object", "step %d: registration submitted for another key / fee recipient", step)
				}
				obj = reg
			}
			if obj == nil {
				return prog.Failf("C05:submitted-other-object", "step %d: %s submitted without an object", step, sub.Kind)
			}
			r, _ := obj.HashTreeRoot()
			idx := -1
			for i, want := range pd.roots {
				if want == r {
					idx = i
				}
			}
			if idx < 0 || sub.DomainType != pd.dt {
				return prog.Failf("C05:submitted-other-object", "step %d: submitted %s object %x is not a decided object of this duty", step, sub.Kind, r[:6])
			}
			// (a) the signature verifies under the validator public key over the decided object
			if !s.VerifyValidatorSig(sub.Sig[:], pd.objs[idx], pd.dt) {
				return prog.Failf("C05:invalid-signature-submitted", "step %d (op %d): submitted %s carries a signature that does not verify under the validator key over the decided object\n%s", step, sub.Op, sub.Kind, strings.Join(trace, "\n"))
			}
			perObj[idx]++
		}
		// (b) at most one submission per decided object
		for i, c := range perObj {
			if c > 1 {
				return prog.Failf("C05:submitted-twice", "step %d: decided object #%d submitted %d times\n%s", step, i, c, strings.Join(trace, "\n"))
			}
		}
		// (c) cannot prevent: 2f+1 distinct correct members' shares delivered => every decided object submitted
		if len(correctDelivered) >= quorum {
			for i, c := range perObj {
				if c != 1 {
					sig := "C05:not-submitted-despite-correct-quorum"
					if len(pd.roots) > 1 {
						sig = "C05:multi-root-object-not-submitted-despite-correct-quorum"
					}
					return prog.Failf(sig, "step %d: shares of %d distinct correct members (2f+1 = %d) have been delivered, but decided object #%d of %d has %d submissions (finished=%v)\n%s",
						step, len(correctDelivered), quorum, i, len(pd.roots), c, !s.Runner(pd.role).HasRunningDuty(), strings.Join(trace, "\n"))
				}
			}
		}
		return nil
	}

	for step, a := range p.Arrivals {
		if a.From < 1 || a.From > p.N {
			continue
		}
		kind := "good"
		var msg *spectypes.SSVMessage
		switch {
		case a.From == p.Self:
			msg = pd.own
		case faulty[a.From]:
			kind = a.Kind
			if kind == "" {
				kind = "good"
			}
			msg = pd.build(a, kind, p.N)
		default:
			msg = pd.build(a, "good", p.N)
		}
		before := len(s.BN.Submits)
		s.NextOp()
		err := s.Deliver(msg)
		if !faulty[a.From] {
			correctDelivered[a.From] = true
		} else {
			classes["kind="+kind] = true
			if prev, ok := lastKind[a.From]; ok {
				switch {
				case prev != "good" && kind == "good":
					classes["seq=bad-then-good"] = true
				case prev == "good" && kind != "good":
					classes["seq=good-then-bad"] = true
				case prev == "good" && kind == "good":
					classes["seq=good-twice"] = true
				default:
					classes["seq=bad-twice"] = true
				}
			}
			lastKind[a.From] = kind
		}
		es := ""
		if err != nil {
			es = " err=" + err.Error()
			if strings.Contains(err.Error(), "quorum but it has invalid signatures") {
				reconFailed++
				if len(s.BN.Submits) == 0 {
					failedBeforeSubmit = true
				}
			}
		}
		trace = append(trace, fmt.Sprintf("  %2d: from %d%s %s mask=%d -> submits %d->%d%s", step, a.From, map[bool]string{true: " (faulty)"}[faulty[a.From]], kind, a.Mask, before, len(s.BN.Submits), es))
		if fl := judge(step); fl != nil {
			res.Fail = fl
			return res
		}
	}

	submitted := len(s.BN.Submits) > 0
	if submitted {
		classes["submitted"] = true
	}
	if reconFailed > 0 {
		classes["reconstruction-failed"] = true
	}
	if reconFailed > 1 {
		classes["reconstruction-failed>1"] = true
	}
	if len(correctDelivered) >= quorum {
		classes["correct-quorum-delivered"] = true
	}
	res.NonTrivial = submitted && failedBeforeSubmit
	for c := range classes {
		res.Classes = append(res.Classes, c)
	}
	sort.Strings(res.Classes)
	return res
}

// ---- generator -------------------------------------------------------------------------------------

func genProg(roleSet []string, sizes []int) func(t *rapid.T) Prog {
	return func(t *rapid.T) Prog {
		p := Prog{
			N:      rapid.SampledFrom(sizes).Draw(t, "n"),
			Role:   rapid.SampledFrom(roleSet).Draw(t, "role"),
			Direct: rapid.IntRange(0, 9).Draw(t, "direct") == 0,
			Slot:   rapid.Uint64Range(1, 60).Draw(t, "slot"),
			Value:  rapid.SampledFrom([]string{"own", "own", "alt"}).Draw(t, "value"),
		}
		p.Self = rapid.IntRange(1, p.N).Draw(t, "self")
		f := fx.F(p.N)
		var others []int
		for i := 1; i <= p.N; i++ {
			if i != p.Self {
				others = append(others, i)
			}
		}
		nf := rapid.IntRange(0, f).Draw(t, "nfaulty")
		if nf == 0 && rapid.IntRange(0, 3).Draw(t, "force-faulty") != 0 {
			nf = 1
		}
		p.Faulty = rapid.Permutation(others).Draw(t, "faulty-perm")[:nf]
		isFaulty := map[int]bool{}
		for _, x := range p.Faulty {
			isFaulty[x] = true
		}
		var items []Arrival
		for i := 1; i <= p.N; i++ {
			if isFaulty[i] {
				k := rapid.IntRange(1, 3).Draw(t, "msgs-of-faulty")
				for j := 0; j < k; j++ {
					items = append(items, Arrival{From: i,
						Kind: rapid.SampledFrom(faultKinds).Draw(t, "kind"),
						Mask: uint8(rapid.IntRange(0, 7).Draw(t, "mask")),
						Seed: uint16(rapid.IntRange(0, 1000).Draw(t, "seed"))})
				}
				continue
			}
			// a correct member: its share arrives once; rarely twice (network duplicate) or never (loss)
			switch rapid.IntRange(0, 11).Draw(t, "copies") {
			case 0:
			case 1:
				items = append(items, Arrival{From: i}, Arrival{From: i})
			default:
				items = append(items, Arrival{From: i})
			}
		}
		// order: faulty-first prefixes make a failed reconstruction likely; otherwise any permutation
		perm := rapid.Permutation(items).Draw(t, "order")
		if rapid.IntRange(0, 2).Draw(t, "faulty-early") == 0 {
			sort.SliceStable(perm, func(i, j int) bool {
				bi, bj := isFaulty[perm[i].From] && perm[i].Kind != "good", isFaulty[perm[j].From] && perm[j].Kind != "good"
				return bi && !bj
			})
		}
		p.Arrivals = perm
		return p
	}
}

var allSizes = []int{4, 7, 10, 13}

func TestPropThresholdSubmission(t *testing.T) {
	prog.Check(t, "C05", "TestPropThresholdSubmission", genProg(roles, allSizes), run)
}

// The multi-root duty (sync-committee contribution: three decided objects, every message carries three
// shares). DESIGN.md lists it as optional for C05; it is a separate test so that its verdict is separate.
func TestPropThresholdSubmissionMultiRoot(t *testing.T) {
	prog.Check(t, "C05", "TestPropThresholdSubmissionMultiRoot", genProg([]string{"contribution"}, allSizes), run)
}

func TestReplay(t *testing.T) {
	prog.Replay(t, "C05", "TestPropThresholdSubmission", run)
	prog.Replay(t, "C05", "TestPropThresholdSubmissionMultiRoot", run)
}

// TestShow prints the full verdict (with the delivery trace) for a saved program: VERIF_SHOW=<replay file>.
func TestShow(t *testing.T) {
	path := os.Getenv("VERIF_SHOW")
	if path == "" {
		t.Skip("VERIF_SHOW not set")
	}
	raw, err := os.ReadFile(path)
	if err != nil {
		t.Fatal(err)
	}
	var ff prog.FailFile
	var p Prog
	if json.Unmarshal(raw, &ff) != nil || json.Unmarshal(ff.Program, &p) != nil {
		t.Fatal("not a replay file")
	}
	r := prog.Guard(func() *prog.Result { return run(p) })
	if r.Fail != nil {
		fmt.Printf("FAIL %s\n%s\n", r.Fail.Sig, r.Fail.Msg)
	} else {
		fmt.Printf("PASS nontrivial=%v classes=%v\n", r.NonTrivial, r.Classes)
	}
}
