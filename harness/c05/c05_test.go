package c05

// C05 — "Only validly threshold-signed duty objects reach the beacon node, once".
//
// A real runner (inside a real validator.Validator, see internal/dutysim) is brought by construction to
// the state in which partial signatures are pending: decided + own post-consensus share signed
// (attester, proposer full / blinded, sync-committee contribution) or duty started (voluntary exit,
// validator registration). Then a generated arrival sequence of partial-signature messages from all
// committee members is delivered through Validator.ProcessMessage; up to f members are faulty and
// choose per message among the fault kinds below. The oracle looks only at the beacon-node recorder.

import (
	"crypto/sha256"
	"encoding/json"
	"fmt"
	"os"
	"sort"
	"strings"
	"testing"

	"github.com/attestantio/go-eth2-client/spec/phase0"
	specqbft "github.com/bloxapp/ssv-spec/qbft"
	spectypes "github.com/bloxapp/ssv-spec/types"
	ssz "github.com/ferranbt/fastssz"
	"pgregory.net/rapid"

	"verif/harness/internal/dutysim"
	"verif/harness/internal/fx"
	"verif/harness/internal/prog"
)

func TestMain(m *testing.M) { prog.Main(m) }

// ---- program ---------------------------------------------------------------------------------------

// Arrival is one partial-signature message reaching the runner.
type Arrival struct {
	From int    `json:"from"`           // committee member 1..N (== Self: the runner's own broadcast looped back)
	Kind string `json:"kind,omitempty"` // fault kind; ignored ("good") for members not listed in Faulty
	Mask uint8  `json:"mask,omitempty"` // multi-root duties: which roots (bit i = i-th decided object) carry the fault; 0 = all
	Seed uint16 `json:"seed,omitempty"` // varies garbage bytes / foreign roots
}

// Duty is one further duty run on the SAME runner after the previous one finished or was abandoned.
type Duty struct {
	D        int       `json:"d"`               // slot = previous duty's slot + D (>= 1)
	Value    string    `json:"value,omitempty"` // decided value: own | alt (consensus roles)
	Net      string    `json:"net,omitempty"`   // broadcast fault armed when the duty starts: "" | fail (published, error returned) | lose (not published, error returned)
	Fault    string    `json:"fault,omitempty"` // local fault armed when the duty starts: "" | sign-beacon | sign-root | domain (the next FaultN calls of KeyManager.SignBeaconObject / SignRoot / BeaconNode.DomainData fail)
	FaultN   int       `json:"fault_n,omitempty"`
	Cut      int       `json:"cut,omitempty"` // > 0: only the first Cut arrivals are delivered (the duty is abandoned)
	Arrivals []Arrival `json:"arrivals"`
}

type Prog struct {
	N      int    `json:"n"`
	Self   int    `json:"self"`
	Role   string `json:"role"` // attester proposer proposer-blinded voluntary-exit registration contribution
	Direct bool   `json:"direct,omitempty"`
	Faulty []int  `json:"faulty"` // <= f member ids, never Self; the same members are faulty in every duty
	// Forks: epochs at which the beacon chain's fork version (hence every signing domain) changes
	Forks []uint64 `json:"forks,omitempty"`
	// the first duty (inline, so that one-duty programs stay flat)
	Slot     uint64    `json:"slot"`
	Value    string    `json:"value,omitempty"`
	Net      string    `json:"net,omitempty"`
	Fault    string    `json:"fault,omitempty"`
	FaultN   int       `json:"fault_n,omitempty"`
	Cut      int       `json:"cut,omitempty"`
	Arrivals []Arrival `json:"arrivals"`
	// further duties on the same runner
	More []Duty `json:"more,omitempty"`
}

// Fault kinds. "good" is the member's correct share.
//
//	garbage      96 pseudo-random bytes as the share signature
//	infinity     the compressed point at infinity as the share signature
//	other-root   a valid BLS signature by the member's own share key, but over another root
//	other-key    a valid BLS signature over the right root, by a key that is not the member's share key
//	wrong-root   the message names another signing root (whole message must be refused)
//	wrong-slot   the message names another slot (whole message must be refused)
//
// "share sent twice", "bad then good" and "good then bad" arise from several arrivals of one member.
var faultKinds = []string{"good", "garbage", "infinity", "other-root", "other-key", "wrong-root", "wrong-slot"}

var roles = []string{"attester", "proposer", "proposer-blinded", "voluntary-exit", "registration", "aggregator", "attester", "proposer", "voluntary-exit", "registration"}

func beaconRole(r string) spectypes.BeaconRole {
	switch r {
	case "attester":
		return spectypes.BNRoleAttester
	case "proposer", "proposer-blinded":
		return spectypes.BNRoleProposer
	case "aggregator":
		return spectypes.BNRoleAggregator
	case "voluntary-exit":
		return spectypes.BNRoleVoluntaryExit
	case "registration":
		return spectypes.BNRoleValidatorRegistration
	case "contribution":
		return spectypes.BNRoleSyncCommitteeContribution
	}
	panic("bad role " + r)
}

// ---- interpreter -----------------------------------------------------------------------------------

type pending struct {
	sim   *dutysim.Sim
	role  spectypes.BeaconRole
	id    spectypes.MessageID
	typ   spectypes.PartialSigMsgType
	slot  phase0.Slot
	objs  []ssz.HashRoot // the duty objects of THIS duty, in the order a correct member lists them
	roots [][32]byte     // hash-tree-roots of objs
	dt    phase0.DomainType
	own   *spectypes.SSVMessage // the runner's own partial-signature broadcast (nil if it was never made / lost)
	// failedStart: an injected local fault (broadcast, key manager, DomainData) fired during the construction
	// phase. firedAt says in which construction step(s): start, pre-share, decision.
	failedStart bool
	firedAt     map[string]bool
	// exempt: the one situation in which the unchanged tree does not reach "partial signatures pending" after a
	// local fault - see setup. Clause (c) is not demanded of such a duty (observation class); (a) and (b) are.
	exempt  string
	subBase int // len(BN.Submits) when the duty started
	log     []string
}

// fault is what is armed when a duty starts.
type fault struct {
	net  string // "" fail lose
	kind string // "" sign-beacon sign-root domain
	n    int
}

func (f fault) any() bool { return f.net != "" || f.kind != "" }

func (f fault) String() string {
	switch {
	case f.net != "" && f.kind != "":
		return "net-" + f.net + "+" + f.kind
	case f.net != "":
		return "net-" + f.net
	}
	return f.kind
}

// setup starts the duty for slot on the runner and brings it to "partial signatures pending".
//
// Local faults: the armed fault fires at the first matching call of the construction phase (executeDuty at
// duty start; the runner's own post-consensus signing at the decision for the consensus roles; for a
// multi-call fault possibly while a peer's pre-consensus share is processed) and whatever is left is disarmed
// before the arrival phase. What the unchanged tree does after such an error (read from the code and confirmed
// by the generated cases): baseStartNewDuty / baseStartNewNonBeaconDuty install the duty State BEFORE
// executeDuty, so after executeDuty failed the duty is running without the own share: peers' pre-consensus shares
// are validated against that State, collected, reconstructed at the quorum and (registration, exit) submitted,
// or (proposer, aggregator, contribution) used to fetch the duty data and start consensus. A failure of the own
// post-consensus signing / broadcast at the decision leaves State.DecidedValue set, so peers' post-consensus
// shares are collected and submitted as well. Clause (c) is therefore demanded of all of these. The exception
// (exempt): a DomainData failure while a PEER's pre-consensus share is validated (verifyExpectedRoot) drops
// that share for good; if fewer than a quorum of pre-consensus shares remain, consensus never starts.
//
// Errors of construction steps in which no fault fired are not tolerated without an armed fault (harness
// error, panic); with one they are logged and do NOT exempt the duty from clause (c).
func setup(s *dutysim.Sim, role spectypes.BeaconRole, slot phase0.Slot, variant string, flt fault) *pending {
	pd := &pending{sim: s, role: role, id: s.MsgID(role), slot: slot, subBase: len(s.BN.Submits), firedAt: map[string]bool{}}
	s.Net.Drain()
	s.DisarmFaults()
	n := flt.n
	if n < 1 {
		n = 1
	}
	switch flt.net {
	case "fail":
		s.Net.FailNext = 1
	case "lose":
		s.Net.LoseNext = 1
	}
	switch flt.kind {
	case "sign-beacon":
		s.KM.FailBeacon = n
	case "sign-root":
		s.KM.FailRoot = n
	case "domain":
		s.BN.FailDomain = n
	}
	// step runs one construction operation; it reports whether the operation returned no error.
	step := func(where, what string, f func() error) bool {
		armed := s.ArmedFaults()
		s.NextOp()
		err := f()
		fired := s.ArmedFaults() < armed
		if fired {
			pd.failedStart = true
			pd.firedAt[where] = true
		}
		if err == nil {
			if fired {
				pd.log = append(pd.log, fmt.Sprintf("  setup: fault fired in %s (no error returned)", what))
			}
			return true
		}
		if !flt.any() {
			panic(fmt.Sprintf("setup: %s: %v", what, err))
		}
		es := err.Error()
		if len(es) > 170 {
			es = es[:170] + "…"
		}
		pd.log = append(pd.log, fmt.Sprintf("  setup: %s returned (fault fired in it: %v): %s", what, fired, es))
		return false
	}
	duty := s.Duty(role, slot)
	step("start", "start duty", func() error { return s.StartDuty(duty) })
	preType, hasPre := dutysim.PreType(role)
	consensus := role != spectypes.BNRoleVoluntaryExit && role != spectypes.BNRoleValidatorRegistration
	if !consensus {
		pd.typ = preType
		pd.objs, pd.dt = s.PreObjects(duty)
	} else {
		if hasPre {
			// pre-consensus shares of the other members until a quorum of them has been taken
			accepted, dropped, unexplained := 0, 0, 0
			for _, id := range s.Others() {
				if accepted >= s.Quorum {
					break
				}
				armed := s.ArmedFaults()
				if step("pre-share", fmt.Sprintf("pre-consensus from %d", id), func() error {
					return s.Deliver(dutysim.PartialSSV(pd.id, s.PreMsg(id, duty)))
				}) {
					accepted++
				} else if s.ArmedFaults() < armed {
					dropped++
				} else {
					unexplained++
				}
			}
			if accepted < s.Quorum && dropped > 0 && unexplained == 0 {
				pd.exempt = "local-domain-fault-dropped-peer-pre-consensus-share"
			}
		}
		if variant != "alt" {
			variant = "own"
		}
		value := s.Value(duty, variant)
		if err := s.OracleValueCheck(role)(value); err != nil {
			panic(fmt.Sprintf("setup: value %s invalid: %v", variant, err))
		}
		step("decision", "certificate", func() error {
			return s.Deliver(dutysim.ConsensusSSV(pd.id, s.Cert(s.QuorumOthers(), pd.id[:], specqbft.Height(slot), 1, value)))
		})
		pd.typ = spectypes.PostConsensusPartialSig
		var err error
		if pd.objs, pd.dt, err = dutysim.PostObjects(role, value); err != nil {
			panic(err)
		}
	}
	s.DisarmFaults()
	for _, o := range pd.objs {
		r, _ := o.HashTreeRoot()
		pd.roots = append(pd.roots, r)
	}
	for _, m := range s.Net.Drain() {
		if m.MsgType != spectypes.SSVPartialSignatureMsgType {
			continue
		}
		sm := &spectypes.SignedPartialSignatureMessage{}
		if sm.Decode(m.Data) == nil && sm.Message.Type == pd.typ && sm.Message.Slot == slot {
			pd.own = m
		}
	}
	if pd.own == nil && !flt.any() {
		panic("setup: the runner did not broadcast its own partial signature")
	}
	if len(s.BN.Submits) != pd.subBase {
		panic("setup: something was submitted before any partial signature of this duty arrived")
	}
	return pd
}

func prng(seed uint16, tag string, n int) []byte {
	var out []byte
	h := sha256.Sum256([]byte(fmt.Sprintf("%s/%d", tag, seed)))
	for len(out) < n {
		out = append(out, h[:]...)
		h = sha256.Sum256(h[:])
	}
	return out[:n]
}

// build constructs member a.From's message. kind "good" = correct share for every decided object.
func (pd *pending) build(a Arrival, kind string, n int) *spectypes.SSVMessage {
	s := pd.sim
	from := spectypes.OperatorID(a.From)
	key := s.KS.Shares[from]
	m := s.Partial(from, key, pd.typ, pd.slot, pd.objs, pd.dt)
	hit := func(i int) bool { return a.Mask == 0 || len(pd.objs) == 1 || a.Mask&(1<<uint(i)) != 0 }
	touched := false
	for i, pm := range m.Message.Messages {
		if kind == "good" || kind == "wrong-slot" || !hit(i) {
			continue
		}
		touched = true
		switch kind {
		case "garbage":
			pm.PartialSignature = prng(a.Seed, "garbage", 96)
		case "infinity":
			pm.PartialSignature = append([]byte{0xc0}, make([]byte, 95)...)
		case "other-root":
			pm.PartialSignature = key.SignByte(prng(a.Seed, "root", 32)).Serialize()
		case "other-key":
			other := spectypes.OperatorID(a.From%n + 1)
			pm.PartialSignature = s.KS.Shares[other].SignByte(append([]byte(nil), pm.SigningRoot[:]...)).Serialize() // copy: cgo pointer rule
		case "wrong-root":
			copy(pm.SigningRoot[:], prng(a.Seed, "wrong", 32))
			pm.PartialSignature = key.SignByte(append([]byte(nil), pm.SigningRoot[:]...)).Serialize()
		}
	}
	if kind == "wrong-slot" {
		m.Message.Slot = pd.slot + 1 + phase0.Slot(a.Seed%3)
		touched = true
	}
	if touched {
		dutysim.SignEnvelope(m, key)
	}
	return dutysim.PartialSSV(pd.id, m)
}

// knownVE is the signature of the finding on the unchanged tree (see check.json): VoluntaryExitRunner keeps
// the exit object in a runner field that executeDuty sets only after a successful broadcast.
const knownVE = "C05:voluntary-exit-stale-or-nil-object-after-failed-start-broadcast"

func slotDelta(d int) phase0.Slot {
	if d < 1 {
		d = 1
	}
	return phase0.Slot(d)
}

func run(p Prog) *prog.Result {
	res := &prog.Result{}
	f := fx.F(p.N)
	faulty := map[int]bool{}
	for _, x := range p.Faulty {
		if x != p.Self && x >= 1 && x <= p.N && len(faulty) < f {
			faulty[x] = true
		}
	}
	role := beaconRole(p.Role)
	s := dutysim.New(dutysim.Config{N: p.N, Self: spectypes.OperatorID(p.Self), Blinded: p.Role == "proposer-blinded", Direct: p.Direct, ForkEpochs: p.Forks})
	defer s.Close()
	quorum := 2*f + 1
	duties := append([]Duty{{Value: p.Value, Net: p.Net, Fault: p.Fault, FaultN: p.FaultN, Cut: p.Cut, Arrivals: p.Arrivals}}, p.More...)
	if len(duties) > 3 {
		duties = duties[:3]
	}

	classes := map[string]bool{"role=" + p.Role: true, fmt.Sprintf("n=%d", p.N): true, fmt.Sprintf("faulty=%d", len(faulty)): true, fmt.Sprintf("duties=%d", len(duties)): true}
	var trace []string
	ignored := map[int]bool{} // submissions already counted as the known finding
	slot := phase0.Slot(p.Slot)
	var earlier [][32]byte // object roots of earlier duties of this runner
	var prevVer phase0.Version

	for di, d := range duties {
		if di > 0 {
			slot += slotDelta(d.D)
		}
		ver := dutysim.ForkVersion(p.Forks, dutysim.Network.EstimatedEpochAtSlot(slot))
		if ver != dutysim.ForkVersion(nil, 0) {
			classes["fork:duty-after-a-fork"] = true
		}
		if di > 0 && ver != prevVer {
			classes["fork:duty-sequence-straddles-a-fork"] = true
			classes["fork:straddle:"+p.Role] = true
		}
		prevVer = ver
		flt := fault{net: d.Net, kind: d.Fault, n: d.FaultN}
		pd := setup(s, role, slot, d.Value, flt)
		trace = append(trace, fmt.Sprintf(" duty %d: slot %d epoch %d fault=%q failed-start=%v exempt=%q", di, slot, dutysim.Network.EstimatedEpochAtSlot(slot), flt.String(), pd.failedStart, pd.exempt))
		trace = append(trace, pd.log...)
		if flt.any() {
			classes["fault="+flt.String()] = true
		}
		if pd.failedStart {
			classes["failed-start"] = true
			for _, w := range []string{"start", "pre-share", "decision"} {
				if pd.firedAt[w] {
					classes["failed-start:"+flt.String()+"@"+w] = true
				}
			}
		}
		// correctFor[i]: the signers of whom a CORRECT share for duty object i has been delivered in a message the
		// runner has to take (right slot, right roots) - whether or not the same signer also delivered wrong or
		// replaced shares before or after. pureCorrect: the non-faulty members among them (the weaker count).
		correctFor := make([]map[int]bool, len(pd.roots))
		for i := range correctFor {
			correctFor[i] = map[int]bool{}
		}
		pureCorrect := map[int]bool{}
		wrongKinds := map[int][]string{}
		seqOf := map[int]string{} // per faulty member: o = correct share, w = wrong share, r = message refused as a whole
		minCorrect := func() int {
			m := -1
			for _, c := range correctFor {
				if m < 0 || len(c) < m {
					m = len(c)
				}
			}
			return max(m, 0)
		}
		lastKind := map[int]string{}
		reconFailed, failedBeforeSubmit := 0, false

		judge := func(step int) *prog.Failure {
			perObj := make([]int, len(pd.roots))
			for si := pd.subBase; si < len(s.BN.Submits); si++ {
				if ignored[si] {
					continue
				}
				sub := s.BN.Submits[si]
				obj := sub.Obj
				if sub.Kind == "registration" {
					// the call carries key + fee recipient only; the object is the registration of the duty's epoch
					reg := s.Registration(pd.slot)
					if string(sub.PubKey) != string(s.KS.ValidatorPK.Serialize()) || sub.FeeRecipient != reg.FeeRecipient {
						return prog.Failf("C05:submitted-other-object", "duty %d step %d: registration submitted for another key / fee recipient", di, step)
					}
					obj = reg
				}
				stale := ""
				idx := -1
				if obj == nil {
					stale = "no object at all (nil message)"
				} else {
					r, _ := obj.HashTreeRoot()
					for i, want := range pd.roots {
						if want == r {
							idx = i
						}
					}
					if idx < 0 || sub.DomainType != pd.dt {
						stale = fmt.Sprintf("object %x, which is not an object of this duty", r[:6])
						for _, e := range earlier {
							if e == r {
								stale = fmt.Sprintf("object %x, which belongs to an EARLIER duty of this runner", r[:6])
							}
						}
					}
				}
				if stale != "" && role == spectypes.BNRoleVoluntaryExit && pd.failedStart {
					if prog.IsKnown(knownVE) || os.Getenv("VERIF_C05_ASSUME_KNOWN") != "" {
						prog.KnownHit(curTest, knownVE)
						classes["known:voluntary-exit-after-failed-start"] = true
						ignored[si] = true
						continue
					}
					return prog.Failf(knownVE, "duty %d step %d (op %d): after the start of this voluntary-exit duty returned a broadcast error, the runner submitted %s\n%s", di, step, sub.Op, stale, strings.Join(trace, "\n"))
				}
				// (a) the signature verifies under the validator public key over the SUBMITTED object ...
				if obj == nil {
					return prog.Failf("C05:submitted-nil-object", "duty %d step %d (op %d): %s submitted without an object\n%s", di, step, sub.Op, sub.Kind, strings.Join(trace, "\n"))
				}
				if !s.VerifyValidatorSig(sub.Sig[:], obj, sub.DomainType, pd.slot) {
					return prog.Failf("C05:invalid-signature-submitted", "duty %d step %d (op %d): submitted %s carries a signature that does not verify under the validator key over the submitted object (%s)\n%s", di, step, sub.Op, sub.Kind, map[bool]string{true: "the object of this duty", false: stale}[stale == ""], strings.Join(trace, "\n"))
				}
				// ... and the submitted object is the one derived from THIS duty
				if stale != "" {
					return prog.Failf("C05:submitted-other-object", "duty %d step %d (op %d): submitted %s %s\n%s", di, step, sub.Op, sub.Kind, stale, strings.Join(trace, "\n"))
				}
				perObj[idx]++
			}
			// (b) at most one submission per duty object
			for i, c := range perObj {
				if c > 1 {
					return prog.Failf("C05:submitted-twice", "duty %d step %d: duty object #%d submitted %d times\n%s", di, step, i, c, strings.Join(trace, "\n"))
				}
			}
			// (c) cannot prevent: 2f+1 distinct correct members' shares delivered => every duty object submitted
			if pd.exempt == "" {
				for i, c := range perObj {
					if len(correctFor[i]) < quorum || c == 1 {
						continue
					}
					sig := "C05:not-submitted-despite-correct-quorum"
					if len(pd.roots) > 1 {
						sig = "C05:multi-root-object-not-submitted-despite-correct-quorum"
					}
					return prog.Failf(sig, "duty %d step %d: correct shares of %d distinct signers (2f+1 = %d; %d of them never sent anything wrong) have been delivered for decided object #%d of %d, but it has %d submissions (finished=%v)\n%s",
						di, step, len(correctFor[i]), quorum, len(pureCorrect), i, len(pd.roots), c, !s.Runner(pd.role).HasRunningDuty(), strings.Join(trace, "\n"))
				}
			}
			return nil
		}

		for step, a := range d.Arrivals {
			if d.Cut > 0 && step >= d.Cut {
				classes["abandoned"] = true
				break
			}
			if a.From < 1 || a.From > p.N {
				continue
			}
			kind := "good"
			var msg *spectypes.SSVMessage
			switch {
			case a.From == p.Self:
				msg = pd.own
				if msg == nil {
					continue // the own broadcast was lost
				}
			case faulty[a.From]:
				kind = a.Kind
				if kind == "" {
					kind = "good"
				}
				msg = pd.build(a, kind, p.N)
			default:
				msg = pd.build(a, "good", p.N)
			}
			before := len(s.BN.Submits)
			s.NextOp()
			var err error
			var panicked any
			func() {
				defer func() {
					if r := recover(); r != nil {
						if role != spectypes.BNRoleVoluntaryExit || !pd.failedStart {
							panic(r) // not the known situation: prog.Guard reports it
						}
						panicked = r
					}
				}()
				err = s.Deliver(msg)
			}()
			if panicked != nil {
				// same root cause as the stale object: on a first exit duty whose start broadcast failed the
				// runner field is still nil; the runner submits a SignedVoluntaryExit without message and then
				// dereferences the nil object (voluntary_exit.go, the Debug log after the submission)
				if prog.IsKnown(knownVE) || os.Getenv("VERIF_C05_ASSUME_KNOWN") != "" {
					prog.KnownHit(curTest, knownVE)
					classes["known:voluntary-exit-after-failed-start"] = true
					classes["known:...nil-object-and-panic"] = true
					for c := range classes {
						res.Classes = append(res.Classes, c)
					}
					sort.Strings(res.Classes)
					return res // the runner's state after a panic inside ProcessMessage is not worth exploring
				}
				res.Fail = prog.Failf(knownVE, "duty %d step %d: after the start of this voluntary-exit duty returned a broadcast error, ProcessPreConsensus panicked at the quorum: %v (submissions %d->%d; a nil-message exit was handed to the beacon node first)\n%s", di, step, panicked, before, len(s.BN.Submits), strings.Join(trace, "\n"))
				return res
			}
			if !faulty[a.From] {
				pureCorrect[a.From] = true
				for i := range correctFor {
					correctFor[i][a.From] = true
				}
			} else {
				// which of this message's shares are correct ones the runner has to take
				letter := "w"
				switch kind {
				case "good":
					letter = "o"
					for i := range correctFor {
						correctFor[i][a.From] = true
					}
				case "wrong-root", "wrong-slot":
					letter = "r" // refused as a whole: none of its shares counts
				default:
					for i := range correctFor {
						if !(a.Mask == 0 || len(pd.objs) == 1 || a.Mask&(1<<uint(i)) != 0) {
							correctFor[i][a.From] = true // a root the fault does not touch
						}
					}
				}
				seqOf[a.From] += letter
				if letter != "o" {
					wrongKinds[a.From] = append(wrongKinds[a.From], kind)
				}
				classes["kind="+kind] = true
				if prev, ok := lastKind[a.From]; ok {
					switch {
					case prev != "good" && kind == "good":
						classes["seq=bad-then-good"] = true
					case prev == "good" && kind != "good":
						classes["seq=good-then-bad"] = true
					case prev == "good" && kind == "good":
						classes["seq=good-twice"] = true
					default:
						classes["seq=bad-twice"] = true
					}
				}
				lastKind[a.From] = kind
			}
			es := ""
			if err != nil {
				es = " err=" + err.Error()
				if len(es) > 160 {
					es = es[:160] + "…"
				}
				if strings.Contains(err.Error(), "quorum but it has invalid signatures") {
					reconFailed++
					if len(s.BN.Submits) == pd.subBase {
						failedBeforeSubmit = true
					}
				}
			}
			trace = append(trace, fmt.Sprintf("  %2d: from %d%s %s mask=%d -> submits %d->%d%s", step, a.From, map[bool]string{true: " (faulty)"}[faulty[a.From]], kind, a.Mask, before, len(s.BN.Submits), es))
			if fl := judge(step); fl != nil {
				res.Fail = fl
				return res
			}
		}

		submitted := len(s.BN.Submits) > pd.subBase
		if pd.failedStart {
			outcome := "correct-quorum-not-delivered"
			switch {
			case pd.exempt != "":
				outcome = "NOT-GUARANTEED:" + pd.exempt
				if submitted {
					outcome += "(submitted anyway)"
				}
			case submitted:
				outcome = "submitted"
			}
			classes["failed-start:role="+p.Role+":"+outcome] = true
		}
		if submitted {
			classes["submitted"] = true
			if di > 0 {
				classes["submitted-in-later-duty"] = true
			}
		} else if di+1 < len(duties) {
			classes["next-duty-after-unfinished"] = true
		}
		if reconFailed > 0 {
			classes["reconstruction-failed"] = true
		}
		if reconFailed > 1 {
			classes["reconstruction-failed>1"] = true
		}
		if minCorrect() >= quorum {
			classes["correct-quorum-delivered"] = true
			if len(pureCorrect) < quorum {
				// the stronger reading was the binding one: the quorum of correct signatures includes the correct
				// share of a member that also sent wrong ones
				classes["c-binding:faulty-members-correct-share-needed"] = true
				for m, sq := range seqOf {
					if !strings.Contains(sq, "o") {
						continue
					}
					first := strings.Index(sq, "o")
					if strings.ContainsAny(sq[:first], "w") {
						classes["c-binding:wrong-then-correct"] = true
					}
					if strings.ContainsAny(sq[first:], "w") {
						classes["c-binding:correct-then-wrong"] = true
					}
					if strings.Count(sq, "o") > 1 {
						classes["c-binding:correct-twice"] = true
					}
					for _, k := range wrongKinds[m] {
						classes["c-binding:with-"+k] = true
					}
				}
			}
		}
		for _, sq := range seqOf {
			if len(sq) > 3 {
				sq = sq[:3] + "+"
			}
			classes["faulty-seq="+sq] = true
		}
		if submitted && failedBeforeSubmit {
			res.NonTrivial = true
		}
		if di > 0 && len(earlier) > 0 && len(pd.roots) > 0 && earlier[len(earlier)-1] != pd.roots[0] {
			classes["later-duty-has-different-object"] = true
		}
		earlier = append(earlier, pd.roots...)
	}
	lastTrace = trace
	for c := range classes {
		res.Classes = append(res.Classes, c)
	}
	sort.Strings(res.Classes)
	return res
}

// curTest names the property test in progress (known-finding counter); lastTrace is the trace of the most
// recent run (TestShow). Tests run sequentially.
var (
	curTest   = "TestPropThresholdSubmission"
	lastTrace []string
)

// ---- generator -------------------------------------------------------------------------------------

// seqPatterns: what one faulty member sends before the quorum edge in the mixed mode. o = its correct share,
// w = a wrong share for the right root (garbage, infinity, signature over another root / by another key),
// r = a message the runner refuses as a whole (names another root or slot).
var seqPatterns = []string{"ow", "ow", "wo", "wo", "oww", "wow", "wwo", "owo", "oow", "woo", "o", "or", "ro", "wor", "orw"}

// genMixedEarly: every faulty member sends a sequence that contains its correct share, and these sequences are
// interleaved (each member's own order kept) with the shares of just enough correct members that the 2f+1-th
// correct signature arrives at the end of that prefix and includes the faulty members' correct shares
// (e.g. N=4: "1 ok, 1 wrong, 2 ok, 3 ok"). The remaining members follow.
func genMixedEarly(t *rapid.T, n int, isFaulty map[int]bool) []Arrival {
	q := 2*fx.F(n) + 1
	var fids, cids []int
	for i := 1; i <= n; i++ {
		if isFaulty[i] {
			fids = append(fids, i)
		} else {
			cids = append(cids, i)
		}
	}
	pat := map[int]string{}
	var slots []int
	for _, m := range fids {
		pat[m] = rapid.SampledFrom(seqPatterns).Draw(t, "pattern")
		for range pat[m] {
			slots = append(slots, m)
		}
	}
	cperm := rapid.Permutation(cids).Draw(t, "correct-order")
	need := q - len(fids)
	slots = append(slots, cperm[:need]...)
	slots = rapid.Permutation(slots).Draw(t, "prefix-order")
	pos := map[int]int{}
	var out []Arrival
	for _, m := range slots {
		a := Arrival{From: m}
		if isFaulty[m] {
			switch pat[m][pos[m]] {
			case 'o':
				a.Kind = "good"
			case 'w':
				a.Kind = rapid.SampledFrom([]string{"garbage", "infinity", "other-root", "other-key"}).Draw(t, "wrong-kind")
			default:
				a.Kind = rapid.SampledFrom([]string{"wrong-root", "wrong-slot"}).Draw(t, "refused-kind")
			}
			pos[m]++
			a.Mask = uint8(rapid.IntRange(0, 7).Draw(t, "mask"))
			a.Seed = uint16(rapid.IntRange(0, 1000).Draw(t, "seed"))
		}
		out = append(out, a)
	}
	var rest []Arrival
	for _, m := range cperm[need:] {
		rest = append(rest, Arrival{From: m})
	}
	for k := rapid.IntRange(0, 2).Draw(t, "late-junk"); k > 0 && len(fids) > 0; k-- {
		rest = append(rest, Arrival{From: rapid.SampledFrom(fids).Draw(t, "junk-from"),
			Kind: rapid.SampledFrom(faultKinds).Draw(t, "kind"),
			Mask: uint8(rapid.IntRange(0, 7).Draw(t, "mask")),
			Seed: uint16(rapid.IntRange(0, 1000).Draw(t, "seed"))})
	}
	return append(out, rapid.Permutation(rest).Draw(t, "rest-order")...)
}

func genArrivals(t *rapid.T, n int, isFaulty map[int]bool) []Arrival {
	if len(isFaulty) > 0 && rapid.IntRange(0, 9).Draw(t, "mixed-early") < 4 {
		return genMixedEarly(t, n, isFaulty)
	}
	var items []Arrival
	for i := 1; i <= n; i++ {
		if isFaulty[i] {
			k := rapid.IntRange(1, 3).Draw(t, "msgs-of-faulty")
			for j := 0; j < k; j++ {
				items = append(items, Arrival{From: i,
					Kind: rapid.SampledFrom(faultKinds).Draw(t, "kind"),
					Mask: uint8(rapid.IntRange(0, 7).Draw(t, "mask")),
					Seed: uint16(rapid.IntRange(0, 1000).Draw(t, "seed"))})
			}
			continue
		}
		// a correct member: its share arrives once; rarely twice (network duplicate) or never (loss)
		switch rapid.IntRange(0, 11).Draw(t, "copies") {
		case 0:
		case 1:
			items = append(items, Arrival{From: i}, Arrival{From: i})
		default:
			items = append(items, Arrival{From: i})
		}
	}
	// order: faulty-first prefixes make a failed reconstruction likely; otherwise any permutation
	perm := rapid.Permutation(items).Draw(t, "order")
	if rapid.IntRange(0, 2).Draw(t, "faulty-early") == 0 {
		sort.SliceStable(perm, func(i, j int) bool {
			bi, bj := isFaulty[perm[i].From] && perm[i].Kind != "good", isFaulty[perm[j].From] && perm[j].Kind != "good"
			return bi && !bj
		})
	}
	return perm
}

// genFault draws what is armed at a duty's start: nothing (70%), a broadcast fault, or the next 1-3 calls of
// KeyManager.SignBeaconObject / KeyManager.SignRoot / BeaconNode.DomainData failing.
func genFault(t *rapid.T) (net, kind string, n int) {
	switch rapid.SampledFrom([]string{"", "", "", "", "", "", "", "", "", "", "", "", "", "", "net-fail", "net-lose", "sign-beacon", "sign-root", "domain", "domain"}).Draw(t, "fault") {
	case "net-fail":
		return "fail", "", 0
	case "net-lose":
		return "lose", "", 0
	case "sign-beacon":
		return "", "sign-beacon", rapid.SampledFrom([]int{1, 1, 2, 3}).Draw(t, "fault-n")
	case "sign-root":
		return "", "sign-root", rapid.SampledFrom([]int{1, 1, 2, 3}).Draw(t, "fault-n")
	case "domain":
		return "", "domain", rapid.SampledFrom([]int{1, 1, 2, 3}).Draw(t, "fault-n")
	}
	return "", "", 0
}

func genCut(t *rapid.T, n int) int {
	if n == 0 || rapid.IntRange(0, 4).Draw(t, "abandon") != 0 {
		return 0
	}
	return rapid.IntRange(1, n).Draw(t, "cut")
}

func genProg(roleSet []string, sizes []int) func(t *rapid.T) Prog {
	return func(t *rapid.T) Prog {
		p := Prog{
			N:      rapid.SampledFrom(sizes).Draw(t, "n"),
			Role:   rapid.SampledFrom(roleSet).Draw(t, "role"),
			Direct: rapid.IntRange(0, 9).Draw(t, "direct") == 0,
			Slot:   rapid.Uint64Range(1, 60).Draw(t, "slot"),
			Value:  rapid.SampledFrom([]string{"own", "own", "alt"}).Draw(t, "value"),
		}
		p.Self = rapid.IntRange(1, p.N).Draw(t, "self")
		f := fx.F(p.N)
		var others []int
		for i := 1; i <= p.N; i++ {
			if i != p.Self {
				others = append(others, i)
			}
		}
		nf := rapid.IntRange(0, f).Draw(t, "nfaulty")
		if nf == 0 && rapid.IntRange(0, 3).Draw(t, "force-faulty") != 0 {
			nf = 1
		}
		p.Faulty = rapid.Permutation(others).Draw(t, "faulty-perm")[:nf]
		isFaulty := map[int]bool{}
		for _, x := range p.Faulty {
			isFaulty[x] = true
		}
		p.Net, p.Fault, p.FaultN = genFault(t)
		p.Arrivals = genArrivals(t, p.N, isFaulty)
		p.Cut = genCut(t, len(p.Arrivals))
		// further duties on the same runner: the next slots for the per-slot roles, another (sometimes the
		// same) epoch for voluntary exit and registration, whose objects are per epoch
		deltas := []int{1, 1, 2, 3}
		if p.Role == "voluntary-exit" || p.Role == "registration" {
			deltas = []int{32, 32, 33, 40, 64, 1, 3}
		}
		more := rapid.SampledFrom([]int{0, 0, 0, 1, 1, 1, 2}).Draw(t, "more")
		for i := 0; i < more; i++ {
			d := Duty{D: rapid.SampledFrom(deltas).Draw(t, "d"), Value: rapid.SampledFrom([]string{"own", "own", "alt"}).Draw(t, "value")}
			d.Net, d.Fault, d.FaultN = genFault(t)
			d.Arrivals = genArrivals(t, p.N, isFaulty)
			d.Cut = genCut(t, len(d.Arrivals))
			p.More = append(p.More, d)
		}
		// fork epochs: none (40%); a fork between duty k-1 and duty k (40% when there is a further duty; the per-slot
		// roles are moved to the end of an epoch so that the next slot is on the other side); or drawn freely
		switch c := rapid.IntRange(0, 9).Draw(t, "forks"); {
		case c <= 3 && len(p.More) > 0:
			k := rapid.IntRange(1, len(p.More)).Draw(t, "fork-before-duty")
			cumPrev := 0
			for i := 0; i < k-1; i++ {
				cumPrev += p.More[i].D
			}
			if p.Role != "voluntary-exit" && p.Role != "registration" {
				e := rapid.IntRange(1, 2).Draw(t, "fork-epoch")
				p.Slot = uint64(32*e - 1 - cumPrev)
			}
			slotK := p.Slot + uint64(cumPrev+p.More[k-1].D)
			p.Forks = []uint64{slotK / 32}
			if uint64(p.Slot+uint64(cumPrev))/32 == slotK/32 {
				p.Forks = []uint64{slotK/32 + 1} // same epoch (exit / registration with a +1/+3 delta): fork later
			}
		case c <= 5:
			p.Forks = rapid.SliceOfNDistinct(rapid.Uint64Range(0, 4), 1, 2, rapid.ID[uint64]).Draw(t, "fork-epochs")
		}
		return p
	}
}

var allSizes = []int{4, 7, 10, 13}

func TestPropThresholdSubmission(t *testing.T) {
	curTest = "TestPropThresholdSubmission"
	prog.Check(t, "C05", "TestPropThresholdSubmission", genProg(roles, allSizes), run)
}

// The multi-root duty (sync-committee contribution: three decided objects, every message carries three
// shares). DESIGN.md lists it as optional for C05; it is a separate test so that its verdict is separate.
func TestPropThresholdSubmissionMultiRoot(t *testing.T) {
	curTest = "TestPropThresholdSubmissionMultiRoot"
	prog.Check(t, "C05", "TestPropThresholdSubmissionMultiRoot", genProg([]string{"contribution"}, allSizes), run)
}

func TestReplay(t *testing.T) {
	prog.Replay(t, "C05", "TestPropThresholdSubmission", run)
	prog.Replay(t, "C05", "TestPropThresholdSubmissionMultiRoot", run)
}

// TestShow prints the full verdict (with the delivery trace) for a saved program: VERIF_SHOW=<replay file>.
func TestShow(t *testing.T) {
	path := os.Getenv("VERIF_SHOW")
	if path == "" {
		t.Skip("VERIF_SHOW not set")
	}
	raw, err := os.ReadFile(path)
	if err != nil {
		t.Fatal(err)
	}
	var ff prog.FailFile
	var p Prog
	if json.Unmarshal(raw, &ff) != nil || json.Unmarshal(ff.Program, &p) != nil {
		t.Fatal("not a replay file")
	}
	r := prog.Guard(func() *prog.Result { return run(p) })
	if r.Fail != nil {
		fmt.Printf("FAIL %s\n%s\n", r.Fail.Sig, r.Fail.Msg)
	} else {
		fmt.Printf("PASS nontrivial=%v classes=%v\n%s\n", r.NonTrivial, r.Classes, strings.Join(lastTrace, "\n"))
	}
}
