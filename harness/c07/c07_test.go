package c07

import (
	"bytes"
	"fmt"
	"sort"
	"strings"
	"testing"

	specqbft "github.com/bloxapp/ssv-spec/qbft"
	spectypes "github.com/bloxapp/ssv-spec/types"
	"pgregory.net/rapid"

	"github.com/bloxapp/ssv/protocol/v2/qbft/instance"

	"verif/harness/internal/fx"
	"verif/harness/internal/prog"
	"verif/harness/internal/qbftsim"
)

func TestMain(m *testing.M) { prog.Main(m) }

// ---- 1. fault-free synchronous case: everybody decides in round 1 on the leader's value --------------

type HappyProg struct {
	N      int            `json:"n"`
	Height uint64         `json:"height"`
	Verify bool           `json:"verify"`
	Starts map[int]string `json:"starts"`
	Order  string         `json:"order"` // delivery order of each batch: pool reverse
}

func runHappy(h HappyProg) *prog.Result {
	res := &prog.Result{NonTrivial: true}
	p := qbftsim.Prog{N: h.N, Height: h.Height, Verify: h.Verify, Starts: h.Starts}
	s := qbftsim.New(p)
	for _, id := range s.Correct {
		s.StartOp(id)
	}
	var order func([]*qbftsim.PoolMsg) []*qbftsim.PoolMsg
	if h.Order == "reverse" {
		order = func(b []*qbftsim.PoolMsg) []*qbftsim.PoolMsg {
			out := make([]*qbftsim.PoolMsg, len(b))
			for i := range b {
				out[len(b)-1-i] = b[i]
			}
			return out
		}
	}
	s.FlushCorrect(order, nil)
	n := uint64(h.N)
	leader := spectypes.OperatorID((h.Height%n+n)%n + 1) // round 1 leader, by the documented rotation
	want := s.Ops[leader].Start
	for _, id := range s.Correct {
		inst := s.Inst(id)
		if inst == nil || !inst.State.Decided {
			res.Fail = prog.Failf("C07:happy-path-undecided", "N=%d height=%d: op%d did not decide under synchronous fault-free delivery\nlog:\n%s", h.N, h.Height, id, s.Dump())
			return res
		}
		if inst.State.Round != 1 {
			res.Fail = prog.Failf("C07:happy-path-late-round", "N=%d height=%d: op%d decided in round %d, not 1", h.N, h.Height, id, inst.State.Round)
			return res
		}
		if !bytes.Equal(inst.State.DecidedValue, want) {
			res.Fail = prog.Failf("C07:happy-path-wrong-value", "N=%d height=%d: op%d decided %s, leader op%d proposed %s", h.N, h.Height, id, qbftsim.ValueName(inst.State.DecidedValue), leader, qbftsim.ValueName(want))
			return res
		}
	}
	res.Classes = []string{fmt.Sprintf("N=%d", h.N)}
	return res
}

func genHappy(t *rapid.T) HappyProg {
	n := rapid.SampledFrom([]int{4, 7, 10, 13}).Draw(t, "n")
	h := HappyProg{N: n, Height: uint64(rapid.IntRange(0, 3*n).Draw(t, "height")), Verify: rapid.IntRange(0, 3).Draw(t, "verify") == 0, Starts: map[int]string{},
		Order: rapid.SampledFrom([]string{"pool", "reverse"}).Draw(t, "order")}
	for id := 1; id <= n; id++ {
		h.Starts[id] = rapid.SampledFrom([]string{"A", "B", "C"}).Draw(t, "start")
	}
	return h
}

func TestPropHappyPath(t *testing.T) { prog.Check(t, "C07", "TestPropHappyPath", genHappy, runHappy) }

// TestHappyExhaustive enumerates every committee size and every height modulo the committee size (leader rotation).
func TestHappyExhaustive(t *testing.T) {
	for _, n := range []int{4, 7, 10, 13} {
		for h := 0; h <= n; h++ {
			starts := map[int]string{}
			for id := 1; id <= n; id++ {
				starts[id] = []string{"A", "B", "C"}[(id+h)%3]
			}
			prog.CheckOne(t, "C07", "TestHappyExhaustive", HappyProg{N: n, Height: uint64(h), Starts: starts, Order: "pool"}, runHappy)
		}
	}
}

// ---- 2 + 3. timeout step on every visited state; constructed timely continuation after any prefix ----------

type ContProg struct {
	Prefix qbftsim.Prog `json:"prefix"`
	Alts   []int        `json:"alts"` // seeds for alternative delivery orders tried when the canonical continuation fails
}

// timeoutStep checks the "a round timeout always moves an operator to the next round and makes it announce that
// round" clause on one timeout event.
func timeoutStep(s *qbftsim.Sim, ev *qbftsim.Event) *prog.Failure {
	if ev.Kind != "timeout" || ev.NoInst || !ev.Before.HasInst || ev.Before.Decided || ev.TimeoutH != s.Height {
		return nil
	}
	if ev.TimeoutR != ev.Before.Round || int(ev.Before.Round) >= instance.CutoffRound-1 {
		return nil // stale event or at the cut-off: not this clause
	}
	want := ev.Before.Round + 1
	if ev.After.Round != want {
		return prog.Failf("C07:timeout-no-round-bump", "op%d: timeout for its current round %d left it in round %d (err=%v)", ev.Op, ev.Before.Round, ev.After.Round, ev.Err)
	}
	if ev.After.Proposal {
		return prog.Failf("C07:timeout-keeps-proposal", "op%d: accepted proposal not cleared by the timeout of round %d", ev.Op, ev.Before.Round)
	}
	arm, ok := s.Ops[ev.Op].Timer.Last()
	if ev.After.Arms != ev.Before.Arms+1 || !ok || arm.Round != want || arm.Height != s.Height {
		return prog.Failf("C07:timeout-no-rearm", "op%d: timer not re-armed exactly once for (h%d, r%d) after the timeout: arms %d->%d last=%+v", ev.Op, s.Height, want, ev.Before.Arms, ev.After.Arms, arm)
	}
	if ev.Err != nil && strings.Contains(ev.Err.Error(), "injected broadcast failure") && len(ev.Emitted) == 0 {
		return nil // the network lost the announcement (injected fault): the operator itself did move on and re-arm
	}
	if len(ev.Emitted) != 1 {
		return prog.Failf("C07:timeout-announcement-count", "op%d: timeout of round %d broadcast %d messages, want exactly one round-change", ev.Op, ev.Before.Round, len(ev.Emitted))
	}
	m := ev.Emitted[0].Msg
	if m.Message.MsgType != specqbft.RoundChangeMsgType || m.Message.Round != want || len(m.Signers) != 1 || m.Signers[0] != ev.Op || m.Message.Height != s.Height {
		return prog.Failf("C07:timeout-wrong-announcement", "op%d: after timeout of round %d broadcast [%s]", ev.Op, ev.Before.Round, qbftsim.Describe(m))
	}
	return nil
}

type contResult struct {
	ok          bool
	rounds      int
	why         string
	stepFail    *prog.Failure
	log         string
	lagging     bool
	prepared    bool
	twoPrepared bool
	learntOnly  bool
	nearCutoff  bool
}

// continuation replays the prefix and then runs one constructed timely continuation.
func continuation(p qbftsim.Prog, alt int, forward bool, lockstep bool) contResult {
	var cr contResult
	s := qbftsim.New(p)
	onEv := func(ev *qbftsim.Event) bool {
		if f := timeoutStep(s, ev); f != nil {
			cr.stepFail = f
			return false
		}
		return true
	}
	for _, op := range p.Ops {
		s.Step(op, onEv)
		if cr.stepFail != nil {
			cr.log = s.Dump()
			return cr
		}
	}
	// ---- switch point: Byzantine operators fall silent, correct operators get timely delivery
	rounds := map[specqbft.Round]bool{}
	roots := map[string]bool{}
	for _, id := range s.Correct {
		if inst := s.Inst(id); inst != nil {
			rounds[inst.State.Round] = true
			if inst.State.LastPreparedValue != nil && !inst.State.Decided {
				cr.prepared = true
				roots[string(inst.State.LastPreparedValue)] = true
			}
		}
	}
	cr.lagging = len(rounds) >= 2
	cr.twoPrepared = len(roots) >= 2
	for _, id := range s.Correct { // the continuation has a working network
		s.Ops[id].Net.FailNext, s.Ops[id].Net.LoseNext = 0, 0
	}
	s.Logf("---- switch point (alt %d, forward accepted certificates=%v, lock-step timers=%v) ----", alt, forward, lockstep)
	s.ForwardAccepted = forward
	var order func([]*qbftsim.PoolMsg) []*qbftsim.PoolMsg
	switch {
	case alt == 1: // highest prepared round-changes first
		order = func(b []*qbftsim.PoolMsg) []*qbftsim.PoolMsg {
			sort.SliceStable(b, func(i, j int) bool { return b[i].Msg.Message.DataRound > b[j].Msg.Message.DataRound })
			return b
		}
	case alt == 2: // highest prepared round-changes last
		order = func(b []*qbftsim.PoolMsg) []*qbftsim.PoolMsg {
			sort.SliceStable(b, func(i, j int) bool { return b[i].Msg.Message.DataRound < b[j].Msg.Message.DataRound })
			return b
		}
	case alt == 3: // reverse pool order
		order = func(b []*qbftsim.PoolMsg) []*qbftsim.PoolMsg {
			for i, j := 0, len(b)-1; i < j; i, j = i+1, j-1 {
				b[i], b[j] = b[j], b[i]
			}
			return b
		}
	case alt > 3: // pseudo-random permutation derived from the drawn seed
		seed := uint64(alt) * 0x9e3779b97f4a7c15
		order = func(b []*qbftsim.PoolMsg) []*qbftsim.PoolMsg {
			for i := len(b) - 1; i > 0; i-- {
				seed = seed*6364136223846793005 + 1442695040888963407
				j := int((seed >> 33) % uint64(i+1))
				b[i], b[j] = b[j], b[i]
			}
			return b
		}
	}
	for _, id := range s.Correct {
		if !s.Ops[id].Started {
			s.StartOp(id)
		}
	}
	bound := fx.F(p.N) + 3
	startRound := specqbft.Round(1)
	for _, id := range s.Correct {
		if inst := s.Inst(id); inst != nil && inst.State.Round > startRound {
			startRound = inst.State.Round
		}
	}
	if int(startRound)+bound >= instance.CutoffRound-1 {
		// too close to the round cut-off for f+3 further rounds to exist: outside the statement's premise, not judged
		cr.ok, cr.nearCutoff = true, true
		cr.log = s.Dump()
		return cr
	}
	allDecided := func() bool {
		for _, id := range s.Correct {
			if inst := s.Inst(id); inst == nil || !inst.State.Decided {
				return false
			}
		}
		return true
	}
	for iter := 0; ; iter++ {
		s.FlushCorrect(order, onEv)
		if cr.stepFail != nil {
			cr.log = s.Dump()
			return cr
		}
		if allDecided() {
			cr.ok = true
			break
		}
		// the round timer's deadlines are absolute per round: operators in the lowest round fire first
		min := specqbft.Round(1 << 30)
		for _, id := range s.Correct {
			if inst := s.Inst(id); inst != nil && !inst.State.Decided && inst.State.Round < min {
				min = inst.State.Round
			}
		}
		cur := specqbft.Round(1)
		for _, id := range s.Correct {
			if inst := s.Inst(id); inst != nil && inst.State.Round > cur {
				cur = inst.State.Round
			}
		}
		if int(cur-startRound) > bound || int(cur) >= instance.CutoffRound-1 || iter > 40 {
			cr.why = fmt.Sprintf("no decision after advancing from round %d to round %d (bound f+3 = %d)", startRound, cur, bound)
			break
		}
		for _, id := range s.Correct {
			// absolute deadlines (slot-anchored roles): operators in the lowest round fire first.
			// relative timers (proposer-type roles): every undecided operator's timer runs at the same pace (lock-step).
			if inst := s.Inst(id); inst != nil && !inst.State.Decided && (lockstep || inst.State.Round == min) {
				onEv(s.Timeout(id, ""))
			}
		}
		if cr.stepFail != nil {
			cr.log = s.Dump()
			return cr
		}
	}
	end := specqbft.Round(1)
	for _, id := range s.Correct {
		if inst := s.Inst(id); inst != nil && inst.State.Round > end {
			end = inst.State.Round
		}
	}
	cr.rounds = int(end) - int(startRound)
	if cr.rounds < 0 { // an operator that learns a decided message adopts that message's (lower) round
		cr.rounds = 0
	}
	if cr.ok && cr.rounds > bound {
		cr.ok, cr.why = false, fmt.Sprintf("decided only after %d further rounds (bound f+3 = %d)", cr.rounds, bound)
	}
	// classify the wedge for the failure signature
	if !cr.ok {
		// two distinct prepared values may also arise during the continuation itself (in-flight prepares reach only
		// some operators): classify on the final state as well
		roots := map[string]bool{}
		for _, id := range s.Correct {
			if inst := s.Inst(id); inst != nil && inst.State.LastPreparedValue != nil && !inst.State.Decided {
				roots[string(inst.State.LastPreparedValue)] = true
			}
		}
		if len(roots) >= 2 {
			cr.twoPrepared = true
		}
		silentDecided := 0
		for _, id := range s.Correct {
			if inst := s.Inst(id); inst != nil && inst.State.Decided {
				silentDecided++
			}
		}
		cr.learntOnly = silentDecided > 0
	}
	cr.log = s.Dump()
	return cr
}

func runCont(c ContProg) *prog.Result {
	r := runContPolicy(c, false)
	if r.Fail != nil || r.Discard {
		return r
	}
	// Information only: the same prefix under lock-step timeouts (relative timers whose phases coincide exactly).
	// Not judged: with one operator a full round ahead and no f+1 set to pull the others forward, lock-step keeps
	// the gap until the slow rounds on the unchanged tree too; the statement's continuation is existential and the
	// simulator does not model timer phases.
	if len(c.Alts) == 0 || c.Alts[0]%4 != 0 {
		return r // computed for a quarter of the cases only (it doubles the cost)
	}
	if r2 := runContPolicy(c, true); r2.Fail != nil {
		r.Classes = append(r.Classes, "info:lock-step-timers-do-not-decide")
	} else {
		r.Classes = append(r.Classes, "info:lock-step-timers-also-decide")
	}
	return r
}

func runContPolicy(c ContProg, lockstep bool) *prog.Result {
	res := &prog.Result{}
	cr := continuation(c.Prefix, 0, false, lockstep)
	if cr.stepFail != nil {
		res.Fail = &prog.Failure{Sig: cr.stepFail.Sig, Msg: cr.stepFail.Msg + "\nlog:\n" + cr.log}
		return res
	}
	tried := 1
	first := cr
	if !cr.ok {
		for _, a := range append([]int{1, 2, 3}, c.Alts...) {
			alt := continuation(c.Prefix, a, false, lockstep)
			tried++
			if alt.ok {
				cr = alt
				break
			}
		}
	}
	if !cr.ok {
		sig := "C07:no-decision-in-constructed-continuations"
		switch {
		case first.learntOnly:
			sig += ":some-correct-operator-already-decided-and-silent"
		case first.twoPrepared:
			sig += ":two-distinct-prepared-values"
		}
		if first.learntOnly && prog.IsKnown(sig) {
			// listed known finding: excluded by letting the pubsub layer of the operators that accepted a certificate
			// forward it (gossip), then the search goes on behind it
			prog.KnownHit("TestPropContinuation", sig)
			fw := continuation(c.Prefix, 0, true, lockstep)
			if fw.stepFail != nil {
				res.Fail = &prog.Failure{Sig: fw.stepFail.Sig, Msg: fw.stepFail.Msg + "\nlog:\n" + fw.log}
				return res
			}
			if !fw.ok {
				res.Fail = prog.Failf("C07:no-decision-even-with-certificate-forwarding", "no decision although accepted certificates were forwarded (N=%d byz=%v): %s\nlog:\n%s", c.Prefix.N, c.Prefix.Byz, fw.why, fw.log)
				return res
			}
			res.Classes = []string{"known-wedge:decided-and-silent (decides once the certificate is forwarded)"}
			res.NonTrivial = true
			return res
		}
		res.Fail = prog.Failf(sig, "no decision in %d constructed timely continuations (N=%d byz=%v, lock-step timers=%v): %s\nlog of the canonical one:\n%s", tried, c.Prefix.N, c.Prefix.Byz, lockstep, first.why, first.log)
		return res
	}
	res.NonTrivial = (first.lagging || first.prepared) && !cr.nearCutoff
	if cr.nearCutoff {
		res.Classes = []string{"switch-point-too-close-to-cutoff (not judged)"}
		return res
	}
	res.Classes = []string{fmt.Sprintf("further-rounds=%d", cr.rounds), fmt.Sprintf("continuations-tried=%d", tried)}
	if first.lagging {
		res.Classes = append(res.Classes, "operators-in-different-rounds")
	}
	if first.prepared {
		res.Classes = append(res.Classes, "prepared-value-at-switch")
	}
	if first.twoPrepared {
		res.Classes = append(res.Classes, "two-prepared-values-at-switch")
	}
	return res
}

func genCont(t *rapid.T) ContProg {
	return ContProg{Prefix: qbftsim.Gen(t, qbftsim.GenOpts{Ns: []int{4, 4, 7}, MaxOps: 30, NetFaults: true}), Alts: rapid.SliceOfN(rapid.IntRange(4, 1000), 3, 3).Draw(t, "alts")}
}

func TestPropContinuation(t *testing.T) {
	prog.Check(t, "C07", "TestPropContinuation", genCont, runCont)
}

func TestReplay(t *testing.T) {
	prog.Replay(t, "C07", "TestPropHappyPath", runHappy)
	prog.Replay(t, "C07", "TestHappyExhaustive", runHappy)
	prog.Replay(t, "C07", "TestPropContinuation", runCont)
}
