package c16

import (
	"context"
	"fmt"
	"runtime"
	"runtime/debug"
	"sort"
	"strings"
	"time"

	spectypes "github.com/bloxapp/ssv-spec/types"
	"go.uber.org/zap"

	"github.com/bloxapp/ssv/networkconfig"
	"github.com/bloxapp/ssv/operator/duties"
	"github.com/bloxapp/ssv/operator/slotticker"
	"github.com/bloxapp/ssv/protocol/v2/blockchain/beacon"

	"verif/harness/internal/prog"
)

// ---- reference model (written from the statement) ---------------------------------------------

type assign struct {
	duties map[dkey]bool // duty -> of one of the operator's validators (at fetch time)
	valid  bool          // not voided by a reorg / validator-set notice since it was fetched
}

type seenKey struct {
	typ  spectypes.BeaconRole
	val  uint64
	slot uint64
}

type model struct {
	role    string
	last    map[uint64]*assign // epoch (attester, proposer) / period (sync) -> most recent successful fetch
	seen    map[seenKey]bool
	classes map[string]bool

	// middle reading ("healthy re-fetch liveness"), per epoch / period since the last voiding notice
	failsSince map[uint64]int  // failed fetches for this epoch / period
	anyFail    map[uint64]bool // some fetch (for whatever epoch) failed: the handlers fetch the current epoch before the next one, so a failing fetch can block another
	// facts about the history of an epoch / period since its last successful fetch; they identify the
	// mechanism of a miss (known-finding families), see classify
	lastVoid   map[uint64]*voidInfo // the most recent voiding notice
	driftSince map[uint64]bool      // some voiding notice arrived while the clock was behind the last tick's slot
	skipTrig   map[uint64]bool      // the tick that triggers the pre-fetch of this epoch / period was skipped
	knownSeen  map[string]bool
	lastTick   uint64
	grace      map[uint64]bool                       // voided by an indices-change notice and no tick processed since
	current    func(u uint64, ver int) map[dkey]bool // the node's assignment (version ver) for the operator's validators
	mver       map[uint64]int                        // assignment version per epoch as of the notices delivered so far

	// storeMode: the run serves TestPropDutyStoreServesValidation (property C10): dispatch misses are
	// recorded as classes only, the case goes on
	// retry liveness: a failed beacon-node call excuses a miss only until the handler had retryK healthy
	// ticks (no failed call) inside the window in which it is supposed to (re-)fetch that epoch / period
	goodTicks   []uint64       // slots of the processed ticks since the last failed call
	from        map[uint64]int // goodTicks index from which ticks count for an epoch / period (set by its last voiding notice)
	pendingFail map[uint64]bool
	intentCur   map[uint64]bool // the pending (re-)fetch is one of the CURRENT epoch / period (else: of the next one)

	storeMode    bool
	failsTotal   map[uint64]int // failed fetches per epoch / period, ever
	skippedSlots map[uint64]bool

	eventInDutyUnit bool
	refetchChanged  bool
	dispatches      int
	obligations     int
}

type voidInfo struct {
	kind      string
	stampUnit uint64 // epoch / period of the slot the notice is stamped with
	tickSince bool   // a tick of an earlier epoch / period than the voided one was processed after the notice
}

type tickCtx struct {
	slot, clock uint64
	fetched     map[uint64][]map[dkey]bool // successful fetches during this tick, per unit
}

func (m *model) unitOf(slot uint64) uint64 {
	if m.role == "sync" {
		return slot / (slotsPerEpoch * epochsPerPeriod)
	}
	return slot / slotsPerEpoch
}

func (m *model) key(val, slot uint64) dkey {
	if m.role == "sync" {
		return dkey{val, 0}
	}
	return dkey{val, slot}
}

func (m *model) primary() spectypes.BeaconRole {
	switch m.role {
	case "attester":
		return spectypes.BNRoleAttester
	case "proposer":
		return spectypes.BNRoleProposer
	}
	return spectypes.BNRoleSyncCommittee
}

func (m *model) typeOK(t spectypes.BeaconRole) bool {
	switch m.role {
	case "attester":
		return t == spectypes.BNRoleAttester || t == spectypes.BNRoleAggregator
	case "proposer":
		return t == spectypes.BNRoleProposer
	}
	return t == spectypes.BNRoleSyncCommittee || t == spectypes.BNRoleSyncCommitteeContribution
}

// inWindow: the role's allowed slot window relative to the clock (mechanism "slot window check").
func (m *model) inWindow(clock, slot uint64) bool {
	if clock+1 == slot {
		return true // tolerated one-slot clock drift
	}
	if m.role == "attester" {
		return clock >= slot && clock-slot <= slotsPerEpoch
	}
	return clock == slot
}

func lastSlotOfPeriod(slot uint64) bool {
	return slot%(slotsPerEpoch*epochsPerPeriod) == slotsPerEpoch*epochsPerPeriod-1
}

func sameSet(a, b map[dkey]bool) bool {
	if len(a) != len(b) {
		return false
	}
	for k, v := range a {
		if w, ok := b[k]; !ok || w != v {
			return false
		}
	}
	return true
}

func sortedKeys(s map[dkey]bool) []dkey {
	out := make([]dkey, 0, len(s))
	for k := range s {
		out = append(out, k)
	}
	sort.Slice(out, func(i, j int) bool {
		if out[i].slot != out[j].slot {
			return out[i].slot < out[j].slot
		}
		return out[i].val < out[j].val
	})
	return out
}

// void: narrow reading — an assignment voided by a notice need not be dispatched until re-fetched.
func (m *model) void(unit uint64) {
	if a := m.last[unit]; a != nil {
		a.valid = false
	}
}

func (m *model) hasOwnDuties(unit uint64) bool {
	a := m.last[unit]
	if a == nil {
		return false
	}
	for _, own := range a.duties {
		if own {
			return true
		}
	}
	return false
}

// notice applies a reorg / validator-set notice received while the clock is at `clock`.
// What each notice voids is the union of (a) what the beacon API says the duties depend on
// (attester duties of epoch e on the previous, of e+1 on the current dependent root; proposer duties of
// e on the current dependent root; sync committees on neither) and (b) what the handler resets.
func (m *model) notice(kind string, stamp, clock uint64) {
	drifted := clock < m.lastTick
	clock = stamp
	e := clock / slotsPerEpoch
	p := e / epochsPerPeriod
	var units []uint64
	switch m.role {
	case "attester":
		switch kind {
		case "reorg-prev", "indices":
			units = []uint64{e, e + 1}
		case "reorg-cur":
			units = []uint64{e + 1}
		}
	case "proposer":
		switch kind {
		case "reorg-cur", "indices":
			units = []uint64{e}
		}
	case "sync":
		switch kind {
		case "reorg-cur":
			units = []uint64{p + 1}
		case "indices":
			units = []uint64{p, p + 1}
		}
	}
	m.classes[kind] = true
	for _, u := range units {
		if m.hasOwnDuties(u) {
			m.eventInDutyUnit = true
			m.classes[kind+"-voids-duties"] = true
		}
		m.void(u)
		m.failsSince[u] = 0
		m.anyFail[u] = false
		m.lastVoid[u] = &voidInfo{kind: kind, stampUnit: m.unitOf(stamp)}
		m.from[u] = len(m.goodTicks)
		m.intentCur[u] = m.unitOf(stamp) == u
		m.driftSince[u] = m.driftSince[u] || drifted
		if kind == "indices" {
			m.grace[u] = true
		}
	}
	if m.role == "sync" && m.hasOwnDuties(p) || m.role != "sync" && m.hasOwnDuties(e) {
		m.eventInDutyUnit = true
	}
}

func (m *model) failf(sig, f string, a ...any) *prog.Failure {
	return prog.Failf("C16:"+m.role+"-"+sig, f, a...)
}

// consume processes the observations of one step in the order they happened. tc == nil: not a tick.
func (m *model) consume(step string, entries []logEntry, tc *tickCtx) *prog.Failure {
	// obligations are fixed at the start of the tick: "fetched successfully before that tick"
	var oblig []dkey
	voidedStart, judged, neverStart, hasVoid, failedNow := false, false, false, false, false
	var vi voidInfo
	var vDrift, vSkip bool
	if tc != nil {
		judged = true
		m.lastTick = tc.slot
		for u, v := range m.lastVoid {
			if m.unitOf(tc.slot) < u {
				v.tickSince = true
			}
		}
		switch {
		case !m.inWindow(tc.clock, tc.slot):
			m.classes["tick-outside-window"] = true
			judged = false
		case m.role == "sync" && lastSlotOfPeriod(tc.slot):
			m.classes["sync-last-slot-of-period-unjudged"] = true
			judged = false
		}
		u0 := m.unitOf(tc.slot)
		if v := m.lastVoid[u0]; v != nil {
			vi, hasVoid = *v, true
		}
		vDrift, vSkip = m.driftSince[u0], m.skipTrig[u0]
		neverStart = judged && m.last[u0] == nil
		if a := m.last[u0]; a != nil && judged {
			voidedStart = !a.valid
			for _, k := range sortedKeys(a.duties) {
				if a.valid && a.duties[k] && (m.role == "sync" || k.slot == tc.slot) {
					oblig = append(oblig, k)
				}
			}
		}
	}
	for _, en := range entries {
		switch {
		case en.fetch && !en.ok:
			m.classes["fetch-failure"] = true
			m.failsSince[en.unit]++
			m.failsTotal[en.unit]++
			failedNow = true
			m.goodTicks = nil
			for u := range m.from {
				m.from[u] = 0
			}
			// a failed call leaves the handler's flag set: which kind of fetch stays pending
			m.intentCur[en.unit] = tc == nil || m.unitOf(tc.slot) == en.unit
			m.pendingFail[en.unit] = true
			for u := range m.lastVoid {
				m.anyFail[u] = true
			}
		case en.fetch:
			if prev := m.last[en.unit]; prev != nil {
				if sameSet(prev.duties, en.duties) {
					m.classes["refetch-same"] = true
				} else {
					m.classes["refetch-changed"] = true
					m.refetchChanged = true
				}
			}
			m.last[en.unit] = &assign{duties: en.duties, valid: true}
			if m.pendingFail[en.unit] {
				delete(m.pendingFail, en.unit)
				m.classes["retry:"+m.role+":fetched-after-a-failed-call"] = true
			}
			delete(m.lastVoid, en.unit)
			delete(m.driftSince, en.unit)
			delete(m.skipTrig, en.unit)
			if tc != nil {
				tc.fetched[en.unit] = append(tc.fetched[en.unit], en.duties)
			}
		default:
			ds := append([]*spectypes.Duty(nil), en.exec...)
			sort.Slice(ds, func(i, j int) bool {
				a, b := ds[i], ds[j]
				if a.Slot != b.Slot {
					return a.Slot < b.Slot
				}
				if a.ValidatorIndex != b.ValidatorIndex {
					return a.ValidatorIndex < b.ValidatorIndex
				}
				return a.Type < b.Type
			})
			for _, d := range ds {
				m.dispatches++
				val, slot := uint64(d.ValidatorIndex), uint64(d.Slot)
				if tc == nil {
					return m.failf("dispatch-outside-tick", "%s: %v duty of validator %d slot %d dispatched while no slot tick was being processed", step, d.Type, val, slot)
				}
				if !m.typeOK(d.Type) {
					return m.failf("wrong-type", "%s: %v duty dispatched by the %s handler", step, d.Type, m.role)
				}
				if slot != tc.slot {
					return m.failf("wrong-slot", "%s: %v duty of validator %d for slot %d dispatched at the tick of slot %d", step, d.Type, val, slot, tc.slot)
				}
				sk := seenKey{d.Type, val, slot}
				if m.seen[sk] {
					return m.failf("duplicate", "%s: %v duty of validator %d slot %d dispatched a second time", step, d.Type, val, slot)
				}
				m.seen[sk] = true
				u := m.unitOf(slot)
				k := m.key(val, slot)
				a := m.last[u]
				present := a != nil && hasKey(a.duties, k)
				if !present && m.role == "sync" && lastSlotOfPeriod(slot) {
					// which committee signs at the last slot of a period is not settled by the statement
					if b := m.last[u+1]; b != nil && hasKey(b.duties, k) {
						present = true
					}
				}
				if !present {
					if a == nil {
						return m.failf("dispatch-never-fetched", "%s: %v duty of validator %d slot %d dispatched although no assignment for epoch/period %d was ever fetched successfully", step, d.Type, val, slot, u)
					}
					sig := "dispatch-absent"
					if m.classes["clock-drift"] {
						sig = "dispatch-absent-after-clock-drift" // program had a tick with the clock one slot behind the ticker
					}
					return m.failf(sig, "%s: %v duty of validator %d slot %d dispatched although it is absent from the most recently fetched assignment for epoch/period %d (%s)", step, d.Type, val, slot, u, fmtSet(a.duties))
				}
				if !m.inWindow(tc.clock, slot) {
					return m.failf("outside-window", "%s: %v duty of validator %d slot %d dispatched while the clock is at slot %d", step, d.Type, val, slot, tc.clock)
				}
			}
		}
	}
	if tc == nil {
		return nil
	}
	u := m.unitOf(tc.slot)
	for _, k := range oblig {
		m.obligations++
		if m.seen[seenKey{m.primary(), k.val, tc.slot}] {
			continue
		}
		superseded := false
		for _, f := range tc.fetched[u] {
			if !hasKey(f, k) {
				superseded = true
			}
		}
		if superseded {
			m.classes["obligation-superseded-in-tick"] = true
			continue
		}
		return m.failf("missed", "%s: %v duty of validator %d at slot %d was not dispatched although the assignment for epoch/period %d had been fetched successfully before this tick and no notice voided it since", step, m.primary(), k.val, tc.slot, u)
	}
	// Middle reading: a voiding notice does not cancel the obligation, it only entitles the handler to
	// re-fetch. While the assignment is voided (no successful fetch since the notice), every duty of the
	// node's current assignment at this slot must be dispatched unless this is the first tick after an
	// indices-change notice (documented order there: execute, reset, fetch) or a beacon-node call failed
	// since the notice. Retry liveness: a failed call (for this epoch / period, or for another one: the
	// handlers fetch the current epoch before the next) excuses only until the handler had retryK healthy
	// ticks inside the window in which it is supposed to (re-)fetch; that also covers an epoch / period
	// whose only fetch so far failed. The proposer handler does not retry: not judged there.
	excuse := ""
	switch {
	case !judged:
	case voidedStart && m.grace[u]:
		m.classes["voided:first-tick-after-indices-change(not judged)"] = true
	case voidedStart && m.failsSince[u] > 0:
		excuse = "voided:excused-by-failed-fetch"
	case voidedStart && m.anyFail[u]:
		excuse = "voided:excused-by-failed-fetch-for-another-epoch"
	case voidedStart:
		if f := m.requireCurrent(step, tc, u, "missed-after-notice", hasVoid, vi, vDrift, vSkip); f != nil {
			return f
		}
	case neverStart && m.failsTotal[u] > 0:
		excuse = "never-fetched:excused-by-failed-fetch"
	}
	if excuse != "" {
		switch h := m.healthyTicks(u); {
		case m.role == "proposer":
			m.classes[excuse] = true
			if len(m.goodTicks) > 0 {
				m.classes["retry:proposer:healthy-ticks-after-failed-call-but-no-retry(not judged)"] = true
			}
		case h < retryK:
			m.classes[excuse] = true
			if m.intentCur[u] {
				m.classes["retry:"+m.role+":no-healthy-tick-since-the-failed-call-yet(not judged)"] = true
			} else { // the window (ticks of the previous epoch / period) is over: the handlers do not carry a pending next-epoch fetch over
				m.classes["retry:"+m.role+":fetch-still-pending-when-the-epoch-or-period-began(not judged)"] = true
			}
		default:
			m.classes["retry:"+m.role+":judged:"+excuse] = true
			if f := m.requireCurrent(step, tc, u, "missed-after-failed-fetch-with-healthy-node", hasVoid, vi, vDrift, vSkip); f != nil {
				return f
			}
		}
	}
	if tc != nil && !failedNow {
		m.goodTicks = append(m.goodTicks, tc.slot)
	}
	for g := range m.grace {
		delete(m.grace, g)
	}
	return nil
}

const retryK = 1

// healthyTicks: processed ticks without a failed call, since the last failed call and since the last
// voiding notice for u, that lie in the window in which the handler is supposed to (re-)fetch u: ticks of
// u itself for a pending fetch of the current epoch / period; for a pending fetch of the next one the
// ticks of u-1 (attester: from slot SlotsPerEpoch/2-1 of the epoch on, where processFetching asks for the
// next epoch). The tick being judged is not counted (the handlers execute before they fetch).
func (m *model) healthyTicks(u uint64) int {
	n := 0
	from := m.from[u]
	if from > len(m.goodTicks) {
		from = 0
	}
	for _, t := range m.goodTicks[from:] {
		switch tu := m.unitOf(t); {
		case m.intentCur[u] && tu == u:
			n++
		case !m.intentCur[u] && u > 0 && tu == u-1 && (m.role != "attester" || t%slotsPerEpoch > slotsPerEpoch/2-2):
			n++
		}
	}
	return n
}

// requireCurrent: every duty of the operator's validators at the tick's slot in the node's current assignment
// for u (as far as notices have been delivered; or what the handler fetched during this tick) must have been
// dispatched. A miss is classified by mechanism (known-finding families) before it is reported as base.
func (m *model) requireCurrent(step string, tc *tickCtx, u uint64, base string, hasVoid bool, vi voidInfo, vDrift, vSkip bool) *prog.Failure {
	a := m.last[u]
	required := m.current(u, m.mver[u])
	if f := tc.fetched[u]; len(f) > 0 {
		required = map[dkey]bool{}
		for k, own := range f[len(f)-1] {
			if own {
				required[k] = true
			}
		}
	}
	for _, k := range sortedKeys(required) {
		if m.role != "sync" && k.slot != tc.slot {
			continue
		}
		m.obligations++
		if m.seen[seenKey{m.primary(), k.val, tc.slot}] {
			m.classes["voided:refetched-and-dispatched"] = true
			continue
		}
		// Identify the mechanism (facts since this epoch / period was last fetched):
		//  at-rollover: the notice that voided it last was stamped in an earlier epoch / period (it
		//    voided the "next" one) and no tick of an earlier epoch / period was processed after it,
		//    i.e. the handler had no tick left to re-fetch it as "next";
		//  skipped-tick: the tick that triggers its pre-fetch was skipped;
		//  clock-behind-ticker: a notice that voided it was evaluated with the clock behind the ticker.
		sig := base
		switch {
		case hasVoid && vi.stampUnit < u && !vi.tickSince:
			sig = "missed-after-notice-at-rollover"
		case vSkip:
			sig = "missed-after-notice-and-skipped-tick"
		case vDrift:
			sig = "missed-after-notice-with-clock-behind-ticker"
		}
		if full := "C16:" + m.role + "-" + sig; m.storeMode || prog.IsKnown(full) {
			if !m.knownSeen[full] && !m.storeMode { // counted once per program; the case goes on behind it
				m.knownSeen[full] = true
				prog.KnownHit(testName, full)
			}
			m.classes["known:"+sig] = true
			return nil
		}
		state := "still holds the voided one"
		switch {
		case a == nil:
			state = "has never fetched it successfully"
		case a.valid:
			state = "fetched it during this tick"
		}
		if base == "missed-after-notice" {
			return m.failf(sig, "%s: %v duty of validator %d at slot %d of the beacon node's current assignment for epoch/period %d was not dispatched: an assignment for it had been fetched successfully before, a %s notice (stamped in epoch/period %d) voided it last, no fetch has failed since, and the handler %s", step, m.primary(), k.val, tc.slot, u, vi.kind, vi.stampUnit, state)
		}
		return m.failf(sig, "%s: %v duty of validator %d at slot %d of the beacon node's current assignment for epoch/period %d was not dispatched: a beacon-node duties call failed earlier, but every call since succeeded and the handler has processed %d tick(s) inside the window in which it (re-)fetches that epoch/period (healthy ticks since the failure: slots %v); the handler %s", step, m.primary(), k.val, tc.slot, u, m.healthyTicks(u), m.goodTicks, state)
	}
	return nil
}

// skipped: slot s went by without a tick. The handlers schedule the pre-fetch of the next epoch / period
// at one particular tick (attester: slot SlotsPerEpoch/2-2 of every epoch; sync committee: that slot of the
// first preparation epoch); if it is that one, remember which epoch / period lost its trigger.
func (m *model) skipped(s uint64) {
	m.skippedSlots[s] = true
	if s%slotsPerEpoch != slotsPerEpoch/2-2 {
		return
	}
	e := s / slotsPerEpoch
	switch m.role {
	case "attester":
		m.skipTrig[e+1] = true
	case "sync":
		if e%epochsPerPeriod == epochsPerPeriod-2 {
			m.skipTrig[e/epochsPerPeriod+1] = true
		}
	}
}

func hasKey(s map[dkey]bool, k dkey) bool { _, ok := s[k]; return ok }

func fmtSet(s map[dkey]bool) string {
	out := ""
	for _, k := range sortedKeys(s) {
		out += fmt.Sprintf(" v%d@%d", k.val, k.slot)
	}
	if out == "" {
		return "empty"
	}
	return "has" + out
}

// ---- interpreter ----------------------------------------------------------------------------

// hookCtx is the context handed to HandleDuties. It is the harness' cancelable context (Value and
// Done are the inner ones, so derived contexts attach to it directly, without helper goroutines);
// a Done() call made by HandleDuties itself, i.e. on entering its select, first waits for the
// interpreter to take note that the handler is idle.
type hookCtx struct {
	context.Context
	idle chan struct{}
}

func (c *hookCtx) Done() <-chan struct{} {
	if calledByHandleDuties() {
		select {
		case c.idle <- struct{}{}:
		case <-c.Context.Done():
		}
	}
	return c.Context.Done()
}

func calledByHandleDuties() bool {
	pcs := make([]uintptr, 4)
	n := runtime.Callers(3, pcs) // skip Callers, calledByHandleDuties, Done
	if n == 0 {
		return false
	}
	fr, _ := runtime.CallersFrames(pcs[:n]).Next()
	return strings.HasSuffix(fr.Function, ").HandleDuties")
}

func expandFetch(p *Prog) {
	var out []FetchSpec
	for _, f := range p.Fetch {
		n := f.N
		if n < 1 {
			n = 1
		}
		for i := 0; i < n; i++ {
			out = append(out, FetchSpec{Fail: f.Fail, V: f.V})
		}
	}
	p.Fetch = out
}

func run(p Prog) *prog.Result { return execute(p, testName, nil) }

// execute interprets p on the real handler. probe == nil: the dispatch oracle of C16 decides. probe != nil:
// the duty-store oracle of C10 decides (after every fully processed step); the dispatch model only keeps
// the book on what was fetched / voided.
func execute(p Prog, test string, probe *storeProbe) *prog.Result {
	res := &prog.Result{}
	expandFetch(&p)
	w := &world{p: p, ver: map[uint64]int{}}
	w.comm.Store(uint32(p.Comm & 15))
	w.other.Store(uint32(p.Other & 3))
	cur := uint64(p.Start)
	clock := cur
	if p.InitBehind && cur > 0 {
		clock = cur - 1
	}
	w.clock.Store(clock)

	m := &model{role: p.Role, last: map[uint64]*assign{}, seen: map[seenKey]bool{}, classes: map[string]bool{"role=" + p.Role: true},
		failsSince: map[uint64]int{}, anyFail: map[uint64]bool{}, lastVoid: map[uint64]*voidInfo{}, driftSince: map[uint64]bool{}, skipTrig: map[uint64]bool{}, knownSeen: map[string]bool{}, from: map[uint64]int{}, intentCur: map[uint64]bool{}, pendingFail: map[uint64]bool{}, failsTotal: map[uint64]int{}, skippedSlots: map[uint64]bool{}, mver: map[uint64]int{}, grace: map[uint64]bool{}}
	m.current = w.ownDuties
	m.storeMode = probe != nil
	h, st := newHandler(p.Role)
	if probe != nil {
		probe.init(st, m, w)
	}
	tk := &fakeTicker{c: make(chan time.Time)}
	reorgCh := make(chan duties.ReorgEvent)
	idxCh := make(chan struct{})
	net := networkconfig.NetworkConfig{Name: "c16", Beacon: fakeNet{Network: beacon.NewNetwork(spectypes.MainNetwork), w: w}}
	h.Setup(h.Name(), zap.NewNop(), w, nil, net, w, w.execute, func() slotticker.SlotTicker { return tk }, reorgCh, idxCh)

	ctx, cancel := context.WithCancel(context.Background())
	done := make(chan struct{})
	hctx := &hookCtx{Context: ctx, idle: make(chan struct{})}
	var hpanic string
	started := false
	defer func() {
		cancel()
		if started {
			<-done
		}
	}()

	finish := func(f *prog.Failure) *prog.Result {
		res.Fail = f
		res.NonTrivial = m.eventInDutyUnit && m.refetchChanged
		if probe != nil {
			if f != nil && strings.HasPrefix(f.Sig, "C16:") && !strings.HasSuffix(f.Sig, "handler-exited") { // dispatch-oracle finding: C16's business, the case just ends here
				f = nil
				m.classes["ended-by-dispatch-oracle"] = true
			}
			res.Fail = f
			res.NonTrivial = probe.acrossBoundary
			prog.Count(test, "store_lookups", probe.lookups)
			prog.Count(test, "store_absent_not_judged", probe.absentObs)
		}
		for c := range m.classes {
			res.Classes = append(res.Classes, c)
		}
		sort.Strings(res.Classes)
		prog.Count(test, "dispatches", m.dispatches)
		prog.Count(test, "obligations_checked", m.obligations)
		prog.Count(test, "fetch_calls", w.nfetch)
		return res
	}

	// as Scheduler.Start: blocking initial fetch, then the handler loop in its own goroutine
	h.HandleInitialDuties(ctx)
	taken := 0
	take := func() []logEntry { e := w.log[taken:]; taken = len(w.log); return e }
	if f := m.consume("initial duties", take(), nil); f != nil {
		return finish(f)
	}
	started = true
	go func() {
		defer close(done)
		defer func() {
			if r := recover(); r != nil {
				hpanic = fmt.Sprintf("%v\n%s", r, debug.Stack())
			}
		}()
		h.HandleDuties(hctx)
	}()

	dead := func() *prog.Result {
		if hpanic != "" {
			return finish(prog.Failf("panic:HandleDuties:"+p.Role, "handler goroutine panicked: %s", hpanic))
		}
		return finish(m.failf("handler-exited", "HandleDuties returned although its context was not cancelled"))
	}
	// "handler finished the event": each handler's loop is `for { select { case <-ctx.Done(): ...` and the
	// channel operands of a select are evaluated on entering it, so ctx.Done() is called by HandleDuties
	// itself exactly once per loop iteration. hookCtx turns that call into a rendezvous.
	sentinel := func() bool {
		select {
		case <-hctx.idle:
			return true
		case <-done:
			return false
		}
	}
	if !sentinel() { // the sync handler reads the clock once before entering its loop
		return dead()
	}

	lastSkip := false
	applied := map[int]bool{} // late reorgs whose version change took effect before the preceding tick
	ticks := 0
	for i, st := range p.Steps {
		name := fmt.Sprintf("step %d (%s", i, st.Kind)
		ok := true
		var tc *tickCtx
		switch st.Kind {
		case "tick":
			clk := cur
			if st.Off == -1 && cur%slotsPerEpoch != 0 {
				clk = cur - 1
				m.classes["clock-drift"] = true
			} else if st.Off == 1 && cur%slotsPerEpoch != slotsPerEpoch-1 {
				clk = cur + 1
				m.classes["late-tick"] = true
			}
			clock = clk
			w.clock.Store(clk)
			tk.slot.Store(cur)
			tc = &tickCtx{slot: cur, clock: clk, fetched: map[uint64][]map[dkey]bool{}}
			// a late notice belongs to a re-organisation that happened during the previous slot: the node
			// serves the new assignment already when this tick is processed
			for j := i + 1; j < len(p.Steps) && clk > 0; j++ {
				nx := p.Steps[j]
				if nx.Kind == "tick" || nx.Kind == "skip" {
					break
				}
				if (nx.Kind == "reorg-prev" || nx.Kind == "reorg-cur") && nx.Late && !applied[j] {
					applied[j] = true
					for _, u := range versionUnits(p.Role, nx.Kind, clk-1) {
						w.ver[u] = nx.V % 3
					}
				}
			}
			name += fmt.Sprintf(" slot %d clock %d)", cur, clk)
			if ticks > 0 {
				if cur%slotsPerEpoch == 0 {
					m.classes["epoch-boundary"] = true
				}
				if cur%(slotsPerEpoch*epochsPerPeriod) == 0 {
					m.classes["period-boundary"] = true
				}
			}
			select {
			case tk.c <- time.Time{}:
			case <-done:
				ok = false
			}
			cur++
			ticks++
			lastSkip = false
		case "skip": // the real ticker skips a slot when the handler was busy for longer than a slot
			if lastSkip {
				continue
			}
			lastSkip = true
			m.classes["skipped-tick"] = true
			m.skipped(cur)
			clock = cur
			w.clock.Store(clock)
			cur++
			continue
		case "reorg-prev", "reorg-cur":
			at := clock
			if st.Late && clock > 0 {
				at = clock - 1
				m.classes["late-reorg-notice"] = true
			}
			name += fmt.Sprintf(" stamped slot %d, clock %d)", at, clock)
			for _, u := range versionUnits(p.Role, st.Kind, at) {
				m.mver[u] = st.V % 3
				if !applied[i] {
					w.ver[u] = st.V % 3
				}
			}
			m.notice(st.Kind, at, clock)
			select {
			case reorgCh <- duties.ReorgEvent{Slot: phase0Slot(at), Previous: st.Kind == "reorg-prev", Current: st.Kind == "reorg-cur"}:
			case <-done:
				ok = false
			}
		case "indices":
			name += fmt.Sprintf(" at clock %d)", clock)
			w.comm.Store(uint32(st.Comm & 15))
			w.other.Store(uint32(st.Other & 3))
			if st.Comm&15 == 0 {
				m.classes["empty-committee"] = true
			}
			m.notice("indices", clock, clock)
			select {
			case idxCh <- struct{}{}:
			case <-done:
				ok = false
			}
		default:
			panic("bad step kind " + st.Kind)
		}
		if !ok || !sentinel() {
			return dead()
		}
		if f := m.consume(name, take(), tc); f != nil {
			return finish(f)
		}
		if probe != nil {
			if f := probe.check(name, clock, tc); f != nil {
				return finish(f)
			}
		}
	}
	if m.dispatches > 0 {
		m.classes["dispatched>=1"] = true
	}
	return finish(nil)
}
