package c16

import (
	"testing"

	"pgregory.net/rapid"

	"verif/harness/internal/prog"
)

var stepKinds = []string{"tick", "tick", "tick", "tick", "tick", "tick", "tick", "tick", "tick", "tick", "tick", "tick",
	"skip", "reorg-prev", "reorg-prev", "reorg-cur", "reorg-cur", "indices", "indices"}

func genStep(t *rapid.T) Step {
	s := Step{Kind: rapid.SampledFrom(stepKinds).Draw(t, "kind")}
	switch s.Kind {
	case "tick":
		s.Off = rapid.SampledFrom([]int{0, 0, 0, 0, 0, 0, 0, 0, -1, 1}).Draw(t, "off")
	case "reorg-prev", "reorg-cur":
		s.Late = rapid.SampledFrom([]bool{false, false, true}).Draw(t, "late")
		s.V = rapid.IntRange(0, 2).Draw(t, "v")
	case "indices":
		s.Comm = rapid.SampledFrom([]uint8{15, 7, 14, 11, 13, 3, 5, 6, 9, 10, 12, 1, 2, 4, 8, 0}).Draw(t, "comm")
		s.Other = uint8(rapid.IntRange(0, 3).Draw(t, "other"))
	}
	return s
}

func genFetch(t *rapid.T) FetchSpec {
	f := FetchSpec{
		Fail: rapid.SampledFrom([]bool{false, false, true}).Draw(t, "fail"),
	}
	if f.Fail { // beacon-node outages come in bursts
		f.N = rapid.SampledFrom([]int{1, 1, 2, 3, 4, 5, 6, 8}).Draw(t, "n")
	} else {
		f.N = rapid.SampledFrom([]int{1, 1, 1, 2, 2, 3, 5}).Draw(t, "n")
	}
	return f
}

func gen(t *rapid.T) Prog {
	p := Prog{Role: rapid.SampledFrom([]string{"attester", "attester", "proposer", "sync"}).Draw(t, "role")}
	p.Seed = rapid.Uint64Range(0, 1<<16).Draw(t, "seed")
	if p.Role == "sync" {
		// start in epoch 1..3 of a 4-epoch period so that the period boundary (slot 32) is crossed
		p.Start = rapid.IntRange(10, 30).Draw(t, "start")
	} else {
		p.Start = rapid.IntRange(0, 11).Draw(t, "start")
	}
	p.InitBehind = rapid.Bool().Draw(t, "init_behind")
	p.Comm = rapid.SampledFrom([]uint8{15, 15, 7, 14, 11, 13, 3, 5, 6, 9, 10, 12, 1, 8, 0}).Draw(t, "comm")
	p.Other = uint8(rapid.IntRange(0, 3).Draw(t, "other"))
	p.Steps = rapid.SliceOfN(rapid.Custom(genStep), 8, 56).Draw(t, "steps")
	if rapid.IntRange(0, 2).Draw(t, "single_failure") == 0 {
		// one isolated beacon-node failure at the k-th duties call, healthy before and after
		p.Fetch = []FetchSpec{{N: rapid.IntRange(0, 14).Draw(t, "ok_before")}, {Fail: true, N: 1}}
		if p.Fetch[0].N == 0 {
			p.Fetch = p.Fetch[1:]
		}
	} else {
		p.Fetch = rapid.SliceOfN(rapid.Custom(genFetch), 0, 30).Draw(t, "fetch")
	}
	return p
}

func TestPropDutyDispatch(t *testing.T) { prog.Check(t, "C16", testName, gen, run) }
func TestReplay(t *testing.T) {
	prog.Replay(t, "C16", testName, run)
	prog.Replay(t, "C10", storeTest, runStore)
}
