package c16

import (
	"fmt"
	"testing"

	"github.com/attestantio/go-eth2-client/spec/phase0"
	"pgregory.net/rapid"

	"github.com/bloxapp/ssv/operator/duties/dutystore"

	"verif/harness/internal/prog"
)

// Property C10, scheduler side: cli/operator hands ONE dutystore.Store to the duty handlers and to message
// validation. Validation rejects (ErrNoDuty) a proposer message whose validator has no proposer duty in the
// store for the message's slot and ignores (ErrNoDutyIgnored) a sync-committee message whose validator has no
// duty for the slot's period; such messages are inside their time window from the start of slot s until the
// end of slot s+3 (ttl = 1 + lateSlotAllowance). So a correct peer's own scheduler must keep a duty readable
// in the store for that long, across the epoch / period boundary too.
const storeTest = "TestPropDutyStoreServesValidation"

const messageWindow = 3 // slots after the duty's slot during which its messages are still timely

type storeProbe struct {
	st *dutystore.Store
	m  *model
	w  *world

	fail           *prog.Failure
	lookups        int
	acrossBoundary bool
	absentObs      int
	failSlot       map[uint64]uint64 // epoch / period -> clock slot at which a failed fetch since the last notice was first observed
	startUnit      uint64
	ticksIn        map[uint64]int
	seenAt         map[string]string // duty -> last step after which the store still had it
}

func (sp *storeProbe) init(st *dutystore.Store, m *model, w *world) {
	sp.st, sp.m, sp.w, sp.seenAt = st, m, w, map[string]string{}
	sp.failSlot = map[uint64]uint64{}
	sp.ticksIn = map[uint64]int{}
	sp.startUnit = m.unitOf(w.clock.Load())
}

func (sp *storeProbe) failf(sig, f string, a ...any) *prog.Failure {
	sp.fail = prog.Failf("C10:"+sig, f, a...)
	return sp.fail
}

// check runs after a step has been fully processed by the handler; now = the wall clock's slot.
// Required: every duty of one of the operator's validators that (i) is in the node's current assignment (as
// far as notices have been delivered), (ii) is in the assignment fetched successfully last, (iii) which no
// notice voided since, and (iv) whose messages are timely now (slot in [now-3, now]; sync committee: the
// periods of those slots).
func (sp *storeProbe) check(step string, now uint64, tick *tickCtx) *prog.Failure {
	m := sp.m
	if tick != nil {
		sp.ticksIn[m.unitOf(tick.slot)]++
	}
	lo := uint64(0)
	if now > messageWindow {
		lo = now - messageWindow
	}
	units := []uint64{m.unitOf(lo)}
	if u := m.unitOf(now); u != units[0] {
		units = append(units, u)
	}
	for _, u := range units {
		a := m.last[u]
		cur := m.current(u, m.mver[u])
		if a == nil || !a.valid {
			sp.observe(u, a, cur, lo, now)
			continue
		}
		for _, k := range sortedKeys(a.duties) {
			if !a.duties[k] || !cur[k] {
				continue
			}
			if m.role != "sync" && (k.slot < lo || k.slot > now) {
				continue
			}
			sp.lookups++
			id := fmt.Sprintf("%d/%d/%d", u, k.slot, k.val)
			var present bool
			if m.role == "sync" {
				present = sp.st.SyncCommittee.Duty(u, phase0.ValidatorIndex(k.val)) != nil
			} else {
				present = sp.st.Proposer.ValidatorDuty(phase0.Epoch(u), phase0.Slot(k.slot), phase0.ValidatorIndex(k.val)) != nil
			}
			if u != m.unitOf(now) {
				sp.acrossBoundary = true
				m.classes["store:lookup-for-previous-"+map[bool]string{true: "period", false: "epoch"}[m.role == "sync"]] = true
			}
			if m.role != "sync" && k.slot%slotsPerEpoch == slotsPerEpoch-1 {
				m.classes["store:lookup-for-last-slot-of-epoch"] = true
			}
			if present {
				sp.seenAt[id] = step
				continue
			}
			since := "it was never seen in the store by this check"
			if s, ok := sp.seenAt[id]; ok {
				since = "the store still had it after " + s
			}
			if m.role == "sync" {
				return sp.failf("duty-store-lost-sync-duty-inside-message-window",
					"after %s (clock slot %d): SyncCommittee.Duty(period %d, validator %d) is nil although the validator is in the sync committee of that period in the assignment fetched successfully last, no notice voided it, and messages for slots %d..%d are timely; %s",
					step, now, u, k.val, lo, now, since)
			}
			return sp.failf("duty-store-lost-proposer-duty-inside-message-window",
				"after %s (clock slot %d): Proposer.ValidatorDuty(epoch %d, slot %d, validator %d) is nil although the duty is in the assignment fetched successfully last, no notice voided it, and messages for slot %d are timely until the end of slot %d; %s",
				step, now, u, k.slot, k.val, k.slot, k.slot+messageWindow, since)
		}
	}
	return nil
}

// observe: situations the unchanged tree does not guarantee (not judged, counted as classes): duties of the
// node's current assignment, timely now, that are missing from the store because the assignment was never
// fetched successfully or a notice voided it.
func (sp *storeProbe) observe(u uint64, a *assign, cur map[dkey]bool, lo, now uint64) {
	m := sp.m
	for _, k := range sortedKeys(cur) {
		if m.role != "sync" && (k.slot < lo || k.slot > now) {
			continue
		}
		var present bool
		if m.role == "sync" {
			present = sp.st.SyncCommittee.Duty(u, phase0.ValidatorIndex(k.val)) != nil
		} else {
			present = sp.st.Proposer.ValidatorDuty(phase0.Epoch(u), phase0.Slot(k.slot), phase0.ValidatorIndex(k.val)) != nil
		}
		failed := ""
		if m.failsSince[u] > 0 || (a == nil && m.failsTotal[u] > 0) {
			failed = "+failed-fetch"
			if at, ok := sp.failSlot[u]; !ok {
				sp.failSlot[u] = now
			} else if now > at && !present {
				failed = "+failed-fetch-in-an-earlier-slot" // the handler did not make up for the failed call
			}
		} else {
			delete(sp.failSlot, u)
		}
		pre := "obs:" + m.role + ":"
		if u < sp.startUnit {
			pre += "before-start:" // epoch / period before the one the node started in
		}
		switch {
		case a == nil && present:
			m.classes[pre+"present-although-never-fetched"] = true // cannot happen
		case a == nil:
			if failed == "" && sp.ticksIn[u] >= 2 {
				failed = "-after-2-ticks-in-it"
				// no failed call, two ticks: either the tick that schedules the fetch was skipped (proposer: the
				// previous epoch's last slot sets fetchFirst) or the validator set was empty when it ran
				if m.role == "proposer" && u > 0 && m.skippedSlots[u*slotsPerEpoch-1] {
					failed += ":scheduling-tick-skipped"
				}
			}
			m.classes[pre+"absent:never-fetched"+failed] = true
			sp.absentObs++
		case present:
			m.classes[pre+"present-while-voided"] = true
		default:
			kind := "?"
			if v := m.lastVoid[u]; v != nil {
				kind = v.kind
			}
			m.classes[pre+"absent:voided-by-"+kind+failed] = true
			sp.absentObs++
		}
	}
}

func runStore(p Prog) *prog.Result { return execute(p, storeTest, &storeProbe{}) }

func genStore(t *rapid.T) Prog {
	p := Prog{Role: rapid.SampledFrom([]string{"proposer", "proposer", "sync"}).Draw(t, "role")}
	p.Seed = rapid.Uint64Range(0, 1<<16).Draw(t, "seed")
	if p.Role == "sync" {
		p.Start = rapid.IntRange(10, 30).Draw(t, "start")
	} else {
		p.Start = rapid.IntRange(0, 11).Draw(t, "start")
	}
	p.InitBehind = rapid.Bool().Draw(t, "init_behind")
	p.Comm = rapid.SampledFrom([]uint8{15, 15, 7, 14, 11, 13, 3, 5, 6, 9, 10, 12, 1, 8, 0}).Draw(t, "comm")
	p.Other = uint8(rapid.IntRange(0, 3).Draw(t, "other"))
	p.Steps = rapid.SliceOfN(rapid.Custom(genStep), 8, 56).Draw(t, "steps")
	p.Fetch = rapid.SliceOfN(rapid.Custom(genFetch), 0, 30).Draw(t, "fetch")
	return p
}

func TestPropDutyStoreServesValidation(t *testing.T) {
	prog.Check(t, "C10", storeTest, genStore, runStore)
}
