// Package c16: property C16 — "each assigned beacon duty is dispatched exactly once, at its slot".
//
// The three real duty handlers (attester, proposer, sync committee) are each driven alone. The
// harness owns every event source (slot ticker, reorg channel, indices-change channel, the clock
// behind the beacon-network interface, the beacon node, the validator controller), so the schedule
// is a pure function of the program. All three channels are unbuffered; the context handed to
// HandleDuties reports every entry into the handler's select (its ctx.Done() call), so the interpreter
// knows when the handler has finished an event before it delivers the next one.
package c16

import (
	"context"
	"fmt"
	"sync/atomic"
	"testing"
	"time"

	eth2client "github.com/attestantio/go-eth2-client"
	eth2apiv1 "github.com/attestantio/go-eth2-client/api/v1"
	"github.com/attestantio/go-eth2-client/spec/phase0"
	spectypes "github.com/bloxapp/ssv-spec/types"
	"go.uber.org/zap"

	"github.com/bloxapp/ssv/networkconfig"
	"github.com/bloxapp/ssv/operator/duties"
	"github.com/bloxapp/ssv/operator/duties/dutystore"
	"github.com/bloxapp/ssv/operator/slotticker"
	"github.com/bloxapp/ssv/protocol/v2/blockchain/beacon"
	ssvtypes "github.com/bloxapp/ssv/protocol/v2/types"

	"verif/harness/internal/prog"
)

func TestMain(m *testing.M) { prog.Main(m) }

const (
	slotsPerEpoch   = 8 // minimal-preset sized epochs
	epochsPerPeriod = 4
	testName        = "TestPropDutyDispatch"
)

// ---- program ------------------------------------------------------------------------------

type Step struct {
	// Kind: tick | skip | reorg-prev | reorg-cur | indices
	Kind string `json:"k"`
	// Off (tick only): clock slot minus tick slot: 0, -1 (clock drift the handlers tolerate) or +1
	// (tick handled late). The interpreter ignores an offset that would put the clock into another epoch.
	Off int `json:"off,omitempty"`
	// Late (reorg only): the notice is stamped with the slot before the clock's: the head event was
	// raised during the previous slot and reaches the handler only after the next tick was processed
	// (Scheduler.reorg and the feed are unbuffered, the handler's select picks among ready channels).
	Late bool `json:"late,omitempty"`
	// V (reorg only): the assignment version the beacon node serves, from this re-organisation on, for
	// the epochs whose duties depend on the changed root (attester: previous root -> e and e+1, current
	// root -> e+1; proposer: current root -> e; sync committees do not depend on either). It may equal
	// the old version (a reorg that did not move the operator's duties).
	V int `json:"v,omitempty"`
	// Comm / Other (indices only): new validator set (bit i of Comm = validator i+1 is one of the
	// operator's validators; bit j of Other = validator 5+j is active but belongs to other operators)
	Comm  uint8 `json:"comm,omitempty"`
	Other uint8 `json:"other,omitempty"`
}

type FetchSpec struct {
	Fail bool `json:"fail,omitempty"`
	V    int  `json:"v,omitempty"` // ignored since versions are bound to reorg notices (kept so that old replay files parse)
	N    int  `json:"n,omitempty"` // run length: this spec answers N consecutive calls (default 1)
}

type Prog struct {
	Role       string      `json:"role"` // attester | proposer | sync
	Seed       uint64      `json:"seed"` // seeds the assignment tables
	Start      int         `json:"start"`
	InitBehind bool        `json:"init_behind,omitempty"` // node started during slot Start-1
	Comm       uint8       `json:"comm"`
	Other      uint8       `json:"other"`
	Steps      []Step      `json:"steps"`
	Fetch      []FetchSpec `json:"fetch"` // consumed one per beacon-node duties call; afterwards {ok, v0}
}

// ---- assignment tables (the "beacon chain" the fake node serves) -------------------------------

func mix(xs ...uint64) uint64 {
	h := uint64(0x9e3779b97f4a7c15)
	for _, x := range xs {
		h ^= x + 0x9e3779b97f4a7c15 + (h << 6) + (h >> 2)
		h ^= h >> 30
		h *= 0xbf58476d1ce4e5b9
		h ^= h >> 27
		h *= 0x94d049bb133111eb
		h ^= h >> 31
	}
	return h
}

// attSlot: slot of validator val's attestation in epoch e under version v; ok=false: the node reports none.
func attSlot(seed uint64, v int, e uint64, val uint64) (uint64, bool) {
	r := mix(seed, 1, uint64(v), e, val) % (slotsPerEpoch + 1)
	if r == slotsPerEpoch {
		return 0, false
	}
	return e*slotsPerEpoch + r, true
}

// proposerAt: validator proposing at slot under version v (0 = somebody else's validator).
func proposerAt(seed uint64, v int, slot uint64) uint64 {
	r := mix(seed, 2, uint64(v), slot) % 8
	if r < 6 {
		return r + 1
	}
	return 0
}

func syncMember(seed uint64, v int, period uint64, val uint64) bool {
	return mix(seed, 3, uint64(v), period, val)%2 == 0
}

func pubKey(val uint64) (pk phase0.BLSPubKey) { pk[0] = byte(val); return }

// ---- observation log -------------------------------------------------------------------------

type dkey struct {
	val  uint64
	slot uint64 // 0 for sync-committee membership
}

type logEntry struct {
	fetch  bool
	unit   uint64        // fetch: epoch (attester, proposer) or period (sync)
	ok     bool          // fetch succeeded
	duties map[dkey]bool // fetch ok: duty -> belongs to one of the operator's validators
	exec   []*spectypes.Duty
}

type world struct {
	p     Prog
	clock atomic.Uint64 // EstimatedCurrentSlot
	comm  atomic.Uint32
	other atomic.Uint32
	// log and nfetch are written by the handler goroutine while it processes an event and read by
	// the interpreter only while the handler is parked in its select (ordered by the channel ops).
	log    []logEntry
	nfetch int
	ver    map[uint64]int // epoch -> assignment version the node currently serves (default 0)
	subs   atomic.Int64
}

func (w *world) commIdx() []phase0.ValidatorIndex {
	var out []phase0.ValidatorIndex
	m := w.comm.Load()
	for i := 0; i < 4; i++ {
		if m&(1<<i) != 0 {
			out = append(out, phase0.ValidatorIndex(i+1))
		}
	}
	return out
}

func (w *world) allIdx() []phase0.ValidatorIndex {
	out := w.commIdx()
	m := w.other.Load()
	for j := 0; j < 2; j++ {
		if m&(1<<j) != 0 {
			out = append(out, phase0.ValidatorIndex(5+j))
		}
	}
	return out
}

func (w *world) isComm(val uint64) bool {
	return val >= 1 && val <= 4 && w.comm.Load()&(1<<(val-1)) != 0
}

// versionUnits: the epochs whose assignment a re-organisation changes (beacon API: attester duties of
// epoch e depend on the previous, of e+1 on the current dependent root, and a changed previous root
// implies a changed current root; proposer duties of e depend on the current dependent root).
func versionUnits(role, kind string, stamp uint64) []uint64 {
	e := stamp / slotsPerEpoch
	switch {
	case role == "attester" && kind == "reorg-prev":
		return []uint64{e, e + 1}
	case role == "attester" && kind == "reorg-cur":
		return []uint64{e + 1}
	case role == "proposer" && kind == "reorg-cur":
		return []uint64{e}
	}
	return nil
}

// ownDuties: the duties the node reports under assignment version ver for the operator's own validators
// (current validator set) in epoch / period u.
func (w *world) ownDuties(u uint64, ver int) map[dkey]bool {
	out := map[dkey]bool{}
	switch w.p.Role {
	case "attester":
		for _, i := range w.commIdx() {
			if s, ok := attSlot(w.p.Seed, ver, u, uint64(i)); ok {
				out[dkey{uint64(i), s}] = true
			}
		}
	case "proposer":
		for s := u * slotsPerEpoch; s < (u+1)*slotsPerEpoch; s++ {
			if v := proposerAt(w.p.Seed, ver, s); v != 0 && w.isComm(v) {
				out[dkey{v, s}] = true
			}
		}
	case "sync":
		for _, i := range w.commIdx() {
			if syncMember(w.p.Seed, 0, u, uint64(i)) {
				out[dkey{uint64(i), 0}] = true
			}
		}
	}
	return out
}

func phase0Slot(s uint64) phase0.Slot { return phase0.Slot(s) }

func (w *world) nextSpec() FetchSpec {
	i := w.nfetch
	w.nfetch++
	if i < len(w.p.Fetch) {
		return w.p.Fetch[i]
	}
	return FetchSpec{}
}

// -- fake validator controller
func (w *world) CommitteeActiveIndices(phase0.Epoch) []phase0.ValidatorIndex { return w.commIdx() }
func (w *world) AllActiveIndices(phase0.Epoch, bool) []phase0.ValidatorIndex { return w.allIdx() }
func (w *world) GetOperatorShares() []*ssvtypes.SSVShare                     { return nil }

// -- fake beacon node
var errNode = fmt.Errorf("scripted beacon node failure")

func (w *world) AttesterDuties(_ context.Context, epoch phase0.Epoch, idx []phase0.ValidatorIndex) ([]*eth2apiv1.AttesterDuty, error) {
	sp := w.nextSpec()
	if sp.Fail {
		w.log = append(w.log, logEntry{fetch: true, unit: uint64(epoch)})
		return nil, errNode
	}
	var out []*eth2apiv1.AttesterDuty
	set := map[dkey]bool{}
	for _, i := range idx {
		if s, ok := attSlot(w.p.Seed, w.ver[uint64(epoch)], uint64(epoch), uint64(i)); ok {
			out = append(out, &eth2apiv1.AttesterDuty{PubKey: pubKey(uint64(i)), Slot: phase0.Slot(s), ValidatorIndex: i,
				CommitteeIndex: 1, CommitteeLength: 128, CommitteesAtSlot: 4, ValidatorCommitteeIndex: uint64(i)})
			set[dkey{uint64(i), s}] = true
		}
	}
	w.log = append(w.log, logEntry{fetch: true, unit: uint64(epoch), ok: true, duties: set})
	return out, nil
}

func (w *world) ProposerDuties(_ context.Context, epoch phase0.Epoch, idx []phase0.ValidatorIndex) ([]*eth2apiv1.ProposerDuty, error) {
	sp := w.nextSpec()
	if sp.Fail {
		w.log = append(w.log, logEntry{fetch: true, unit: uint64(epoch)})
		return nil, errNode
	}
	want := map[uint64]bool{}
	for _, i := range idx {
		want[uint64(i)] = true
	}
	var out []*eth2apiv1.ProposerDuty
	set := map[dkey]bool{}
	for s := uint64(epoch) * slotsPerEpoch; s < (uint64(epoch)+1)*slotsPerEpoch; s++ {
		if v := proposerAt(w.p.Seed, w.ver[uint64(epoch)], s); v != 0 && want[v] {
			out = append(out, &eth2apiv1.ProposerDuty{PubKey: pubKey(v), Slot: phase0.Slot(s), ValidatorIndex: phase0.ValidatorIndex(v)})
			set[dkey{v, s}] = w.isComm(v)
		}
	}
	w.log = append(w.log, logEntry{fetch: true, unit: uint64(epoch), ok: true, duties: set})
	return out, nil
}

func (w *world) SyncCommitteeDuties(_ context.Context, epoch phase0.Epoch, idx []phase0.ValidatorIndex) ([]*eth2apiv1.SyncCommitteeDuty, error) {
	sp := w.nextSpec()
	period := uint64(epoch) / epochsPerPeriod
	if sp.Fail {
		w.log = append(w.log, logEntry{fetch: true, unit: period})
		return nil, errNode
	}
	var out []*eth2apiv1.SyncCommitteeDuty
	set := map[dkey]bool{}
	for _, i := range idx {
		if syncMember(w.p.Seed, 0, period, uint64(i)) {
			out = append(out, &eth2apiv1.SyncCommitteeDuty{PubKey: pubKey(uint64(i)), ValidatorIndex: i,
				ValidatorSyncCommitteeIndices: []phase0.CommitteeIndex{phase0.CommitteeIndex(i)}})
			set[dkey{uint64(i), 0}] = w.isComm(uint64(i))
		}
	}
	w.log = append(w.log, logEntry{fetch: true, unit: period, ok: true, duties: set})
	return out, nil
}

func (w *world) Events(context.Context, []string, eth2client.EventHandlerFunc) error { return nil }
func (w *world) SubmitBeaconCommitteeSubscriptions(context.Context, []*eth2apiv1.BeaconCommitteeSubscription) error {
	w.subs.Add(1) // called from a goroutine of the handler: touches nothing else
	return nil
}
func (w *world) SubmitSyncCommitteeSubscriptions(context.Context, []*eth2apiv1.SyncCommitteeSubscription) error {
	w.subs.Add(1)
	return nil
}

// -- the executeDuties callback (Scheduler.ExecuteDuties replaced: no goroutines, no 1/3-slot wait)
func (w *world) execute(_ *zap.Logger, ds []*spectypes.Duty) {
	cp := make([]*spectypes.Duty, len(ds))
	copy(cp, ds)
	w.log = append(w.log, logEntry{exec: cp})
}

// -- virtual beacon network: real beacon.Network embedded, every slot/epoch/period function the
// handlers use overridden for 8-slot epochs, 4-epoch sync periods and a clock that follows the program.
type fakeNet struct {
	beacon.Network
	w *world
}

var farFuture = time.Unix(4102444800, 0) // deadlines of fetch contexts never expire; the fake node ignores ctx

func (n fakeNet) SlotDurationSec() time.Duration    { return 12 * time.Second }
func (n fakeNet) SlotsPerEpoch() uint64             { return slotsPerEpoch }
func (n fakeNet) EstimatedCurrentSlot() phase0.Slot { return phase0.Slot(n.w.clock.Load()) }
func (n fakeNet) EstimatedCurrentEpoch() phase0.Epoch {
	return phase0.Epoch(n.w.clock.Load() / slotsPerEpoch)
}
func (n fakeNet) EstimatedEpochAtSlot(s phase0.Slot) phase0.Epoch {
	return phase0.Epoch(uint64(s) / slotsPerEpoch)
}
func (n fakeNet) FirstSlotAtEpoch(e phase0.Epoch) phase0.Slot {
	return phase0.Slot(uint64(e) * slotsPerEpoch)
}
func (n fakeNet) GetEpochFirstSlot(e phase0.Epoch) phase0.Slot {
	return phase0.Slot(uint64(e) * slotsPerEpoch)
}
func (n fakeNet) IsFirstSlotOfEpoch(s phase0.Slot) bool  { return uint64(s)%slotsPerEpoch == 0 }
func (n fakeNet) GetSlotStartTime(phase0.Slot) time.Time { return farFuture }
func (n fakeNet) GetSlotEndTime(phase0.Slot) time.Time   { return farFuture }
func (n fakeNet) EpochStartTime(phase0.Epoch) time.Time  { return farFuture }
func (n fakeNet) EpochsPerSyncCommitteePeriod() uint64   { return epochsPerPeriod }
func (n fakeNet) EstimatedSyncCommitteePeriodAtEpoch(e phase0.Epoch) uint64 {
	return uint64(e) / epochsPerPeriod
}
func (n fakeNet) FirstEpochOfSyncPeriod(p uint64) phase0.Epoch {
	return phase0.Epoch(p * epochsPerPeriod)
}
func (n fakeNet) LastSlotOfSyncPeriod(p uint64) phase0.Slot {
	return phase0.Slot((p+1)*epochsPerPeriod*slotsPerEpoch - 2)
}

// -- fake slot ticker
type fakeTicker struct {
	c    chan time.Time
	slot atomic.Uint64
}

func (t *fakeTicker) Next() <-chan time.Time { return t.c }
func (t *fakeTicker) Slot() phase0.Slot      { return phase0.Slot(t.slot.Load()) }

type handler interface {
	Setup(string, *zap.Logger, duties.BeaconNode, duties.ExecutionClient, networkconfig.NetworkConfig, duties.ValidatorController, duties.ExecuteDutiesFunc, slotticker.Provider, chan duties.ReorgEvent, chan struct{})
	HandleDuties(context.Context)
	HandleInitialDuties(context.Context)
	Name() string
}

// newHandler builds the handler over a fresh duty store (the one store cli/operator also hands to
// message validation) and returns both.
func newHandler(role string) (handler, *dutystore.Store) {
	st := dutystore.New()
	switch role {
	case "attester":
		return duties.NewAttesterHandler(st.Attester), st
	case "proposer":
		return duties.NewProposerHandler(st.Proposer), st
	case "sync":
		return duties.NewSyncCommitteeHandler(st.SyncCommittee), st
	}
	panic("bad role " + role)
}
