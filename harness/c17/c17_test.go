package c17

import (
	"context"
	"fmt"
	"sort"
	"sync"
	"testing"
	"time"

	"github.com/attestantio/go-eth2-client/spec/phase0"
	specqbft "github.com/bloxapp/ssv-spec/qbft"
	spectypes "github.com/bloxapp/ssv-spec/types"
	"pgregory.net/rapid"

	"github.com/bloxapp/ssv/protocol/v2/qbft/instance"
	"github.com/bloxapp/ssv/protocol/v2/qbft/roundtimer"

	"verif/harness/internal/prog"
	"verif/harness/internal/qbftsim"
)

func TestMain(m *testing.M) { prog.Main(m) }

// ---- 1. the round timer against the wall clock, with scaled-down allowances -----------------------------

// M is the margin below which nothing is judged: scheduling jitter can only delay callbacks.
const M = 100 * time.Millisecond

type Arm struct {
	Round uint64 `json:"round"`
	GapMs int    `json:"gap_ms"` // sleep before this arming (first: after the program's start)
	// NextHeight: this arming is the first of the NEXT height (next slot) on the same timer object - the runner's timer
	// is shared by the consecutive instances of a validator and role; rounds start again from a low number
	NextHeight bool `json:"next_height,omitempty"`
}

type TimerProg struct {
	Role      int   `json:"role"`
	SlotMs    int   `json:"slot_ms"`  // slot duration (base = 1/3 or 2/3 of it)
	StartInMs int   `json:"start_in"` // slot start = program start + this
	QuickMs   int   `json:"quick_ms"`
	SlowMs    int   `json:"slow_ms"`
	Threshold int   `json:"threshold"`
	Arms      []Arm `json:"arms"`
	CancelMs  int   `json:"cancel_ms"` // >0: cancel the parent context this long after the last arming
}

type Batch struct {
	Progs []TimerProg `json:"progs"`
}

type fakeNet struct {
	slotStart time.Time
	slot      time.Duration
}

func (f *fakeNet) GetSlotStartTime(s phase0.Slot) time.Time {
	return f.slotStart.Add(time.Duration(int64(s)-firstHeight) * f.slot)
}
func (f *fakeNet) SlotDurationSec() time.Duration { return f.slot }

type cb struct {
	round specqbft.Round
	at    time.Time
}

const firstHeight = 7

type armRec struct {
	height   uint64
	round    specqbft.Round
	at       time.Time
	deadline time.Time
}

type timerOutcome struct {
	lastJudged  bool // the last arming was neither superseded nor cancelled: its timeout is owed
	lastFired   bool
	crossHeight int
	fail        *prog.Failure
	discard     bool
	callbacks   int
	rearmed     bool
}

// deadline recomputes the documented rule: slot start + role base + cumulative per-round allowance
// (quick up to the threshold, slow beyond); proposer-type roles: a flat quick/slow allowance from the arming.
func deadline(p TimerProg, slotStart, armedAt time.Time, round uint64) time.Time {
	q, s, th := time.Duration(p.QuickMs)*time.Millisecond, time.Duration(p.SlowMs)*time.Millisecond, uint64(p.Threshold)
	slot := time.Duration(p.SlotMs) * time.Millisecond
	var base time.Duration
	switch spectypes.BeaconRole(p.Role) {
	case spectypes.BNRoleAttester, spectypes.BNRoleSyncCommittee:
		base = slot / 3
	case spectypes.BNRoleAggregator, spectypes.BNRoleSyncCommitteeContribution:
		base = slot / 3 * 2
	default:
		if round <= th {
			return armedAt.Add(q)
		}
		return armedAt.Add(s)
	}
	var add time.Duration
	if round <= th {
		add = time.Duration(round) * q
	} else {
		add = time.Duration(th)*q + time.Duration(round-th)*s
	}
	return slotStart.Add(base + add)
}

func runTimer(p TimerProg) timerOutcome {
	var out timerOutcome
	start := time.Now()
	net := &fakeNet{slotStart: start.Add(time.Duration(p.StartInMs) * time.Millisecond), slot: time.Duration(p.SlotMs) * time.Millisecond}
	ctx, cancel := context.WithCancel(context.Background())
	defer cancel()
	var mu sync.Mutex
	var cbs []cb
	rt := roundtimer.New(ctx, net, spectypes.BeaconRole(p.Role), func(r specqbft.Round) {
		now := time.Now()
		mu.Lock()
		cbs = append(cbs, cb{r, now})
		mu.Unlock()
	})
	rt.SetTimeoutOptionsVerif(specqbft.Round(p.Threshold), time.Duration(p.QuickMs)*time.Millisecond, time.Duration(p.SlowMs)*time.Millisecond)
	var arms []armRec
	maxOvershoot := time.Duration(0)
	sleep := func(d time.Duration) {
		t0 := time.Now()
		time.Sleep(d)
		if o := time.Since(t0) - d; o > maxOvershoot {
			maxOvershoot = o
		}
	}
	height := uint64(firstHeight)
	for _, a := range p.Arms {
		sleep(time.Duration(a.GapMs) * time.Millisecond)
		if a.NextHeight {
			height++
		}
		at := time.Now()
		rt.TimeoutForRound(specqbft.Height(height), specqbft.Round(a.Round))
		arms = append(arms, armRec{height, specqbft.Round(a.Round), at, deadline(p, net.GetSlotStartTime(phase0.Slot(height)), at, a.Round)})
	}
	last := arms[len(arms)-1]
	var cancelAt time.Time
	if p.CancelMs > 0 {
		sleep(time.Duration(p.CancelMs) * time.Millisecond)
		cancelAt = time.Now()
		cancel()
	}
	// wait until every deadline (incl. superseded ones) is clearly over
	end := last.deadline
	for _, a := range arms {
		if a.deadline.After(end) {
			end = a.deadline
		}
	}
	if w := time.Until(end.Add(2 * M)); w > 0 {
		sleep(w)
	}
	firedLast := func() bool {
		mu.Lock()
		defer mu.Unlock()
		for _, c := range cbs {
			if c.round == last.round && !c.at.Before(last.deadline.Add(-time.Millisecond)) {
				return true
			}
		}
		return false
	}
	out.lastJudged = p.CancelMs == 0
	if out.lastJudged && !firedLast() {
		// give a late timer goroutine on a busy machine every chance before calling the timeout missing
		for i := 0; i < 150 && !firedLast(); i++ {
			time.Sleep(20 * time.Millisecond)
		}
	}
	out.lastFired = firedLast()
	mu.Lock()
	got := append([]cb(nil), cbs...)
	mu.Unlock()
	if maxOvershoot > M/2 {
		out.discard = true // the harness itself was descheduled: not judged
		return out
	}
	out.callbacks = len(got)
	// every callback must belong to the arming that was the most recent one when it fired (or, within the margin M after a
	// re-arming, to the one just superseded), must not come before that arming's deadline, and each arming gets at most one
	perArm := map[int]int{}
	for _, c := range got {
		cur := -1
		for i := range arms {
			if !arms[i].at.After(c.at) {
				cur = i
			}
		}
		if cur < 0 {
			out.fail = prog.Failf("C17:callback-for-unarmed-round", "callback for round %d before anything was armed (armed: %v)", c.round, p.Arms)
			return out
		}
		owner := -1
		for j := cur; j >= 0; j-- {
			if arms[j].round == c.round {
				owner = j
				break
			}
			if c.at.After(arms[j].at.Add(M)) {
				break // arming j had been in force for longer than the margin: nothing older may fire any more
			}
		}
		if owner < 0 {
			known := false
			for _, a := range arms {
				known = known || a.round == c.round
			}
			if !known {
				out.fail = prog.Failf("C17:callback-for-unarmed-round", "callback for round %d which was never armed (armed: %v)", c.round, p.Arms)
			} else {
				out.fail = prog.Failf("C17:stale-callback", "callback for round %d fired %v after the timer had been re-armed for height %d round %d", c.round, c.at.Sub(arms[cur].at), arms[cur].height, arms[cur].round)
			}
			return out
		}
		// The statement speaks of ONE instance. RoundTimer never stops the timers of earlier armings; its only guard is
		// "the armed round number still equals mine", so a listener left over from the PREVIOUS height fires if the new
		// height happens to have the same round number armed at that moment (not reachable with the production
		// allowances, where a height's deadlines lie before the next duty's same-numbered rounds). Such a callback is
		// counted, not judged; a left-over listener firing for a round the new instance has NOT armed is judged (stale).
		crossHeight := false
		for _, a := range arms[:owner] {
			if a.height < arms[owner].height && a.round == c.round && !c.at.Before(a.deadline.Add(-time.Millisecond)) {
				crossHeight = true
			}
		}
		if crossHeight {
			out.crossHeight++
			continue
		}
		if c.at.Before(arms[owner].deadline.Add(-time.Millisecond)) {
			out.fail = prog.Failf("C17:callback-early", "callback for round %d fired %v before its deadline (role %d, height %d, armed %v after start, deadline %v after start)",
				c.round, arms[owner].deadline.Sub(c.at), p.Role, arms[owner].height, arms[owner].at.Sub(start), arms[owner].deadline.Sub(start))
			return out
		}
		perArm[owner]++
		if !cancelAt.IsZero() && c.at.After(cancelAt.Add(M)) {
			out.fail = prog.Failf("C17:callback-after-cancel", "callback for round %d fired %v after the parent context was cancelled", c.round, c.at.Sub(cancelAt))
			return out
		}
	}
	for i, n := range perArm {
		if n > 1 {
			out.fail = prog.Failf("C17:callback-twice", "height %d round %d armed once, callback invoked %d times", arms[i].height, arms[i].round, n)
			return out
		}
	}
	for i := 1; i < len(arms); i++ {
		if arms[i].at.Before(arms[i-1].deadline) {
			out.rearmed = true
		}
	}
	return out
}

func runBatch(b Batch) *prog.Result {
	res := &prog.Result{}
	outs := make([]timerOutcome, len(b.Progs))
	var wg sync.WaitGroup
	for i := range b.Progs {
		wg.Add(1)
		go func(i int) {
			defer wg.Done()
			outs[i] = runTimer(b.Progs[i])
		}(i)
	}
	wg.Wait()
	disc, cbs, rearm := 0, 0, 0
	for i, o := range outs {
		if o.fail != nil {
			res.Fail = &prog.Failure{Sig: o.fail.Sig, Msg: fmt.Sprintf("timer program #%d %+v: %s", i, b.Progs[i], o.fail.Msg)}
			return res
		}
		if o.discard {
			disc++
			continue
		}
		cbs += o.callbacks
		if o.rearmed {
			rearm++
		}
		prog.Count("TestPropTimer", "obs_previous_height_listener_fired_for_same_round_number", o.crossHeight)
	}
	prog.Count("TestPropTimer", "timer_programs", len(outs))
	prog.Count("TestPropTimer", "timer_programs_discarded_descheduled", disc)
	prog.Count("TestPropTimer", "callbacks_observed", cbs)
	prog.Count("TestPropTimer", "programs_with_rearm_before_expiry", rearm)
	res.NonTrivial = rearm > 0 && cbs > 0
	if disc == len(outs) {
		res.Discard = true
	}
	return res
}

func genTimerProg(t *rapid.T) TimerProg {
	p := TimerProg{
		Role:      rapid.SampledFrom([]int{0, 0, 1, 2, 3, 4}).Draw(t, "role"),
		SlotMs:    rapid.SampledFrom([]int{30, 60, 120}).Draw(t, "slot"),
		StartInMs: rapid.SampledFrom([]int{0, 5, 20, -50, -200}).Draw(t, "startin"),
		QuickMs:   rapid.IntRange(40, 120).Draw(t, "quick"),
		SlowMs:    rapid.IntRange(150, 300).Draw(t, "slow"),
		Threshold: rapid.IntRange(1, 4).Draw(t, "threshold"),
	}
	n := rapid.IntRange(1, 5).Draw(t, "narms")
	round := uint64(0)
	for i := 0; i < n; i++ {
		round += uint64(rapid.IntRange(1, 2).Draw(t, "rstep"))
		// gaps are either short (re-arm clearly before the previous deadline in most configurations) or long
		// (clearly after); what they were is derived from measured times, not assumed
		gap := rapid.SampledFrom([]int{0, 1, 5, 10, 250, 450}).Draw(t, "gap")
		next := i > 0 && rapid.IntRange(0, 3).Draw(t, "nextheight") == 0
		if next {
			round = uint64(rapid.SampledFrom([]int{1, 1, 1, 2}).Draw(t, "nh_round"))
		}
		p.Arms = append(p.Arms, Arm{Round: round, GapMs: gap, NextHeight: next})
	}
	if rapid.IntRange(0, 3).Draw(t, "cancel_on") == 0 {
		p.CancelMs = rapid.SampledFrom([]int{1, 10, 300}).Draw(t, "cancel")
	}
	return p
}

func genBatch(t *rapid.T) Batch {
	return Batch{Progs: rapid.SliceOfN(rapid.Custom(genTimerProg), 8, 40).Draw(t, "progs")}
}

func TestPropTimer(t *testing.T) { prog.Check(t, "C17", "TestPropTimer", genBatch, runBatch) }

// TestPropTimerFires belongs to C07 ("before the cut-off a round timeout always moves an operator to the next round"
// presupposes that an armed round does time out): the same timer programs on the real RoundTimer, judged for the one
// thing C17 does not ask - the last arming of a program, neither superseded nor cancelled, gets its callback (waited
// for up to 3 s past the deadline). Registered in harness/c07/check.json with "pkg": "c17".
func runBatchFires(b Batch) *prog.Result {
	res := &prog.Result{}
	outs := make([]timerOutcome, len(b.Progs))
	var wg sync.WaitGroup
	for i := range b.Progs {
		wg.Add(1)
		go func(i int) {
			defer wg.Done()
			outs[i] = runTimer(b.Progs[i])
		}(i)
	}
	wg.Wait()
	judged, multi := 0, 0
	for i, o := range outs {
		if o.discard || !o.lastJudged {
			continue
		}
		judged++
		nh := false
		for _, a := range b.Progs[i].Arms {
			nh = nh || a.NextHeight
		}
		if nh {
			multi++
		}
		if !o.lastFired {
			res.Fail = &prog.Failure{Sig: "C07:armed-round-never-times-out", Msg: fmt.Sprintf("timer program #%d %+v: the last arming was neither superseded nor cancelled, yet no callback for its round arrived within 3 s after its deadline", i, b.Progs[i])}
			return res
		}
	}
	prog.Count("TestPropTimerFires", "timer_programs_judged", judged)
	prog.Count("TestPropTimerFires", "of_which_over_two_heights", multi)
	res.NonTrivial = multi > 0
	if judged == 0 {
		res.Discard = true
	}
	return res
}

func TestPropTimerFires(t *testing.T) {
	prog.Check(t, "C07", "TestPropTimerFires", genBatch, runBatchFires)
}

// ---- 2. stale / foreign timeout events at the controller change nothing -----------------------------------

func runCtrl(p qbftsim.Prog) *prog.Result {
	res := &prog.Result{}
	s := qbftsim.New(p)
	s.WantRoots = true
	stale, acted, prevUndecided := 0, 0, 0
	check := func(ev *qbftsim.Event) bool {
		if ev.Kind != "timeout" {
			return true
		}
		if ev.TargetUndecided && ev.TimeoutR >= 1 {
			prevUndecided++
		}
		effective := !ev.NoInst && ev.TimeoutH == s.Height && ev.Before.HasInst && !ev.Before.Decided && ev.TimeoutR >= ev.Before.Round && int(ev.Before.Round) < instance.CutoffRound
		if effective {
			// the only timeout that may change anything: current round of a running undecided instance
			if ev.TimeoutR == ev.Before.Round && int(ev.Before.Round) < instance.CutoffRound-1 {
				acted++
				if ev.After.Round != ev.Before.Round+1 || len(ev.Emitted) != 1 || ev.Emitted[0].Msg.Message.MsgType != specqbft.RoundChangeMsgType ||
					ev.Emitted[0].Msg.Message.Round != ev.Before.Round+1 || ev.After.Proposal || ev.After.Arms != ev.Before.Arms+1 {
					res.Fail = prog.Failf("C17:current-timeout-misbehaves", "op%d: timeout for its current round %d: round %d->%d, emitted %d, proposal kept=%v, arms %d->%d\nlog:\n%s",
						ev.Op, ev.Before.Round, ev.Before.Round, ev.After.Round, len(ev.Emitted), ev.After.Proposal, ev.Before.Arms, ev.After.Arms, s.Dump())
					return false
				}
			}
			return true
		}
		stale++
		why := "decided instance"
		switch {
		case ev.NoInst || ev.TimeoutH != s.Height:
			why = "another height"
		case ev.TimeoutR < ev.Before.Round:
			why = "earlier round"
		}
		if ev.After.StateRoot != ev.Before.StateRoot || ev.After.Round != ev.Before.Round || ev.After.Decided != ev.Before.Decided || len(ev.Emitted) != 0 ||
			ev.After.Arms != ev.Before.Arms || ev.After.Height != ev.Before.Height || ev.TargetChanged {
			res.Fail = prog.Failf("C17:stale-timeout-changed-state", "op%d: timeout event (h%d r%d) for %s changed something: round %d->%d decided %v->%v emitted %d arms %d->%d state-root-changed=%v addressed-instance-changed=%v\nlog:\n%s",
				ev.Op, ev.TimeoutH, ev.TimeoutR, why, ev.Before.Round, ev.After.Round, ev.Before.Decided, ev.After.Decided, len(ev.Emitted), ev.Before.Arms, ev.After.Arms, ev.After.StateRoot != ev.Before.StateRoot, ev.TargetChanged, s.Dump())
			return false
		}
		return true
	}
	for _, op := range p.Ops {
		s.Step(op, check)
		if res.Fail != nil {
			return res
		}
	}
	// after the program: every correct operator gets a duplicate of its last timeout, one for a lower round and one for other heights
	for _, id := range s.Correct {
		if !s.Ops[id].Started {
			continue
		}
		for _, k := range []string{"stale-round", "other-height", "lower-height", "prev-height", "prev-height-next"} {
			if ev := s.Timeout(id, k); ev != nil && !check(ev) {
				return res
			}
		}
		if inst := s.Inst(id); inst != nil && inst.State.Decided {
			if ev := s.Timeout(id, ""); ev != nil && !check(ev) {
				return res
			}
		}
	}
	res.NonTrivial = stale > 0 && acted > 0
	res.Classes = []string{fmt.Sprintf("stale>0=%v", stale > 0), fmt.Sprintf("acted>0=%v", acted > 0), fmt.Sprintf("timeout-for-stored-undecided-instance-of-another-height>0=%v", prevUndecided > 0)}
	sort.Strings(res.Classes)
	prog.Count("TestPropControllerTimeouts", "stale_events", stale)
	prog.Count("TestPropControllerTimeouts", "effective_timeouts", acted)
	return res
}

func genCtrl(t *rapid.T) qbftsim.Prog {
	v := false
	return qbftsim.Gen(t, qbftsim.GenOpts{Ns: []int{4, 4, 7}, MaxOps: 40, VerifyOnly: &v, MultiHeight: true})
}

func TestPropControllerTimeouts(t *testing.T) {
	prog.Check(t, "C17", "TestPropControllerTimeouts", genCtrl, runCtrl)
}

func TestReplayFires(t *testing.T) { prog.Replay(t, "C07", "TestPropTimerFires", runBatchFires) }

func TestReplay(t *testing.T) {
	prog.Replay(t, "C17", "TestPropTimer", runBatch)
	prog.Replay(t, "C17", "TestPropControllerTimeouts", runCtrl)
}
