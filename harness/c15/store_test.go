package c15

// TestPropSharedStore: the durable side of C15 ("the highest decided instance survives a restart", "stored decided
// instances are only ever replaced by ...") rests on ibft/storage keeping the records of different validators apart:
// NewStoresFromRoles creates ONE ibftStorage per beacon role and every validator of that role uses it from its own
// queue goroutine. K validators (distinct message identifiers of one role) run their own drawn sequences of saves,
// reads and cleans on one store instance at the same time; every read is compared with a per-identifier model (the
// keys are independent, so the model is exact whatever the schedule), and after the goroutines finished everything is
// read again, also through a fresh ibftstorage.New on the same database (what a restart does).

import (
	"bytes"
	"fmt"
	"sort"
	"sync"
	"testing"

	specqbft "github.com/bloxapp/ssv-spec/qbft"
	spectypes "github.com/bloxapp/ssv-spec/types"
	"pgregory.net/rapid"

	ibftstorage "github.com/bloxapp/ssv/ibft/storage"
	qbftstorage "github.com/bloxapp/ssv/protocol/v2/qbft/storage"

	"verif/harness/internal/fx"
	"verif/harness/internal/prog"
)

const storeTest = "TestPropSharedStore"

// SOp is one store call of one validator. Heights only grow: H is an increment (0 = same height again).
type SOp struct {
	K string `json:"k"` // savehi saveboth save gethi get range clean
	H int    `json:"h,omitempty"`
}

type SharedProg struct {
	Role   string  `json:"role"`   // storage prefix = the role's name, as NewStoresFromRoles does
	Conc   bool    `json:"conc"`   // the K sequences run in K goroutines at the same time (false: one after the other)
	Rounds int     `json:"rounds"` // every sequence is repeated this many times (heights keep growing)
	Seqs   [][]SOp `json:"seqs"`   // one per validator
}

type rec struct {
	marker string
	height uint64
}

type valModel struct {
	id      []byte
	highest *rec
	hist    map[uint64]string
	maxH    uint64
	fail    string // first mismatch seen by this validator's goroutine
	sig     string
	saves   int
	reads   int
}

func mkInstance(id []byte, h uint64, marker string) *qbftstorage.StoredInstance {
	return &qbftstorage.StoredInstance{
		State: &specqbft.State{
			ID: id, Round: 1, Height: specqbft.Height(h), Decided: true, DecidedValue: []byte(marker),
			ProposeContainer: specqbft.NewMsgContainer(), PrepareContainer: specqbft.NewMsgContainer(),
			CommitContainer: specqbft.NewMsgContainer(), RoundChangeContainer: specqbft.NewMsgContainer(),
		},
		DecidedMessage: &specqbft.SignedMessage{
			Signature: bytes.Repeat([]byte{1}, 96), Signers: []spectypes.OperatorID{1, 2, 3},
			Message:  specqbft.Message{MsgType: specqbft.CommitMsgType, Height: specqbft.Height(h), Round: 1, Identifier: id},
			FullData: []byte(marker),
		},
	}
}

// judgeRead compares what a read returned with the model's record (want == "" means nothing stored).
func judgeRead(m *valModel, what string, got *qbftstorage.StoredInstance, err error, want string, wantH uint64) {
	m.reads++
	if m.fail != "" {
		return
	}
	set := func(sig, f string, a ...any) { m.sig, m.fail = sig, fmt.Sprintf(f, a...) }
	switch {
	case err != nil:
		set("C15:shared-store-read-error", "%s returned error %v", what, err)
	case got == nil && want != "":
		set("C15:shared-store-lost-write", "%s returned nothing, the validator's last save there was %q (height %d)", what, want, wantH)
	case got == nil:
	case got.State == nil || got.DecidedMessage == nil:
		set("C15:shared-store-wrong-read", "%s returned an instance without state or decided message", what)
	case !bytes.Equal(got.State.ID, m.id) || !bytes.Equal(got.DecidedMessage.Message.Identifier, m.id):
		set("C15:shared-store-foreign-instance", "%s for validator %q returned an instance of validator %q (%q)", what, pkName(m.id), pkName(got.State.ID), got.State.DecidedValue)
	case want == "":
		set("C15:shared-store-wrong-read", "%s returned %q (height %d) although this validator has nothing stored there", what, got.State.DecidedValue, got.State.Height)
	case string(got.State.DecidedValue) != want || uint64(got.State.Height) != wantH || string(got.DecidedMessage.FullData) != want:
		set("C15:shared-store-lost-write", "%s returned %q (height %d), the validator's last save there was %q (height %d)", what, got.State.DecidedValue, got.State.Height, want, wantH)
	}
}

// pkName renders the readable head of the validator key inside a message identifier (domain | pubkey | role).
func pkName(id []byte) string {
	if len(id) < 24 {
		return fmt.Sprintf("%x", id)
	}
	pk := id[4:24]
	if i := bytes.IndexByte(pk, '|'); i >= 0 {
		pk = pk[:i]
	}
	return string(pk)
}

func (m *valModel) step(store qbftstorage.QBFTStore, v int, op SOp, seq *int, h *uint64) {
	*h += uint64(op.H)
	*seq++
	marker := fmt.Sprintf("v%d-h%d-#%d", v, *h, *seq)
	note := func(err error, what string) {
		if err != nil && m.fail == "" {
			m.sig, m.fail = "C15:shared-store-write-error", fmt.Sprintf("%s returned error %v", what, err)
		}
	}
	switch op.K {
	case "savehi":
		note(store.SaveHighestInstance(mkInstance(m.id, *h, marker)), "SaveHighestInstance")
		m.highest = &rec{marker, *h}
		m.saves++
	case "saveboth":
		note(store.SaveHighestAndHistoricalInstance(mkInstance(m.id, *h, marker)), "SaveHighestAndHistoricalInstance")
		m.highest = &rec{marker, *h}
		m.hist[*h] = marker
		m.saves++
	case "save":
		note(store.SaveInstance(mkInstance(m.id, *h, marker)), "SaveInstance")
		m.hist[*h] = marker
		m.saves++
	case "gethi":
		got, err := store.GetHighestInstance(m.id)
		want, wh := "", uint64(0)
		if m.highest != nil {
			want, wh = m.highest.marker, m.highest.height
		}
		judgeRead(m, "GetHighestInstance", got, err, want, wh)
	case "get":
		got, err := store.GetInstance(m.id, specqbft.Height(*h))
		judgeRead(m, fmt.Sprintf("GetInstance(height %d)", *h), got, err, m.hist[*h], *h)
	case "range":
		m.checkRange(store, "GetInstancesInRange")
	case "clean":
		note(store.CleanAllInstances(logger, m.id), "CleanAllInstances")
		m.highest = nil
		m.hist = map[uint64]string{}
	default:
		panic("bad store op " + op.K)
	}
	if *h > m.maxH {
		m.maxH = *h
	}
}

func (m *valModel) checkRange(store qbftstorage.QBFTStore, what string) {
	from := uint64(0)
	if m.maxH > 40 {
		from = m.maxH - 40
	}
	got, err := store.GetInstancesInRange(m.id, specqbft.Height(from), specqbft.Height(m.maxH))
	if err != nil {
		judgeRead(m, what, nil, err, "", 0)
		return
	}
	byH := map[uint64]*qbftstorage.StoredInstance{}
	for _, g := range got {
		if g != nil && g.State != nil {
			byH[uint64(g.State.Height)] = g
		} else {
			judgeRead(m, what, g, nil, "?", 0)
		}
	}
	for h := from; h <= m.maxH; h++ {
		judgeRead(m, fmt.Sprintf("%s [height %d]", what, h), byH[h], nil, m.hist[h], h)
		delete(byH, h)
	}
	for h, g := range byH { // an instance filed under a height it does not have
		judgeRead(m, fmt.Sprintf("%s [height %d]", what, h), g, nil, "", h)
	}
}

func (m *valModel) finalCheck(store qbftstorage.QBFTStore, via string) {
	got, err := store.GetHighestInstance(m.id)
	want, wh := "", uint64(0)
	if m.highest != nil {
		want, wh = m.highest.marker, m.highest.height
	}
	judgeRead(m, "final GetHighestInstance "+via, got, err, want, wh)
	m.checkRange(store, "final GetInstancesInRange "+via)
}

func runShared(p SharedProg) *prog.Result {
	res := &prog.Result{}
	db := getMemDB()
	role := roleOf(p.Role)
	store := ibftstorage.New(db, role.String())
	dbMu.Lock()
	caseSeq++
	tag := caseSeq
	dbMu.Unlock()
	k := len(p.Seqs)
	models := make([]*valModel, k)
	for v := range models {
		pk := bytes.Repeat([]byte{byte(0x40 + v)}, 48)
		copy(pk, fmt.Sprintf("c15-shared-%d-%d|", tag, v)) // distinct validators, distinct per case (one database per process)
		id := spectypes.NewMsgID(fx.Domain, pk, role)
		models[v] = &valModel{id: id[:], hist: map[uint64]string{}}
	}
	defer func() {
		for _, m := range models {
			_ = store.CleanAllInstances(logger, m.id)
		}
	}()
	rounds := p.Rounds
	if rounds < 1 {
		rounds = 1
	}
	work := func(v int) {
		m, seq, h := models[v], 0, uint64(1)
		for r := 0; r < rounds; r++ {
			for _, op := range p.Seqs[v] {
				m.step(store, v, op, &seq, &h)
			}
			h++
		}
	}
	if p.Conc {
		var wg sync.WaitGroup
		start := make(chan struct{})
		for v := 0; v < k; v++ {
			wg.Add(1)
			go func(v int) {
				defer wg.Done()
				<-start
				work(v)
			}(v)
		}
		close(start)
		wg.Wait()
	} else {
		for v := 0; v < k; v++ {
			work(v)
		}
	}
	fresh := ibftstorage.New(db, role.String())
	saves, reads := 0, 0
	for _, m := range models {
		m.finalCheck(store, "through the same store object")
		m.finalCheck(fresh, "through a fresh store object on the same database")
		saves += m.saves
		reads += m.reads
	}
	prog.Count(storeTest, "store_saves", saves)
	prog.Count(storeTest, "store_reads_judged", reads)
	for v, m := range models {
		if m.fail != "" {
			res.Fail = prog.Failf(m.sig, "validator %d of %d (role %s, concurrent=%v, %d rounds): %s", v, k, role, p.Conc, rounds, m.fail)
			return res
		}
	}
	writers := 0
	for _, m := range models {
		if m.saves > 0 {
			writers++
		}
	}
	res.NonTrivial = p.Conc && writers >= 2
	res.Classes = []string{fmt.Sprintf("mode=%s", map[bool]string{true: "concurrent", false: "sequential"}[p.Conc]),
		fmt.Sprintf("validators=%d", k), "store-role=" + role.String()}
	sort.Strings(res.Classes)
	return res
}

func genSOp(t *rapid.T) SOp {
	return SOp{
		K: rapid.SampledFrom([]string{"savehi", "savehi", "saveboth", "saveboth", "saveboth", "save", "save", "gethi", "gethi", "gethi", "get", "get", "range", "clean"}).Draw(t, "k"),
		H: rapid.SampledFrom([]int{0, 0, 1, 1, 1, 2}).Draw(t, "h"),
	}
}

func genShared(t *rapid.T) SharedProg {
	k := rapid.IntRange(2, 4).Draw(t, "validators")
	p := SharedProg{
		Role:   rapid.SampledFrom([]string{"attester", "aggregator", "proposer", "sync-contribution"}).Draw(t, "role"),
		Conc:   rapid.SampledFrom([]bool{true, true, true, false}).Draw(t, "conc"),
		Rounds: rapid.SampledFrom([]int{1, 5, 20, 20, 40}).Draw(t, "rounds"),
	}
	for v := 0; v < k; v++ {
		p.Seqs = append(p.Seqs, rapid.SliceOfN(rapid.Custom(genSOp), 1, 16).Draw(t, "seq"))
	}
	return p
}

func TestPropSharedStore(t *testing.T) { prog.Check(t, propID, storeTest, genShared, runShared) }
