// Package c15 checks property C15: "A duty height once started or decided is never run again, even after restart".
//
// A program drives one real attester runner + its qbft controller + the real ibft/storage on Badger through duty
// starts, decided certificates (past / current / future heights, growing and shrinking signer sets, same or another
// round), messages of the other operators up to a local decision, and restarts (brand-new objects +
// LoadHighestInstance on the same store, database re-opened in on-disk cases). A small reference model written from
// the statement judges the observable results only: nil/error of StartNewDuty and StartNewInstance, what
// QBFTStore.GetHighestInstance returns after every step and after a restart, Controller.Height after the restart.
//
// Open point of DESIGN.md (certificate for another round of the same height): judged by the statement's last
// sentence ("at the same height, by one with more signers"), under its own signature
// C15:stored-cert-replaced-without-more-signers:other-round; when that signature is listed in KNOWN_FINDINGS.txt the
// run steps over it and goes on searching behind it.
package c15

import (
	"bytes"
	"fmt"
	"os"
	"path/filepath"
	"sort"
	"strings"
	"sync"
	"testing"

	"github.com/attestantio/go-eth2-client/spec"
	"github.com/attestantio/go-eth2-client/spec/phase0"
	specqbft "github.com/bloxapp/ssv-spec/qbft"
	specssv "github.com/bloxapp/ssv-spec/ssv"
	spectypes "github.com/bloxapp/ssv-spec/types"
	"github.com/bloxapp/ssv-spec/types/testingutils"
	ssz "github.com/ferranbt/fastssz"
	"go.uber.org/zap"
	"pgregory.net/rapid"

	ibftstorage "github.com/bloxapp/ssv/ibft/storage"
	"github.com/bloxapp/ssv/protocol/v2/qbft/controller"
	qbftstorage "github.com/bloxapp/ssv/protocol/v2/qbft/storage"
	"github.com/bloxapp/ssv/protocol/v2/ssv/runner"
	"github.com/bloxapp/ssv/storage/basedb"
	"github.com/bloxapp/ssv/storage/kv"

	"verif/harness/internal/fx"
	"verif/harness/internal/prog"
)

const (
	propID   = "C15"
	testName = "TestPropNeverRerun"

	// sigOtherRound is the one oracle clause the harness can step over when it is listed as a known finding.
	sigOtherRound = "C15:stored-cert-replaced-without-more-signers:other-round"

	// sigHistoryOnly: on a full node consensus started at a height the node learnt decided in this process, where the
	// decided instance was found in the history storage and therefore never entered the in-memory instance container
	// (see heldOnlyInHistory). Own signature, stepped over when listed as known.
	sigHistoryOnly = "C15:consensus-started-at-height-held-only-in-history"
)

var logger = zap.NewNop()

// ---- process-wide databases ---------------------------------------------------------------------
//
// One in-memory Badger per process (opening one costs ~200 ms); every case uses its own storage prefix
// and removes its records when done. Disk cases share one directory, closed and re-opened by the
// "restart with reopen" op; again a fresh prefix per case.

var (
	dbMu     sync.Mutex
	memDB    *kv.BadgerDB
	diskDB   *kv.BadgerDB
	diskDir  string
	caseSeq  int
	tmpOwned string
)

func getMemDB() *kv.BadgerDB {
	dbMu.Lock()
	defer dbMu.Unlock()
	if memDB == nil {
		db, err := kv.NewInMemory(logger, basedb.Options{})
		if err != nil {
			panic(err)
		}
		memDB = db
	}
	return memDB
}

func diskPath() string {
	if diskDir != "" {
		return diskDir
	}
	base := os.Getenv("VERIF_FAILDIR") // inside the driver's work dir: removed by the driver even if we are killed
	if base == "" {
		d, err := os.MkdirTemp("/var/tmp", "c15-disk-")
		if err != nil {
			panic(err)
		}
		base, tmpOwned = d, d
	}
	diskDir = filepath.Join(base, fmt.Sprintf("c15-badger-%d", os.Getpid()))
	return diskDir
}

func getDiskDB() *kv.BadgerDB {
	dbMu.Lock()
	defer dbMu.Unlock()
	if diskDB == nil {
		db, err := kv.New(logger, basedb.Options{Path: diskPath()})
		if err != nil {
			panic(err)
		}
		diskDB = db
	}
	return diskDB
}

func reopenDiskDB() *kv.BadgerDB {
	dbMu.Lock()
	if diskDB != nil {
		if err := diskDB.Close(); err != nil {
			panic(err)
		}
		diskDB = nil
	}
	dbMu.Unlock()
	return getDiskDB()
}

func nextPrefix() string {
	dbMu.Lock()
	defer dbMu.Unlock()
	caseSeq++
	return fmt.Sprintf("c15/%d/", caseSeq)
}

func TestMain(m *testing.M) {
	code := m.Run()
	prog.Flush()
	if diskDB != nil {
		_ = diskDB.Close()
	}
	if memDB != nil {
		_ = memDB.Close()
	}
	if diskDir != "" {
		_ = os.RemoveAll(diskDir)
	}
	if tmpOwned != "" {
		_ = os.RemoveAll(tmpOwned)
	}
	os.Exit(code)
}

// ---- program ------------------------------------------------------------------------------------

// Op is one step. Slots/heights are written relative to the highest slot the program has mentioned so far
// (D), so that every op generator is context free and still aims at, just below or just above the
// interesting heights; the interpreter resolves them (see resolve) and prints the absolute program.
type Op struct {
	K      string `json:"k"`                // duty ctrlstart cert recert local precons finish restart
	D      int    `json:"d,omitempty"`      // duty ctrlstart cert: slot = cursor+D, at least 1 (0 only when Base is 0)
	Round  uint64 `json:"round,omitempty"`  // cert: round of the certificate
	Extra  int    `json:"extra,omitempty"`  // cert local precons: signers beyond quorum (clamped to the committee)
	Perm   []int  `json:"perm,omitempty"`   // cert local precons: order in which operators are picked as signers
	Upto   string `json:"upto,omitempty"`   // local: proposal | prepare | commit
	Reopen bool   `json:"reopen,omitempty"` // restart: close and re-open the database (disk cases only)
	Probe  bool   `json:"probe,omitempty"`  // restart: then StartNewDuty at (restored height + D); cert: then StartNewDuty at (its height + D2)
	D2     int    `json:"d2,omitempty"`     // cert / recert with probe
	Pick   int    `json:"pick,omitempty"`   // recert: which of the certificates delivered so far
}

type Prog struct {
	Role string `json:"role,omitempty"` // attester (default) | aggregator | proposer | sync-contribution
	N    int    `json:"n"`
	Self int    `json:"self"`
	Full bool   `json:"full_node"`
	Disk bool   `json:"disk"`
	Base uint64 `json:"base"` // first slot of the program; 0 = genesis class
	Ops  []Op   `json:"ops"`
}

// ---- fixtures -----------------------------------------------------------------------------------

func roleOf(name string) spectypes.BeaconRole {
	switch name {
	case "", "attester":
		return spectypes.BNRoleAttester
	case "aggregator":
		return spectypes.BNRoleAggregator
	case "proposer":
		return spectypes.BNRoleProposer
	case "sync-contribution":
		return spectypes.BNRoleSyncCommitteeContribution
	}
	panic("bad role " + name)
}

func dutyFor(role spectypes.BeaconRole, share *spectypes.Share, slot uint64) *spectypes.Duty {
	d := &spectypes.Duty{
		Type:                    role,
		Slot:                    phase0.Slot(slot),
		ValidatorIndex:          testingutils.TestingValidatorIndex,
		CommitteeIndex:          3,
		CommitteesAtSlot:        36,
		CommitteeLength:         128,
		ValidatorCommitteeIndex: 11,
	}
	if role == spectypes.BNRoleSyncCommitteeContribution {
		d.ValidatorSyncCommitteeIndices = testingutils.TestingContributionProofIndexes
	}
	copy(d.PubKey[:], share.ValidatorPubKey)
	return d
}

var (
	valMu   sync.Mutex
	valMemo = map[string][]byte{}
	crtMemo = map[string][]byte{}
)

// valueFor is the one value every operator proposes and decides for a slot: the duty plus what ssv-spec's
// TestingBeaconNode returns for that role (for the attester the node's own input is byte-identical).
func valueFor(role spectypes.BeaconRole, share *spectypes.Share, slot uint64) []byte {
	key := fmt.Sprintf("%d/%x/%d", role, share.ValidatorPubKey, slot)
	valMu.Lock()
	defer valMu.Unlock()
	if v, ok := valMemo[key]; ok {
		return v
	}
	cd := &spectypes.ConsensusData{Duty: *dutyFor(role, share, slot)}
	switch role {
	case spectypes.BNRoleAttester:
		att, ver, err := testingutils.NewTestingBeaconNode().GetAttestationData(phase0.Slot(slot), 3)
		if err != nil {
			panic(err)
		}
		ssz, err := att.MarshalSSZ()
		if err != nil {
			panic(err)
		}
		cd.Version, cd.DataSSZ = ver, ssz
	case spectypes.BNRoleAggregator:
		cd.Version, cd.DataSSZ = spec.DataVersionPhase0, testingutils.TestingAggregateAndProofBytes
	case spectypes.BNRoleProposer:
		cd.Version, cd.DataSSZ = spec.DataVersionCapella, testingutils.TestingBeaconBlockBytesV(spec.DataVersionCapella)
	case spectypes.BNRoleSyncCommitteeContribution:
		cd.Version, cd.DataSSZ = spec.DataVersionBellatrix, testingutils.TestingContributionsDataBytes
	}
	v, err := cd.Encode()
	if err != nil {
		panic(err)
	}
	valMemo[key] = v
	return v
}

// beaconNode is ssv-spec's TestingBeaconNode, except that GetBeaconBlock does not derive the block version from the
// slot (the testing node panics for slots before its Capella fork epoch).
type beaconNode struct {
	*testingutils.TestingBeaconNode
}

func (bn beaconNode) GetBeaconBlock(slot phase0.Slot, graffiti, randao []byte) (ssz.Marshaler, spec.DataVersion, error) {
	return testingutils.TestingBeaconBlockV(spec.DataVersionCapella).Capella, spec.DataVersionCapella, nil
}

func clone(m *specqbft.SignedMessage) *specqbft.SignedMessage {
	b, err := m.Encode()
	if err != nil {
		panic(err)
	}
	c := &specqbft.SignedMessage{}
	if err := c.Decode(b); err != nil {
		panic(err)
	}
	return c
}

// ---- environment --------------------------------------------------------------------------------

type node struct {
	ctrl *controller.Controller
	run  runner.Runner
	net  *fx.Net
}

type stored struct {
	present bool
	height  uint64
	round   uint64
	signers []spectypes.OperatorID
	msg     []byte // encoded decided message
	all     []byte // encoded stored instance
}

func (s stored) String() string {
	if !s.present {
		return "none"
	}
	return fmt.Sprintf("(height %d, %d signers %v, round %d)", s.height, len(s.signers), s.signers, s.round)
}

type env struct {
	p      Prog
	role   spectypes.BeaconRole
	ks     *testingutils.TestKeySet
	q      int
	share  *spectypes.Share
	id     []byte
	prefix string
	db     *kv.BadgerDB
	store  qbftstorage.QBFTStore
	nd     *node
	log    []string
}

func (e *env) logf(f string, a ...any) { e.log = append(e.log, fmt.Sprintf(f, a...)) }

func (e *env) dump() string { return "  " + strings.Join(e.log, "\n  ") }

// newNode builds controller + duty runner the way operator/validator SetupRunners does for the role (signature
// verification on, round-robin proposer, the role's spec value check, highest decided slot 0).
func (e *env) newNode() *node {
	km := testingutils.NewTestingKeyManager()
	pk, idx := e.share.ValidatorPubKey, phase0.ValidatorIndex(testingutils.TestingValidatorIndex)
	net := &fx.Net{}
	bn := beaconNode{testingutils.NewTestingBeaconNode()}
	var valCheck specqbft.ProposedValueCheckF
	switch e.role {
	case spectypes.BNRoleAttester:
		valCheck = specssv.AttesterValueCheckF(km, spectypes.BeaconTestNetwork, pk, idx, e.share.SharePubKey)
	case spectypes.BNRoleAggregator:
		valCheck = specssv.AggregatorValueCheckF(km, spectypes.BeaconTestNetwork, pk, idx)
	case spectypes.BNRoleProposer:
		valCheck = specssv.ProposerValueCheckF(km, spectypes.BeaconTestNetwork, pk, idx, e.share.SharePubKey)
	case spectypes.BNRoleSyncCommitteeContribution:
		valCheck = specssv.SyncCommitteeContributionValueCheckF(km, spectypes.BeaconTestNetwork, pk, idx)
	}
	cfg := fx.NodeConfig(net, &fx.Timer{}, e.store, true)
	cfg.ValueCheckF = valCheck
	ctrl := controller.NewController(e.id, e.share, cfg, e.p.Full)
	var r runner.Runner
	switch e.role {
	case spectypes.BNRoleAttester:
		r = runner.NewAttesterRunnner(spectypes.BeaconTestNetwork, e.share, ctrl, bn, net, km, valCheck, 0)
	case spectypes.BNRoleAggregator:
		r = runner.NewAggregatorRunner(spectypes.BeaconTestNetwork, e.share, ctrl, bn, net, km, valCheck, 0)
	case spectypes.BNRoleProposer:
		r = runner.NewProposerRunner(spectypes.BeaconTestNetwork, e.share, ctrl, bn, net, km, valCheck, 0)
	case spectypes.BNRoleSyncCommitteeContribution:
		r = runner.NewSyncCommitteeAggregatorRunner(spectypes.BeaconTestNetwork, e.share, ctrl, bn, net, km, valCheck, 0)
	}
	return &node{ctrl: ctrl, run: r, net: net}
}

// ownPreConsensus returns the pre-consensus message the node broadcast last (its own partial signatures): the other
// operators sign the same roots.
func (e *env) ownPreConsensus() *spectypes.SignedPartialSignatureMessage {
	var out *spectypes.SignedPartialSignatureMessage
	for _, m := range e.nd.net.Drain() {
		if m.MsgType != spectypes.SSVPartialSignatureMsgType {
			continue
		}
		sm := &spectypes.SignedPartialSignatureMessage{}
		if err := sm.Decode(m.Data); err == nil && sm.Message.Type != spectypes.PostConsensusPartialSig {
			out = sm
		}
	}
	return out
}

// preConsensusFrom builds operator id's pre-consensus message for the same roots as own: genuine threshold shares
// (the runner reconstructs the validator signature from a quorum of them and verifies it).
func (e *env) preConsensusFrom(own *spectypes.SignedPartialSignatureMessage, id uint64) *spectypes.SignedPartialSignatureMessage {
	sk := e.ks.Shares[spectypes.OperatorID(id)]
	msgs := spectypes.PartialSignatureMessages{Type: own.Message.Type, Slot: own.Message.Slot}
	for _, m := range own.Message.Messages {
		msgs.Messages = append(msgs.Messages, &spectypes.PartialSignatureMessage{
			PartialSignature: sk.SignByte(append([]byte(nil), m.SigningRoot[:]...)).Serialize(), // cgo: a plain byte buffer
			SigningRoot:      m.SigningRoot,
			Signer:           spectypes.OperatorID(id),
		})
	}
	root, err := spectypes.ComputeSigningRoot(msgs, spectypes.ComputeSignatureDomain(fx.Domain, spectypes.PartialSignatureType))
	if err != nil {
		panic(err)
	}
	return &spectypes.SignedPartialSignatureMessage{Message: msgs, Signature: sk.SignByte(root[:]).Serialize(), Signer: spectypes.OperatorID(id)}
}

// startNode is Validator.Start's part for one runner: LoadHighestInstance on the brand-new controller, then
// SetHighestDecidedSlot from the loaded instance's decided value.
func (e *env) startNode() (loadErr error) {
	e.nd = e.newNode()
	hi, err := e.nd.ctrl.LoadHighestInstance(e.id)
	if err != nil {
		return err
	}
	if hi != nil {
		cd := &spectypes.ConsensusData{}
		if err := cd.Decode(hi.State.DecidedValue); err == nil {
			e.nd.run.GetBaseRunner().SetHighestDecidedSlot(cd.Duty.Slot)
		}
	}
	return nil
}

func (e *env) observe() stored {
	si, err := e.store.GetHighestInstance(e.id)
	if err != nil {
		panic(fmt.Sprintf("GetHighestInstance: %v", err))
	}
	if si == nil {
		return stored{}
	}
	all, err := si.Encode()
	if err != nil {
		panic(err)
	}
	s := stored{present: true, all: all}
	if si.DecidedMessage == nil || si.State == nil {
		panic("stored highest instance without state or decided message")
	}
	s.height = uint64(si.DecidedMessage.Message.Height)
	s.round = uint64(si.DecidedMessage.Message.Round)
	s.signers = si.DecidedMessage.Signers
	s.msg, _ = si.DecidedMessage.Encode()
	return s
}

func (e *env) signersOf(op Op) []uint64 {
	cnt := e.q + op.Extra
	if cnt > e.p.N {
		cnt = e.p.N
	}
	var out []uint64
	for _, x := range op.Perm {
		if x >= 1 && x <= e.p.N && len(out) < cnt {
			dup := false
			for _, y := range out {
				dup = dup || y == uint64(x)
			}
			if !dup {
				out = append(out, uint64(x))
			}
		}
	}
	for x := 1; len(out) < cnt; x++ { // hand-written programs with a short perm
		dup := false
		for _, y := range out {
			dup = dup || y == uint64(x)
		}
		if !dup {
			out = append(out, uint64(x))
		}
	}
	sort.Slice(out, func(i, j int) bool { return out[i] < out[j] })
	return out
}

func (e *env) cert(height, round uint64, signers []uint64) *specqbft.SignedMessage {
	key := fmt.Sprintf("%d/%d/%d/%d/%v", e.role, e.p.N, height, round, signers)
	valMu.Lock()
	enc, ok := crtMemo[key]
	valMu.Unlock()
	if ok {
		m := &specqbft.SignedMessage{}
		if err := m.Decode(enc); err != nil {
			panic(err)
		}
		return m
	}
	value := valueFor(e.role, e.share, height)
	root, err := specqbft.HashDataRoot(value)
	if err != nil {
		panic(err)
	}
	msg := &specqbft.Message{MsgType: specqbft.CommitMsgType, Height: specqbft.Height(height), Round: specqbft.Round(round), Identifier: e.id, Root: root}
	var parts []*specqbft.SignedMessage
	for _, s := range signers {
		parts = append(parts, fx.Sign(e.ks, spectypes.OperatorID(s), msg))
	}
	agg := fx.Aggregate(parts)
	agg.FullData = value
	enc, err = agg.Encode()
	if err != nil {
		panic(err)
	}
	valMu.Lock()
	crtMemo[key] = enc
	valMu.Unlock()
	return clone(agg)
}

func (e *env) single(t specqbft.MessageType, height uint64, signer uint64, withData bool) *specqbft.SignedMessage {
	value := valueFor(e.role, e.share, height)
	root, _ := specqbft.HashDataRoot(value)
	msg := &specqbft.Message{MsgType: t, Height: specqbft.Height(height), Round: specqbft.FirstRound, Identifier: e.id, Root: root}
	sm := fx.Sign(e.ks, spectypes.OperatorID(signer), msg)
	if withData {
		sm.FullData = value
	}
	return clone(sm)
}

// ---- interpreter + oracle -----------------------------------------------------------------------

func fail(res *prog.Result, e *env, sig, f string, a ...any) *prog.Result {
	res.Fail = prog.Failf(sig, f+"\nprogram (resolved):\n%s", append(a, e.dump())...)
	return res
}

func run(p Prog) *prog.Result {
	res := &prog.Result{}
	ks := fx.KeySet(p.N)
	role := roleOf(p.Role)
	mid := fx.Identifier(ks, role)
	e := &env{p: p, role: role, ks: ks, q: int(ks.Threshold), share: fx.Share(ks, spectypes.OperatorID(p.Self)), id: mid[:], prefix: nextPrefix()}
	if p.Disk {
		e.db = getDiskDB()
	} else {
		e.db = getMemDB()
	}
	e.store = ibftstorage.New(e.db, e.prefix)
	defer func() { _ = e.store.CleanAllInstances(logger, e.id) }()
	if err := e.startNode(); err != nil {
		panic(err)
	}

	classes := map[string]bool{}
	cls := func(c string) { classes[c] = true }
	cls(map[bool]string{true: "node=full", false: "node=light"}[p.Full])
	cls(map[bool]string{true: "db=disk", false: "db=memory"}[p.Disk])
	cls(fmt.Sprintf("committee=%d", p.N))
	cls("role=" + role.String())
	// a role with a pre-consensus phase: StartNewDuty only signs and broadcasts the pre-consensus partial signature,
	// consensus starts when a quorum of them arrived. For these roles the refusal of an old duty is decided by
	// ShouldProcessDuty alone, and an accepted duty does not raise the floor (nothing was started yet).
	preRole := role != spectypes.BNRoleAttester
	var ownPre *spectypes.SignedPartialSignatureMessage // the node's pre-consensus message of the accepted duty
	firstDutySeen := false                              // a duty was attempted since the node object was created
	if p.Base == 0 {
		cls("genesis-base")
	}

	epoch := 0 // number of restarts so far
	// reference model
	hasFloor, floor := false, uint64(0) // highest slot started or height learnt decided; after restart: persisted height
	// everSeen/everMax: highest slot started or height learnt decided in the whole program, restarts included. Only a
	// decision at or above it is demanded to become the durable highest instance (see assumptions: a decision learnt
	// for a height below one that was already started is saved as highest "only if height >= current height").
	everSeen, everMax := false, uint64(0)
	everDecided, everDecidedMax := false, uint64(0)
	raise := func(h uint64) {
		if !hasFloor || h > floor {
			hasFloor, floor = true, h
		}
		if !everSeen || h > everMax {
			everSeen, everMax = true, h
		}
	}
	restarted := false                    // a restart happened and restored a decided height
	restoredHeight := uint64(0)           // the height restored by the last such restart
	firstDecidedEpoch := map[uint64]int{} // height -> number of restarts before it was first learnt decided
	// heldOnlyInHistory: attribution of a start at the floor to the full node's history storage: the height was learnt
	// decided before a restart (so a full node may hold it in history although its highest record is lower), it is not the
	// height the last restart restored, and it is the current floor (re-learnt in this process).
	heldOnlyInHistory := func(h uint64) bool {
		ep, ok := firstDecidedEpoch[h]
		return p.Full && ok && ep < epoch && hasFloor && h == floor && !(restarted && h == restoredHeight)
	}
	decidedAt := func(h uint64) {
		if _, ok := firstDecidedEpoch[h]; !ok {
			firstDecidedEpoch[h] = epoch
		}
		if !everDecided || h > everDecidedMax {
			everDecided, everDecidedMax = true, h
		}
	}
	topmost := func(h uint64) bool { return !everSeen || h >= everMax }
	atOrBelow := func(h uint64) bool { return hasFloor && h <= floor }
	decidedRounds := map[uint64]map[uint64]bool{} // height -> rounds a certificate was delivered / decided for
	prev := e.observe()
	cursor := p.Base
	reopens := 0
	type certRec struct {
		h, round uint64
		signers  []uint64
		epoch    int
	}
	var delivered []certRec // every certificate delivered so far

	resolve := func(d int) uint64 {
		s := int64(cursor) + int64(d)
		if s < 0 {
			s = 0
		}
		if s == 0 && p.Base > 0 { // slot 0 only in the genesis class
			s = 1
		}
		if uint64(s) > cursor {
			cursor = uint64(s)
		}
		return uint64(s)
	}

	// judgeStore applies the store clauses after a step. mustHold = height of a decision learnt in this step that is
	// at or above everything ever started or decided (it must now be the durable highest instance), or -1.
	judgeStore := func(step int, what string, mustHold int64) *prog.Result {
		cur := e.observe()
		defer func() { prev = cur }()
		if prev.present && !cur.present {
			return fail(res, e, "C15:stored-highest-vanished", "step %d (%s): the highest-instance record %v disappeared", step, what, prev)
		}
		if prev.present && cur.height < prev.height {
			return fail(res, e, "C15:stored-height-decreased", "step %d (%s): stored highest instance went from %v to %v", step, what, prev, cur)
		}
		if prev.present && cur.height == prev.height && !bytes.Equal(cur.msg, prev.msg) && len(cur.signers) <= len(prev.signers) {
			// attribution: certificates for more than one round were seen at this height (the open point of the
			// design: the "more signers" test looks at one round only) or not
			sig := "C15:stored-cert-replaced-without-more-signers:same-round"
			if len(decidedRounds[cur.height]) > 1 {
				sig = sigOtherRound
			}
			if sig == sigOtherRound && prog.IsKnown(sig) {
				prog.KnownHit(testName, sig)
				cls("known:other-round-replacement")
			} else {
				return fail(res, e, sig, "step %d (%s): at the same height the stored decided message %v was replaced by %v, which does not have more signers", step, what, prev, cur)
			}
		}
		if mustHold >= 0 && (!cur.present || cur.height != uint64(mustHold)) {
			return fail(res, e, "C15:highest-decision-not-persisted", "step %d (%s): a decision for height %d, at or above every height ever started or decided, was learnt but the stored highest instance is %v", step, what, mustHold, cur)
		}
		return nil
	}

	doDuty := func(step int, slot uint64, how string) *prog.Result {
		nilState := e.nd.run.GetBaseRunner().State == nil
		err := e.nd.run.StartNewDuty(logger, dutyFor(e.role, e.share, slot))
		e.logf("%d: StartNewDuty(slot %d)%s -> %v   [floor %s]", step, slot, how, err, floorStr(hasFloor, floor))
		if slot == 0 {
			cls("slot-0-duty")
		}
		if restarted && slot <= restoredHeight {
			res.NonTrivial = true
			cls("rerun-attempt-after-restart")
		}
		stale := atOrBelow(slot)
		if stale {
			if nilState {
				cls("stale-duty-with-nil-runner-state")
			}
			if !firstDutySeen && !restarted {
				cls("stale-duty-as-first-duty-of-new-node")
			}
			if !firstDutySeen && restarted {
				cls("stale-duty-as-first-duty-after-restart")
			}
		}
		firstDutySeen = true
		if err == nil {
			if stale && slot == 0 {
				// ShouldProcessDuty's documented genesis exemption (Height != 0): a duty for slot 0 is let through even when
				// height 0 is known (for the roles with a pre-consensus phase nothing else stands in the way of StartNewDuty;
				// the start of consensus for it is still judged, see precons). Slot 0 lies years in the past for every real
				// network; counted, not judged.
				cls("obs:slot-0-duty-accepted-under-genesis-exemption")
				if preRole {
					ownPre = e.ownPreConsensus()
				} else {
					raise(slot)
				}
				return judgeStore(step, "duty", -1)
			}
			if stale {
				sig := "C15:duty-started-at-or-below-floor"
				if restarted && slot <= restoredHeight {
					sig = "C15:duty-rerun-after-restart"
				}
				return fail(res, e, sig, "step %d: StartNewDuty for slot %d succeeded although slot %d was already started or learnt decided (restored by restart: %v)", step, slot, floor, restarted)
			}
			cls("duty-accepted")
			if everDecided && slot <= everDecidedMax {
				// accepted by the reference model (the floor after a restart is what was persisted), counted only
				cls("obs:duty-accepted-at-height-learnt-decided-before-a-restart")
			}
			if preRole {
				ownPre = e.ownPreConsensus()
			} else {
				raise(slot)
			}
		} else if stale {
			cls("duty-refused-at-or-below")
		} else {
			cls("duty-refused-above-floor")
		}
		return judgeStore(step, "duty", -1)
	}

	// doCert delivers one decided certificate through the runner and judges it; stop = the case ends (failure or discard).
	doCert := func(step int, h, round uint64, signers []uint64, how string, probe bool, d2 int) (*prog.Result, bool) {
		switch {
		case !hasFloor || h > floor:
			cls("future-decided")
		case h == floor:
			cls("current-decided")
		default:
			cls("past-decided")
		}
		if prev.present && h == prev.height {
			switch {
			case len(signers) > len(prev.signers):
				cls("growing-signers")
			case len(signers) < len(prev.signers):
				cls("shrinking-signers")
			default:
				cls("equal-signers")
			}
		}
		if rs := decidedRounds[h]; rs != nil && !rs[round] {
			cls("other-round")
		}
		if round != 1 {
			cls("cert-round>1")
		}
		if !firstDutySeen {
			cls("cert-before-first-duty")
		}
		if e.nd.run.GetBaseRunner().State != nil && !e.nd.run.GetBaseRunner().State.Finished {
			cls("cert-while-duty-running")
		} else {
			cls("cert-without-running-duty")
		}
		err := e.nd.run.ProcessConsensus(logger, e.cert(h, round, signers))
		e.logf("%d: ProcessConsensus(decided height %d round %d signers %v)%s -> %v   [floor %s]", step, h, round, signers, how, err, floorStr(hasFloor, floor))
		if err != nil && (strings.Contains(err.Error(), "invalid decided msg") || strings.Contains(err.Error(), "invalid msg")) {
			// the node says a certificate that is valid by construction is invalid: not this property's business
			res.Discard = true
			return res, true
		}
		must := int64(-1)
		if topmost(h) {
			must = int64(h)
		}
		raise(h)
		decidedAt(h)
		if decidedRounds[h] == nil {
			decidedRounds[h] = map[uint64]bool{}
		}
		decidedRounds[h][round] = true
		delivered = append(delivered, certRec{h: h, round: round, signers: signers, epoch: epoch})
		if r := judgeStore(step, "cert", must); r != nil {
			return r, true
		}
		if probe {
			// an old duty right after the certificate: at its height or just below
			ps := int64(h) + int64(d2)
			if ps < 0 || (ps == 0 && p.Base > 0) {
				ps = int64(h)
			}
			if uint64(ps) > cursor {
				cursor = uint64(ps)
			}
			if r := doDuty(step, uint64(ps), " right after the certificate"); r != nil {
				return r, true
			}
		}
		return nil, false
	}

	for step, op := range p.Ops {
		br := e.nd.run.GetBaseRunner()
		switch op.K {
		case "duty":
			if r := doDuty(step, resolve(op.D), ""); r != nil {
				return r
			}

		case "ctrlstart":
			h := resolve(op.D)
			err := e.nd.ctrl.StartNewInstance(logger, specqbft.Height(h), valueFor(e.role, e.share, h))
			e.logf("%d: Controller.StartNewInstance(height %d) -> %v   [floor %s]", step, h, err, floorStr(hasFloor, floor))
			cls("direct-instance-start")
			if restarted && h <= restoredHeight {
				res.NonTrivial = true
				cls("rerun-attempt-after-restart")
			}
			if err == nil {
				if atOrBelow(h) && heldOnlyInHistory(h) && prog.IsKnown(sigHistoryOnly) {
					prog.KnownHit(testName, sigHistoryOnly)
					cls("known:start-at-height-held-only-in-history")
				} else if atOrBelow(h) && heldOnlyInHistory(h) {
					return fail(res, e, sigHistoryOnly, "step %d: full node: StartNewInstance for height %d succeeded although a decided certificate for height %d was learnt in this process (the instance was found in the history storage and is not in the in-memory container)", step, h, h)
				} else if atOrBelow(h) {
					return fail(res, e, "C15:instance-started-at-or-below-floor", "step %d: StartNewInstance for height %d succeeded although height %d was already started or learnt decided (restored by restart: %v)", step, h, floor, restarted)
				}
				raise(h)
			}
			if r := judgeStore(step, "ctrlstart", -1); r != nil {
				return r
			}

		case "cert":
			round := op.Round
			if round == 0 {
				round = 1
			}
			if r, stop := doCert(step, resolve(op.D), round, e.signersOf(op), "", op.Probe, op.D2); stop {
				return r
			}

		case "recert":
			// a certificate that was delivered before is delivered again (peers re-broadcast decided messages, history
			// sync): same height and round, the same signers or more. Preferably one for a height above the current floor,
			// i.e. after a restart one between the restored height and the highest height ever started.
			if len(delivered) == 0 {
				e.logf("%d: recert (no certificate delivered yet: skipped)", step)
				cls("recert-skipped")
				continue
			}
			var above []int
			for i, d := range delivered {
				if !hasFloor || d.h > floor {
					above = append(above, i)
				}
			}
			idx := op.Pick % len(delivered)
			if len(above) > 0 && op.Pick%4 != 3 {
				idx = above[(op.Pick/4)%len(above)]
			}
			d := delivered[idx]
			signers := append([]uint64(nil), d.signers...)
			for _, x := range op.Perm {
				if len(signers) >= len(d.signers)+op.Extra || x < 1 || x > p.N {
					continue
				}
				dup := false
				for _, y := range signers {
					dup = dup || y == uint64(x)
				}
				if !dup {
					signers = append(signers, uint64(x))
				}
			}
			sort.Slice(signers, func(i, j int) bool { return signers[i] < signers[j] })
			cls("recert")
			if d.epoch < epoch {
				cls("recert-of-certificate-from-before-a-restart")
				if restarted && d.h > floor && everSeen && d.h <= everMax {
					// the shape of the third seeding round: history (full node) or nothing (light node) holds the height, the
					// durable highest instance is below it, a higher duty was started before the restart
					cls("recert-between-restored-height-and-highest-ever-started")
					cls("recert-between-restored-height-and-highest-ever-started:" + map[bool]string{true: "full", false: "light"}[p.Full])
					if op.Probe {
						cls("recert-between-restored-height-and-highest-ever-started:probed")
					}
				}
			}
			if len(signers) > len(d.signers) {
				cls("recert-with-more-signers")
			}
			if r, stop := doCert(step, d.h, d.round, signers, " again", op.Probe, op.D2); stop {
				return r
			}

		case "local":
			st := br.State
			if st == nil || st.Finished || st.RunningInstance == nil || st.RunningInstance.State.Decided ||
				!st.RunningInstance.CanProcessMessages() || st.RunningInstance.State.Round != specqbft.FirstRound {
				e.logf("%d: local (no running undecided instance: skipped)", step)
				cls("local-skipped")
				continue
			}
			inst := st.RunningInstance
			h := uint64(inst.State.Height)
			signers := e.signersOf(op)
			upto := op.Upto
			if upto == "" {
				upto = "commit"
			}
			var errs []string
			deliver := func(m *specqbft.SignedMessage) {
				if err := e.nd.run.ProcessConsensus(logger, m); err != nil {
					errs = append(errs, err.Error())
				}
			}
			if inst.State.ProposalAcceptedForCurrentRound == nil {
				leader := specqbft.RoundRobinProposer(inst.State, specqbft.FirstRound)
				deliver(e.single(specqbft.ProposalMsgType, h, uint64(leader), true))
			}
			if upto != "proposal" {
				for _, s := range signers {
					deliver(e.single(specqbft.PrepareMsgType, h, s, false))
				}
			}
			decidedNow := false
			if upto == "commit" {
				for _, s := range signers {
					deliver(e.single(specqbft.CommitMsgType, h, s, false))
				}
				decidedNow = inst.State.Decided
			}
			e.logf("%d: local messages for height %d up to %s from %v -> decided=%v errs=%v   [floor %s]", step, h, upto, signers, decidedNow, errs, floorStr(hasFloor, floor))
			must := int64(-1)
			if decidedNow {
				cls("local-decision")
				if preRole {
					cls("local-decision:role-with-pre-consensus")
				}
				if topmost(h) {
					must = int64(h)
				}
				raise(h)
				decidedAt(h)
				if decidedRounds[h] == nil {
					decidedRounds[h] = map[uint64]bool{}
				}
				decidedRounds[h][1] = true
			} else {
				cls("local-partial")
			}
			if r := judgeStore(step, "local", must); r != nil {
				return r
			}

		case "precons":
			st := br.State
			if !preRole || st == nil || st.Finished || st.RunningInstance != nil || ownPre == nil || ownPre.Message.Slot != st.StartingDuty.Slot {
				e.logf("%d: precons (no duty in its pre-consensus phase: skipped)", step)
				cls("precons-skipped")
				continue
			}
			slot := uint64(st.StartingDuty.Slot)
			signers := e.signersOf(op)
			var errs []string
			for _, sg := range signers {
				if err := e.nd.run.ProcessPreConsensus(logger, e.preConsensusFrom(ownPre, sg)); err != nil {
					errs = append(errs, err.Error())
				}
			}
			started := br.State != nil && br.State.RunningInstance != nil
			e.logf("%d: pre-consensus partial signatures for slot %d from %v -> consensus started=%v errs=%v   [floor %s]", step, slot, signers, started, errs, floorStr(hasFloor, floor))
			if started {
				h := uint64(br.State.RunningInstance.State.Height)
				cls("precons-consensus-started")
				cls("precons-consensus-started:" + role.String())
				if atOrBelow(h) && heldOnlyInHistory(h) && prog.IsKnown(sigHistoryOnly) {
					prog.KnownHit(testName, sigHistoryOnly)
					cls("known:start-at-height-held-only-in-history")
				} else if atOrBelow(h) && heldOnlyInHistory(h) {
					return fail(res, e, sigHistoryOnly, "step %d: full node: a pre-consensus quorum for the duty of slot %d started consensus at height %d although a decided certificate for height %d was learnt in this process (the instance was found in the history storage and is not in the in-memory container)", step, slot, h, h)
				} else if atOrBelow(h) {
					return fail(res, e, "C15:consensus-started-at-or-below-floor", "step %d: a pre-consensus quorum for the duty of slot %d started consensus at height %d although height %d was already started or learnt decided (restored by restart: %v)", step, slot, h, floor, restarted)
				}
				raise(h)
			} else if atOrBelow(slot) {
				cls("precons-consensus-refused-at-or-below")
			} else {
				cls("precons-no-consensus-above-floor")
			}
			if r := judgeStore(step, "precons", -1); r != nil {
				return r
			}

		case "finish":
			// what ProcessPostConsensus does on a post-consensus quorum: the duty is complete
			if br.State != nil && br.State.DecidedValue != nil && !br.State.Finished {
				br.State.Finished = true
				cls("duty-finished")
				e.logf("%d: duty marked finished", step)
			} else {
				e.logf("%d: finish (no decided running duty: skipped)", step)
			}

		case "restart":
			before := e.observe()
			reopened := false
			if p.Disk && op.Reopen && reopens < 2 { // one re-open costs > 1 s (Badger clears a 64 MB arena)
				reopens++
				e.db = reopenDiskDB()
				e.store = ibftstorage.New(e.db, e.prefix)
				reopened = true
				cls("reopen-disk")
			}
			loadErr := e.startNode()
			ownPre, firstDutySeen = nil, false
			epoch++
			after := e.observe()
			cls("restart")
			e.logf("%d: restart (reopen=%v) -> load err %v, stored %v, controller height %d   [floor %s]", step, reopened, loadErr, after, e.nd.ctrl.Height, floorStr(hasFloor, floor))
			if before.present != after.present || !bytes.Equal(before.all, after.all) {
				return fail(res, e, "C15:highest-instance-changed-by-restart", "step %d: GetHighestInstance before the restart %v, after %v (reopen=%v)", step, before, after, reopened)
			}
			prev = after
			if after.present {
				if loadErr != nil {
					return fail(res, e, "C15:restart-load-failed", "step %d: LoadHighestInstance failed on a store holding %v: %v", step, after, loadErr)
				}
				if uint64(e.nd.ctrl.Height) != after.height {
					return fail(res, e, "C15:restart-height-not-restored", "step %d: after restart the controller is at height %d, the stored highest decided instance is %v", step, e.nd.ctrl.Height, after)
				}
				cls("restart-after-decision")
				hasFloor, floor = true, after.height
				restarted, restoredHeight = true, after.height
			} else {
				hasFloor, floor = false, 0
				restarted = false
			}
			if op.Probe && after.present {
				// replay an old duty right after the restart: slot relative to the restored height
				ps := int64(after.height) + int64(op.D)
				if ps < 0 || (ps == 0 && p.Base > 0) {
					ps = int64(after.height)
				}
				if uint64(ps) > cursor {
					cursor = uint64(ps)
				}
				if r := doDuty(step, uint64(ps), " right after the restart"); r != nil {
					return r
				}
			}

		default:
			panic("bad op " + op.K)
		}
	}
	for c := range classes {
		res.Classes = append(res.Classes, c)
	}
	if res.NonTrivial {
		res.Sample = map[string]any{"program": p, "resolved": e.log}
	}
	sort.Strings(res.Classes)
	return res
}

func floorStr(has bool, f uint64) string {
	if !has {
		return "none"
	}
	return fmt.Sprint(f)
}

// ---- generator ----------------------------------------------------------------------------------

var allOps = []int{1, 2, 3, 4, 5, 6, 7}

func genOp(t *rapid.T) Op {
	k := rapid.SampledFrom([]string{"duty", "duty", "duty", "duty", "duty", "cert", "cert", "cert", "cert", "cert", "cert",
		"local", "local", "local", "precons", "precons", "precons", "recert", "recert", "recert", "restart", "restart", "restart", "restart", "ctrlstart", "finish"}).Draw(t, "k")
	op := Op{K: k}
	switch k {
	case "duty", "ctrlstart":
		op.D = rapid.SampledFrom([]int{-2, -1, 0, 0, 0, 1, 1, 1, 2, 3}).Draw(t, "d")
	case "cert":
		op.D = rapid.SampledFrom([]int{-2, -1, -1, 0, 0, 0, 0, 1, 1, 2}).Draw(t, "d")
		op.Round = uint64(rapid.SampledFrom([]int{1, 1, 1, 1, 1, 2, 2, 3}).Draw(t, "round"))
		op.Extra = rapid.SampledFrom([]int{0, 0, 0, 1, 1, 2, 3}).Draw(t, "extra")
		op.Perm = rapid.Permutation(allOps).Draw(t, "perm")
		op.Probe = rapid.SampledFrom([]bool{false, false, true}).Draw(t, "probe")
		op.D2 = rapid.SampledFrom([]int{-1, 0, 0}).Draw(t, "d2")
	case "recert":
		op.Pick = rapid.IntRange(0, 15).Draw(t, "pick")
		op.Extra = rapid.SampledFrom([]int{0, 0, 1, 2}).Draw(t, "extra")
		op.Perm = rapid.Permutation(allOps).Draw(t, "perm")
		op.Probe = rapid.SampledFrom([]bool{false, true, true}).Draw(t, "probe")
		op.D2 = rapid.SampledFrom([]int{-1, 0, 0, 0, 1}).Draw(t, "d2")
	case "precons":
		op.Extra = rapid.SampledFrom([]int{0, 0, 1}).Draw(t, "extra")
		op.Perm = rapid.Permutation(allOps).Draw(t, "perm")
	case "local":
		op.Upto = rapid.SampledFrom([]string{"commit", "commit", "commit", "commit", "prepare", "proposal"}).Draw(t, "upto")
		op.Extra = rapid.SampledFrom([]int{0, 0, 0, 1, 2}).Draw(t, "extra")
		op.Perm = rapid.Permutation(allOps).Draw(t, "perm")
	case "restart":
		op.Reopen = rapid.Bool().Draw(t, "reopen")
		op.Probe = rapid.Bool().Draw(t, "probe")
		op.D = rapid.SampledFrom([]int{-2, -1, 0, 0, 0, 1}).Draw(t, "d")
	}
	return op
}

// genGapPrefix draws the opening of the "gap" shape: height h0 decided; a duty two or three slots above it started (for
// the roles with a pre-consensus phase: and brought to consensus) and left undecided; a certificate for a height in
// between (history only on a full node, nothing durable on a light node); restart; that certificate again, then a duty
// at its height or next to it. Ordinary ops follow (and shrink like any others).
func genGapPrefix(t *rapid.T) []Op {
	perm := func() []int { return rapid.Permutation(allOps).Draw(t, "perm") }
	up := rapid.SampledFrom([]int{2, 2, 3}).Draw(t, "gap")
	back := -1
	if up == 3 {
		back = rapid.SampledFrom([]int{-1, -2}).Draw(t, "back")
	}
	ops := []Op{
		{K: "cert", D: 0, Round: 1, Extra: rapid.SampledFrom([]int{0, 0, 1}).Draw(t, "extra"), Perm: perm()},
		{K: "duty", D: up},
		{K: "precons", Perm: perm()},
		{K: "cert", D: back, Round: 1, Extra: rapid.SampledFrom([]int{0, 0, 1}).Draw(t, "extra"), Perm: perm()},
		{K: "restart", Reopen: rapid.Bool().Draw(t, "reopen")},
	}
	if rapid.Bool().Draw(t, "between") {
		ops = append(ops, genOp(t))
	}
	return append(ops, Op{K: "recert", Pick: rapid.SampledFrom([]int{0, 0, 0, 4, 3}).Draw(t, "pick"), Extra: rapid.SampledFrom([]int{0, 0, 1}).Draw(t, "extra"),
		Perm: perm(), Probe: true, D2: rapid.SampledFrom([]int{-1, 0, 0, 0, 1}).Draw(t, "d2")})
}

func gen(t *rapid.T) Prog {
	n := rapid.SampledFrom([]int{4, 4, 4, 7}).Draw(t, "n")
	var prefix []Op
	if rapid.IntRange(0, 3).Draw(t, "shape") == 2 {
		prefix = genGapPrefix(t)
	}
	minOps := 2
	if prefix != nil {
		minOps = 0
	}
	return Prog{
		Role: rapid.SampledFrom([]string{"attester", "attester", "aggregator", "proposer", "sync-contribution"}).Draw(t, "role"),
		N:    n,
		Self: rapid.IntRange(1, n).Draw(t, "self"),
		Full: rapid.Bool().Draw(t, "full"),
		Disk: rapid.IntRange(0, 24).Draw(t, "disk") == 13, // rapid favours small values: a middle value keeps disk cases rare (re-open costs > 1 s)
		Base: rapid.SampledFrom([]uint64{1, 2, 40, 6000000, 6000000, 6000000, 0}).Draw(t, "base"),
		Ops:  append(prefix, rapid.SliceOfN(rapid.Custom(genOp), minOps, 20-len(prefix)).Draw(t, "ops")...),
	}
}

func TestPropNeverRerun(t *testing.T) { prog.Check(t, propID, testName, gen, run) }
func TestReplay(t *testing.T) {
	prog.Replay(t, propID, testName, run)
	prog.Replay(t, propID, storeTest, runShared)
}
