// Package c12: "Block event processing is atomic and exactly-once across crashes".
//
// A program is a block sequence of registry events (generator of internal/regsim, biased to
// validators of our own operator, whose key shares live outside the block transaction). A dry run on a
// fresh database numbers every mutating database call and every key-manager call (AddShare,
// RemoveShare, BumpSlashingProtection) made while blocks are processed. Then, for EVERY such point and
// for each of the modes {return an error, die before the call, die after the call}, the sequence is
// run again on a fresh database with that single fault; the "process" is then restarted (all
// in-memory objects dropped, storage / key manager / handler rebuilt on the surviving database) and
// resumes like setupEventHandling: from last processed block + 1. The final registry, nonces,
// key-manager accounts and slashing-protection records must equal those of the uninterrupted run.
package c12

import (
	"errors"
	"fmt"
	"os"
	"sort"
	"strings"
	"testing"

	"pgregory.net/rapid"

	"github.com/bloxapp/ssv/eth/eventhandler"

	"verif/harness/internal/faultdb"
	"verif/harness/internal/prog"
	"verif/harness/internal/regsim"
)

func TestMain(m *testing.M) { prog.Main(m) }

const testName = "TestPropCrashAtomicity"

// Prog is the JSON program.
type Prog struct {
	Sc   regsim.Scenario `json:"scenario"`
	Cuts []bool          `json:"cuts"` // block ends after event i (cyclic)
	Gaps []int           `json:"gaps"` // distance between block numbers (cyclic)
	Disk bool            `json:"disk"` // on-disk Badger, closed and re-opened at the restart

	Markers []bool  `json:"markers,omitempty"` // empty progress-marker BlockLogs after block j (cyclic), as the execution client emits them
	Stale   []Stale `json:"stale,omitempty"`   // deliveries of blocks that are not newer than the last processed one
}

// Stale is the delivery of a BlockLogs whose number is not above the last processed block.
type Stale struct {
	After   int    `json:"after"`   // delivered after stream position After (mod stream length)
	Back    int    `json:"back"`    // 0: the marker's own number, 1: marker-1, n >= 2: the number of the (n-1)-th stream block before
	Kind    string `json:"kind"`    // empty (a re-delivered progress marker) | same (the events that block really had) | other (events of another block)
	Restart bool   `json:"restart"` // afterwards: restart and resume from last processed + 1
}

func genStale(t *rapid.T) Stale {
	return Stale{After: rapid.IntRange(0, 15).Draw(t, "after"), Back: rapid.IntRange(0, 4).Draw(t, "back"),
		Kind:    rapid.SampledFrom([]string{"empty", "empty", "same", "other"}).Draw(t, "kind"),
		Restart: rapid.Bool().Draw(t, "restart")}
}

// gen: on-disk histories cost two Badger opens (64 MB arena each) per fault run, so they are drawn in
// the thorough tier only and kept short.
func gen(t *rapid.T) Prog {
	thorough := os.Getenv("VERIF_TIER") == "thorough"
	disk := thorough && rapid.IntRange(0, 14).Draw(t, "disk") == 0
	max := 10
	if disk {
		max = 4
	} else if thorough {
		max = 14
	}
	p := Prog{Sc: regsim.GenScenario(t, regsim.Bias{MaxEvents: max, OwnHeavy: true}), Disk: disk}
	p.Cuts = rapid.SliceOfN(rapid.Bool(), 1, 8).Draw(t, "cuts")
	p.Gaps = rapid.SliceOfN(rapid.IntRange(1, 3), 1, 3).Draw(t, "gaps")
	p.Markers = rapid.SliceOfN(rapid.Bool(), 0, 5).Draw(t, "markers")
	p.Stale = rapid.SliceOfN(rapid.Custom(genStale), 0, 5).Draw(t, "stale")
	return p
}

func fail(res *prog.Result, sig, f string, a ...any) *prog.Result {
	res.Fail = prog.Failf("C12:"+sig, f, a...)
	return res
}

type final struct {
	reg regsim.Snapshot
	km  regsim.KMSnapshot
}

func readFinal(st *regsim.Store) (final, error) {
	var f final
	var err error
	if f.reg, err = regsim.FreshSnapshot(st); err != nil {
		return f, fmt.Errorf("registry: %w", err)
	}
	if f.km, err = regsim.KMSnapshotOf(st); err != nil {
		return f, fmt.Errorf("key manager: %w", err)
	}
	return f, nil
}

func diffStrings(a, b []string) string {
	return fmt.Sprintf("\n  uninterrupted: %v\n  after fault:   %v", a, b)
}

// compare returns (signature, message) of the first difference.
func compare(ref, got final) (string, string) {
	if cat, d := regsim.Diff(ref.reg, got.reg); cat != "" {
		return "registry:" + cat, d
	}
	if strings.Join(ref.km.Accounts, ",") != strings.Join(got.km.Accounts, ",") {
		// multiset difference: a stored key share too many (duplicate or left over) / too few
		cnt := map[string]int{}
		for _, a := range got.km.Accounts {
			cnt[a]++
		}
		for _, a := range ref.km.Accounts {
			cnt[a]--
		}
		sig := "km-extra-account"
		for _, n := range cnt {
			if n < 0 {
				sig = "km-missing-account"
			}
		}
		return sig, "stored key shares (key-manager accounts, by share public key) differ:" + diffStrings(ref.km.Accounts, got.km.Accounts)
	}
	if strings.Join(ref.km.SP, ",") != strings.Join(got.km.SP, ",") {
		// A record too few for a stored share means an add was half-applied (judged). A record too many is a
		// leftover for a share that is no longer stored: the statement speaks of registry state, nonces and stored
		// key shares, not of slashing-protection records, so leftovers are counted as an observation, not judged.
		have := map[string]bool{}
		for _, r := range got.km.SP {
			have[r] = true
		}
		for _, r := range ref.km.SP {
			if !have[r] {
				return "km-missing-slashing-protection", "slashing-protection records (highest attestation / proposal per share key) differ:" + diffStrings(ref.km.SP, got.km.SP)
			}
		}
		prog.Count("TestPropCrashAtomicity", "observation_leftover_slashing_protection_records", 1)
	}
	return "", ""
}

func opKind(op string) string { return strings.SplitN(op, " ", 2)[0] }

func describe(sc regsim.Scenario, blocks []regsim.Block) string {
	var sb strings.Builder
	for bi, b := range blocks {
		fmt.Fprintf(&sb, "  block %d (number %d):", bi, b.Number)
		for _, i := range b.Events {
			e := sc.Events[i]
			fmt.Fprintf(&sb, " #%d %s", i, e.K)
			if e.Note != "" {
				fmt.Fprintf(&sb, "(%s)", e.Note)
			}
		}
		sb.WriteString("\n")
	}
	return sb.String()
}

func run(p Prog) *prog.Result {
	res := &prog.Result{}
	sc := p.Sc
	// meta steps are not events; this harness does not use them
	var evs []regsim.Ev
	for _, e := range sc.Events {
		if e.K != "meta" {
			evs = append(evs, e)
		}
	}
	sc.Events = evs
	classes0 := false
	_, blocks := regsim.Cut(sc, p.Cuts, p.Gaps)
	if len(blocks) == 0 {
		return res
	}
	blocks = regsim.WithMarkers(blocks, p.Markers)
	for _, b := range blocks {
		if len(b.Events) == 0 {
			classes0 = true
		}
	}
	classes := map[string]bool{}
	if classes0 {
		classes["empty-progress-marker-block"] = true
	}
	if p.Disk {
		classes["disk"] = true
	}

	// ---- model: which blocks touch validators of ours ------------------------------------
	m := regsim.NewModel()
	ownBlock := make([]bool, len(blocks))
	for bi, b := range blocks {
		for _, i := range b.Events {
			out := m.Apply(sc.Us, sc.Events[i], b.Number)
			classes[out.Class] = true
			if out.Own {
				ownBlock[bi] = true
			}
		}
		m.HasLast, m.Last = true, b.Number
	}

	// ---- uninterrupted run (dry run: numbers the fault points) ---------------------------
	st, err := regsim.OpenStore(p.Disk)
	if err != nil {
		res.Discard = true
		return res
	}
	in := faultdb.NewInjector()
	in.KeepTrace(true)
	env, err := regsim.Boot(st, in)
	if err != nil {
		st.Destroy()
		return fail(res, "boot-error", "boot on an empty database failed: %v", err)
	}
	pointBlock := []int{}
	for bi, b := range blocks {
		_, err, _ := env.Deliver(regsim.Logs(sc, b))
		if err != nil {
			st.Destroy()
			return fail(res, "handler-error", "uninterrupted run: block %d returned an error on a healthy database: %v\n%s", bi, err, describe(sc, blocks))
		}
		for len(pointBlock) < in.Count() {
			pointBlock = append(pointBlock, bi)
		}
	}
	trace := in.Trace()
	T := len(trace)
	ref, err := readFinal(st)
	if err != nil {
		st.Destroy()
		return fail(res, "read-error", "uninterrupted run: %v", err)
	}
	// the uninterrupted run itself must agree with the registration rules (sanity of the reference)
	if cat, d := regsim.Diff(m.Snapshot(), ref.reg); cat != "" {
		st.Destroy()
		return fail(res, "reference-run:"+cat, "the uninterrupted run already differs from the registration rules (C11):\n%s\n%s", d, describe(sc, blocks))
	}

	// ---- stale deliveries in the middle of the stream ------------------------------------------
	if len(p.Stale) > 0 {
		sig, msg, cls := staleRun(p, sc, blocks, ref)
		for _, c := range cls {
			classes[c] = true
		}
		if sig == "discard" {
			st.Destroy()
			res.Discard = true
			return res
		}
		if sig != "" {
			st.Destroy()
			return fail(res, sig, "%s\nblocks:\n%s", msg, describe(sc, blocks))
		}
	}

	// ---- a block that is not newer than the last processed one is refused ------------------
	before := in.Count()
	for bi, b := range blocks {
		if _, err, _ := env.Deliver(regsim.Logs(sc, regsim.Block{Number: b.Number})); !errors.Is(err, eventhandler.ErrInferiorBlock) {
			st.Destroy()
			return fail(res, "inferior-block-accepted:empty", "delivering an empty BlockLogs (progress marker) for number %d while the last processed block is %d returned %v, want ErrInferiorBlock", b.Number, blocks[len(blocks)-1].Number, err)
		}
		stale := regsim.Logs(sc, b)
		_, err, _ := env.Deliver(stale)
		if !errors.Is(err, eventhandler.ErrInferiorBlock) {
			st.Destroy()
			return fail(res, "inferior-block-accepted", "re-delivering block %d (number %d, last processed %d) returned %v, want ErrInferiorBlock", bi, b.Number, blocks[len(blocks)-1].Number, err)
		}
		// same number as the last processed block, but other content
		stale.BlockNumber = blocks[len(blocks)-1].Number
		for i := range stale.Logs {
			stale.Logs[i].BlockNumber = stale.BlockNumber
		}
		if _, err, _ := env.Deliver(stale); !errors.Is(err, eventhandler.ErrInferiorBlock) {
			st.Destroy()
			return fail(res, "inferior-block-accepted", "delivering a block numbered like the last processed one (%d) returned %v, want ErrInferiorBlock", stale.BlockNumber, err)
		}
	}
	if in.Count() != before {
		st.Destroy()
		return fail(res, "inferior-block-wrote", "refused blocks made %d mutating calls", in.Count()-before)
	}
	if after, err := readFinal(st); err != nil {
		st.Destroy()
		return fail(res, "read-error", "after refused blocks: %v", err)
	} else if sig, d := compare(ref, after); sig != "" {
		st.Destroy()
		return fail(res, "inferior-block-changed:"+sig, "refused blocks changed the state: %s", d)
	}
	st.Destroy()

	// ---- every fault point, every mode ------------------------------------------------------
	W, K, ownPoints := 0, 0, 0
	for i, op := range trace {
		if strings.HasPrefix(op, "km.") {
			K++
		} else {
			W++
		}
		if ownBlock[pointBlock[i]] {
			ownPoints++
		}
	}
	var known *prog.Result
	for i := 1; i <= T; i++ {
		for _, mode := range []faultdb.Mode{faultdb.Err, faultdb.DieBefore, faultdb.DieAfter} {
			sig, msg, cls := oneFault(p, sc, blocks, ref, i, mode)
			for _, c := range cls {
				classes[c] = true
			}
			if sig == "discard" {
				res.Discard = true
				return res
			}
			if sig == "" {
				continue
			}
			bi := pointBlock[i-1]
			var win []string
			for k := i - 4; k <= i+2; k++ {
				if k >= 1 && k <= T {
					mark := "  "
					if k == i {
						mark = "=>"
					}
					win = append(win, fmt.Sprintf("    %s #%d %s", mark, k, trace[k-1]))
				}
			}
			full := fmt.Sprintf("fault point #%d of %d (%s, mode %s) inside block %d: %s\ncalls around the fault point:\n%s\nblocks:\n%s",
				i, T, trace[i-1], mode, bi, msg, strings.Join(win, "\n"), describe(sc, blocks))
			r := &prog.Result{Fail: prog.Failf("C12:"+sig, "%s", full), NonTrivial: true}
			if prog.IsKnown("C12:" + sig) {
				if known == nil {
					known = r // listed finding: keep searching behind it
				}
				continue
			}
			return r
		}
	}
	prog.Count(testName, "histories", 1)
	prog.Count(testName, "fault_points", T)
	prog.Count(testName, "fault_points_db", W)
	prog.Count(testName, "fault_points_km", K)
	prog.Count(testName, "fault_runs", 3*T)
	prog.Count(testName, "fault_points_in_own_operator_blocks", ownPoints)
	prog.Count(testName, "blocks", len(blocks))
	prog.Count(testName, "events", len(sc.Events))
	if known != nil {
		res = known
	}
	res.NonTrivial = ownPoints > 0
	for _, op := range trace {
		classes["point:"+opKind(op)] = true
	}
	for c := range classes {
		res.Classes = append(res.Classes, c)
	}
	sort.Strings(res.Classes)
	return res
}

// oneFault runs the sequence with a single fault and returns the signature of a divergence ("" = none).
func oneFault(p Prog, sc regsim.Scenario, blocks []regsim.Block, ref final, at int, mode faultdb.Mode) (sig, msg string, cls []string) {
	st, err := regsim.OpenStore(p.Disk)
	if err != nil {
		return "discard", "", nil
	}
	defer st.Destroy()
	in := faultdb.NewInjector()
	in.Arm(at, mode)
	env, err := regsim.Boot(st, in)
	if err != nil {
		return "boot-error", fmt.Sprintf("boot on an empty database failed: %v", err), nil
	}
	interrupted := false
	for bi, b := range blocks {
		_, err, died := env.Deliver(regsim.Logs(sc, b))
		if died != nil {
			interrupted = true
			break
		}
		if err != nil {
			if in.Fired() == nil {
				return "handler-error", fmt.Sprintf("block %d returned an error before the fault: %v", bi, err), cls
			}
			interrupted = true // HandleBlockEventsStream failed: the node terminates (logger.Fatal) and is restarted
			break
		}
		if f := in.Fired(); f != nil && mode == faultdb.Err && !interrupted {
			cls = append(cls, "error-swallowed:"+opKind(f.Op)) // the handler went on although a call failed
		}
	}
	if in.Fired() == nil {
		return "fault-not-reached", fmt.Sprintf("fault point %d was not reached (non-deterministic call sequence?)", at), cls
	}
	if interrupted {
		// restart: nothing in memory survives
		env = nil
		in.Arm(0, faultdb.Off)
		if err := st.Reopen(); err != nil {
			return "discard", "", cls
		}
		env, err = regsim.Boot(st, in)
		if err != nil {
			return "restart-boot-error", fmt.Sprintf("the node does not start on the surviving database: %v", err), cls
		}
		from, err := env.ResumeFrom()
		if err != nil {
			return "restart-boot-error", fmt.Sprintf("resume point: %v", err), cls
		}
		for bi, b := range blocks {
			if b.Number < from {
				continue
			}
			if _, err, _ := env.Deliver(regsim.Logs(sc, b)); err != nil {
				return "resume-error", fmt.Sprintf("after the restart (resuming from block number %d) block %d fails: %v", from, bi, err), cls
			}
		}
	}
	got, err := readFinal(st)
	if err != nil {
		return "read-error", err.Error(), cls
	}
	s, d := compare(ref, got)
	return s, d, cls
}

// staleRun delivers the stream on a fresh database with the program's stale deliveries interleaved. A
// stale delivery must be refused (HandleBlockEventsStream returns ErrInferiorBlock) without a single
// mutating call, the last-processed marker must never decrease, and the final state must equal the
// uninterrupted run's.
func staleRun(p Prog, sc regsim.Scenario, blocks []regsim.Block, ref final) (sig, msg string, cls []string) {
	st, err := regsim.OpenStore(p.Disk)
	if err != nil {
		return "discard", "", nil
	}
	defer st.Destroy()
	in := faultdb.NewInjector()
	env, err := regsim.Boot(st, in)
	if err != nil {
		return "boot-error", fmt.Sprintf("boot on an empty database failed: %v", err), nil
	}
	marker := func() (uint64, error) {
		from, err := env.ResumeFrom()
		if err != nil || from == 0 {
			return 0, err
		}
		return from - 1, nil
	}
	eventsOf := func(number uint64, same bool) []int {
		var older, other []int
		for _, b := range blocks {
			if len(b.Events) == 0 {
				continue
			}
			if b.Number == number && same {
				return b.Events
			}
			if b.Number < number {
				older = b.Events
			}
			if b.Number != number {
				other = b.Events
			}
		}
		if same {
			return older
		}
		return other
	}
	high := uint64(0)
	for pos := 0; pos < len(blocks); pos++ {
		b := blocks[pos]
		if _, err, _ := env.Deliver(regsim.Logs(sc, b)); err != nil {
			return "handler-error", fmt.Sprintf("stream with stale deliveries: block %d (number %d) returned an error: %v", pos, b.Number, err), cls
		}
		if mk, err := marker(); err != nil || mk != b.Number || mk < high {
			return "marker-wrong", fmt.Sprintf("after block %d (number %d) the last processed block reads %d (err %v), highest so far %d", pos, b.Number, mk, err, high), cls
		}
		high = b.Number
		for _, sd := range p.Stale {
			if sd.After%len(blocks) != pos {
				continue
			}
			n := b.Number
			switch {
			case sd.Back == 1 && n > 1:
				n--
			case sd.Back >= 2:
				k := pos - (sd.Back - 1)
				if k < 0 {
					k = 0
				}
				n = blocks[k].Number
			}
			sb := regsim.Block{Number: n}
			if sd.Kind != "empty" {
				sb.Events = eventsOf(n, sd.Kind == "same")
			}
			kind := sd.Kind
			if len(sb.Events) == 0 {
				kind = "empty"
			}
			age := "older"
			if n == b.Number {
				age = "at-marker"
			} else if n == b.Number-1 {
				age = "marker-1"
			}
			cls = append(cls, "stale:"+kind+":"+age)
			what := fmt.Sprintf("stale delivery after block %d: BlockLogs number %d (%s, %d logs) while the last processed block is %d", pos, n, kind, len(sb.Events), b.Number)
			before := in.Count()
			_, err, _ := env.Deliver(regsim.Logs(sc, sb))
			mk, merr := marker()
			switch {
			case merr != nil:
				return "read-error", merr.Error(), cls
			case mk < b.Number:
				return "marker-regressed:" + kind, fmt.Sprintf("%s: the last processed block went BACK to %d (delivery returned %v)", what, mk, err), cls
			case mk != b.Number:
				return "marker-moved:" + kind, fmt.Sprintf("%s: the last processed block is now %d (delivery returned %v)", what, mk, err), cls
			case !errors.Is(err, eventhandler.ErrInferiorBlock):
				return "inferior-block-accepted:" + kind, fmt.Sprintf("%s: returned %v, want ErrInferiorBlock", what, err), cls
			case in.Count() != before:
				return "inferior-block-wrote:" + kind, fmt.Sprintf("%s: the refused delivery made %d mutating calls", what, in.Count()-before), cls
			}
			if sd.Restart {
				// the failed stream ends the process; the next one resumes from last processed + 1
				cls = append(cls, "stale:then-restart")
				if err := st.Reopen(); err != nil {
					return "discard", "", cls
				}
				if env, err = regsim.Boot(st, in); err != nil {
					return "restart-boot-error", fmt.Sprintf("%s: the node does not start afterwards: %v", what, err), cls
				}
				from, err := env.ResumeFrom()
				if err != nil {
					return "restart-boot-error", err.Error(), cls
				}
				for k := 0; k <= pos; k++ { // what the execution client would deliver again from there
					if blocks[k].Number >= from {
						if _, err, _ := env.Deliver(regsim.Logs(sc, blocks[k])); err != nil {
							return "resume-error", fmt.Sprintf("%s: after the restart (resuming from %d) block %d fails: %v", what, from, k, err), cls
						}
					}
				}
			}
		}
	}
	got, err := readFinal(st)
	if err != nil {
		return "read-error", err.Error(), cls
	}
	if s, d := compare(ref, got); s != "" {
		return "stale-run:" + s, "the stream with stale deliveries ends in another state than the plain stream: " + d, cls
	}
	return "", "", cls
}

func TestPropCrashAtomicity(t *testing.T) { prog.Check(t, "C12", testName, gen, run) }
func TestReplay(t *testing.T)             { prog.Replay(t, "C12", testName, run) }
