// Package c11: "Registry state is a deterministic function of the contract event log".
//
// A program is an event sequence over the key pool of internal/regsim plus two independently drawn
// ways of cutting it into blocks. Each batching is fed, block by block, as ABI-encoded logs to the
// real eventhandler.EventHandler (real node storage, real key manager, in-memory Badger). After every
// block the state read through the nodeStorage getters must equal the reference model; so must the
// state read through a node storage freshly created on the same database (restart); at the end the
// two batchings must have produced the same registry.
package c11

import (
	"fmt"
	"sort"
	"strings"
	"testing"

	"pgregory.net/rapid"

	"verif/harness/internal/prog"
	"verif/harness/internal/regsim"
)

func TestMain(m *testing.M) { prog.Main(m) }

// Prog is the JSON program.
type Prog struct {
	Sc       regsim.Scenario `json:"scenario"`
	CutsA    []bool          `json:"cuts_a"` // block ends after event i (cyclic)
	GapsA    []int           `json:"gaps_a"` // distance between block numbers (cyclic)
	CutsB    []bool          `json:"cuts_b"`
	GapsB    []int           `json:"gaps_b"`
	RestartB int             `json:"restart_b"`           // batching B: restart the process after every n-th block (0: never)
	MarkersA []bool          `json:"markers_a,omitempty"` // empty progress-marker BlockLogs after block j (cyclic)
	MarkersB []bool          `json:"markers_b,omitempty"`
}

func gen(t *rapid.T) Prog {
	p := Prog{Sc: regsim.GenScenario(t, regsim.Bias{MaxEvents: 30})}
	p.CutsA = rapid.SliceOfN(rapid.Bool(), 1, 12).Draw(t, "cuts_a")
	p.GapsA = rapid.SliceOfN(rapid.IntRange(1, 4), 1, 4).Draw(t, "gaps_a")
	p.CutsB = rapid.SliceOfN(rapid.Bool(), 1, 12).Draw(t, "cuts_b")
	p.GapsB = rapid.SliceOfN(rapid.IntRange(1, 4), 1, 4).Draw(t, "gaps_b")
	p.RestartB = rapid.SampledFrom([]int{0, 0, 1, 2, 3}).Draw(t, "restart_b")
	p.MarkersA = rapid.SliceOfN(rapid.Bool(), 0, 5).Draw(t, "markers_a")
	p.MarkersB = rapid.SliceOfN(rapid.Bool(), 0, 5).Draw(t, "markers_b")
	return p
}

func fail(res *prog.Result, sig, f string, a ...any) *prog.Result {
	res.Fail = prog.Failf("C11:"+sig, f, a...)
	return res
}

// matchTasks compares the executed tasks with the model's expectation (optional ones may be absent).
func matchTasks(exp []regsim.ExpTask, got []string) string {
	i := 0
	for _, g := range got {
		for i < len(exp) && exp[i].Desc != g && exp[i].Optional {
			i++
		}
		if i >= len(exp) || exp[i].Desc != g {
			return fmt.Sprintf("unexpected task %q", g)
		}
		i++
	}
	for ; i < len(exp); i++ {
		if !exp[i].Optional {
			return fmt.Sprintf("missing task %q", exp[i].Desc)
		}
	}
	return ""
}

// taskSig turns `unexpected task "stop:ab12…"` into "unexpected-stop".
func taskSig(d string) string {
	w := strings.SplitN(d, " ", 2)[0]
	if i := strings.IndexByte(d, '"'); i >= 0 {
		return w + "-" + strings.SplitN(d[i+1:], ":", 2)[0]
	}
	return w
}

func descs(e []regsim.ExpTask) []string {
	var s []string
	for _, x := range e {
		d := x.Desc
		if x.Optional {
			d += "?"
		}
		s = append(s, d)
	}
	return s
}

// runBatching executes one batching and returns the final state.
func runBatching(res *prog.Result, label string, sc regsim.Scenario, cuts []bool, gaps []int, markers []bool, restartEvery int, classes map[string]bool) (regsim.Snapshot, *prog.Result) {
	var zero regsim.Snapshot
	st, err := regsim.OpenStore(false)
	if err != nil {
		res.Discard = true
		return zero, res
	}
	defer st.Destroy()
	env, err := regsim.Boot(st, nil)
	if err != nil {
		return zero, fail(res, "boot-error", "%s: boot on an empty database failed: %v", label, err)
	}
	m := regsim.NewModel()
	pre, blocks := regsim.Cut(sc, cuts, gaps)
	blocks = regsim.WithMarkers(blocks, markers)
	doMeta := func(idx []int) *prog.Result {
		for _, i := range idx {
			e := sc.Events[i]
			m.Apply(sc.Us, e, 0)
			if err := env.SetMeta(e.V, e.Idx); err != nil {
				return fail(res, "meta-error", "%s: metadata update failed: %v", label, err)
			}
		}
		return nil
	}
	if r := doMeta(pre); r != nil {
		return zero, r
	}
	for bi, b := range blocks {
		var exp []regsim.ExpTask
		var what []string
		for _, i := range b.Events {
			out := m.Apply(sc.Us, sc.Events[i], b.Number)
			exp = append(exp, out.Tasks...)
			classes[out.Class] = true
			if e := sc.Events[i]; e.K == "vadd" && out.Class == "vadd:mal:ops-unknown" && strings.Contains(e.Note, "refused id") {
				classes["vadd:mal:ops-unknown:id-of-refused-operator"] = true
			}
			if e := sc.Events[i]; e.K == "vadd" && !sort.SliceIsSorted(e.Ops, func(a, b int) bool { return e.Ops[a] < e.Ops[b] }) {
				classes["unsorted-committee:"+out.Class] = true
				if out.Own && len(e.Ops) > 0 && e.Ops[0] != m.Self {
					classes["unsorted-committee:own-share-not-at-sorted-position"] = true
				}
			} else if (e.K == "liq" || e.K == "react") && out.Own && !sort.SliceIsSorted(e.Ops, func(a, b int) bool { return e.Ops[a] < e.Ops[b] }) {
				classes["unsorted-cluster-ids:"+out.Class] = true
			}
			what = append(what, fmt.Sprintf("#%d %s->%s", i, sc.Events[i].K, out.Class))
		}
		m.HasLast, m.Last = true, b.Number
		if len(b.Events) == 0 {
			classes["empty-progress-marker-block"] = true
		}
		where := fmt.Sprintf("%s block %d (number %d: %s)", label, bi, b.Number, strings.Join(what, ", "))
		tasks, err, _ := env.Deliver(regsim.Logs(sc, b))
		if err != nil {
			return zero, fail(res, "handler-error", "%s: HandleBlockEventsStream returned an error on a healthy database: %v", where, err)
		}
		want := m.Snapshot()
		got, err := env.Snapshot()
		if err != nil {
			return zero, fail(res, "getter-error", "%s: reading the state back failed: %v", where, err)
		}
		if cat, d := regsim.Diff(want, got); cat != "" {
			return zero, fail(res, "state:"+cat, "after %s the state read through the nodeStorage getters differs from the registration rules:\n%s", where, d)
		}
		fresh, err := regsim.FreshSnapshot(st)
		if err != nil {
			return zero, fail(res, "restart-error", "%s: re-creating node storage failed: %v", where, err)
		}
		if cat, d := regsim.Diff(want, fresh); cat != "" {
			return zero, fail(res, "restart:"+cat, "after %s a node storage re-created on the same database (restart) differs from the registration rules / the in-memory view:\n%s", where, d)
		}
		if d := matchTasks(exp, tasks); d != "" {
			return zero, fail(res, "tasks:"+taskSig(d),
				"%s: %s\n  expected %v\n  executed %v", where, d, descs(exp), tasks)
		}
		if r := doMeta(b.Metas); r != nil {
			return zero, r
		}
		if restartEvery > 0 && (bi+1)%restartEvery == 0 && bi+1 < len(blocks) {
			classes["restart-mid-sequence"] = true
			from, err := env.ResumeFrom()
			if err != nil || from != b.Number+1 {
				return zero, fail(res, "resume-point", "%s: resume point after restart is %d (err %v), want %d", where, from, err, b.Number+1)
			}
			env, err = regsim.Boot(st, nil)
			if err != nil {
				return zero, fail(res, "boot-error", "%s: restart failed: %v", where, err)
			}
		}
	}
	final, err := regsim.FreshSnapshot(st)
	if err != nil {
		return zero, fail(res, "restart-error", "%s: final read failed: %v", label, err)
	}
	return final, nil
}

func run(p Prog) *prog.Result {
	res := &prog.Result{}
	if len(p.Sc.Events) == 0 {
		return res
	}
	classes := map[string]bool{}
	a, r := runBatching(res, "batching A", p.Sc, p.CutsA, p.GapsA, p.MarkersA, 0, classes)
	if r != nil {
		return r
	}
	b, r := runBatching(res, "batching B", p.Sc, p.CutsB, p.GapsB, p.MarkersB, p.RestartB, classes)
	if r != nil {
		return r
	}
	// metamorphic: the registry does not depend on the batching (block numbers differ by construction)
	a.Last, b.Last = 0, 0
	if cat, d := regsim.Diff(a, b); cat != "" {
		return fail(res, "batching:"+cat, "the two batchings of the same event sequence end in different registries:\n%s", d)
	}
	_, ba := regsim.Cut(p.Sc, p.CutsA, p.GapsA)
	_, bb := regsim.Cut(p.Sc, p.CutsB, p.GapsB)
	if len(ba) != len(bb) {
		classes["batchings-differ"] = true
	}
	for _, bl := range append(ba, bb...) {
		if len(bl.Events) >= 3 {
			classes["block>=3-events"] = true
		}
	}
	// non-trivial: a refused registration followed by an accepted one of the same owner
	m := regsim.NewModel()
	refused := map[int]bool{}
	for _, e := range p.Sc.Events {
		out := m.Apply(p.Sc.Us, e, 0)
		if e.K != "vadd" {
			continue
		}
		if out.Mal {
			refused[e.O] = true
		} else if out.Added && refused[e.O] {
			res.NonTrivial = true
			classes["valid-add-after-refused"] = true
			if m.Self != 0 && out.Own {
				classes["valid-own-add-after-refused"] = true
			}
		}
	}
	prog.Count("TestPropRegistry", "events", len(p.Sc.Events))
	prog.Count("TestPropRegistry", "blocks", len(ba)+len(bb))
	if p.Sc.Us == 0 {
		classes["not-registered"] = true
	}
	for c := range classes {
		res.Classes = append(res.Classes, c)
	}
	sort.Strings(res.Classes)
	return res
}

func TestPropRegistry(t *testing.T) { prog.Check(t, "C11", "TestPropRegistry", gen, run) }
func TestReplay(t *testing.T)       { prog.Replay(t, "C11", "TestPropRegistry", run) }
