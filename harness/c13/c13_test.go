package c13

import (
	"context"
	"errors"
	"fmt"
	"os"
	"runtime"
	"sort"
	"strings"
	"testing"
	"time"

	ethcommon "github.com/ethereum/go-ethereum/common"
	ethtypes "github.com/ethereum/go-ethereum/core/types"
	"go.uber.org/zap"
	"go.uber.org/zap/zapcore"
	"go.uber.org/zap/zaptest/observer"
	"pgregory.net/rapid"

	"github.com/bloxapp/ssv/eth/executionclient"

	"verif/harness/internal/fakeeth"
	"verif/harness/internal/prog"
)

func TestMain(m *testing.M) { prog.Main(m) }

var contractAddr = ethcommon.HexToAddress("0x00000000000000000000000000000000000000c1")

// VERIF_C13_DEBUG=1 prints cases slower than 1 s (2: plus goroutine stacks of stuck cases) to stderr.
//
// Stop-condition time-outs. They never produce a verdict: an expired wait only desynchronises the
// script from the client (the oracle holds for every interleaving) or ends the case as Discard.
const (
	stepWait     = 300 * time.Millisecond // a head that the client apparently ignores
	resubWait    = 2 * time.Second        // client must come back with a new subscription after a fault
	endWait      = 3 * time.Second        // stream must reach lastHead-follow
	probeWait    = 2 * time.Second        // after endWait: does the stream move past the missing block?
	teardownWait = 5 * time.Second
)

// ---- program ------------------------------------------------------------------------------

// Step of the node-side script. Every step first waits until the client holds a live head
// subscription, so announcements and faults always land on a subscribed client.
type Step struct {
	Op string `json:"op"` // head | kill | suberr | failsub
	// head: the chain grows by Adv blocks (0 = the same head is announced again) and the new head is announced.
	Adv uint64 `json:"adv,omitempty"`
	// head: do not wait for the client to finish processing this head before the next head
	// (two heads in quick succession); ignored when the next step is not a head.
	NoWait bool `json:"nowait,omitempty"`
	// head: "fail" = the Nth eth_getLogs from now on returns an error; "kill" = the connection is
	// killed while the Nth eth_getLogs is in flight.
	GetFault string `json:"getfault,omitempty"`
	Nth      int    `json:"nth,omitempty"`
}

type Prog struct {
	Blocks [][]fakeeth.LogSpec `json:"blocks"` // index = block number; blocks beyond are empty
	Start  uint64              `json:"start"`  // fromBlock given to StreamLogs
	Follow uint64              `json:"follow"`
	Batch  uint64              `json:"batch"`
	Head0  uint64              `json:"head0"` // chain head before the first step
	Steps  []Step              `json:"steps"`
}

// ---- observation shared between collector, metrics hook, fatal hook and script (server lock) --

type stamped struct {
	bl        executionclient.BlockLogs
	faults    int    // injected faults that had fired when the entry was read
	lastFault string // kind of the most recent one
}

type obs struct {
	entries   []stamped
	closed    bool   // the StreamLogs channel was closed
	fatal     bool   // the client called logger.Fatal (gives up by design)
	maxMetric uint64 // highest ExecutionClientLastFetchedBlock value reported by the client
}

type metricsHook struct {
	srv *fakeeth.Server
	o   *obs
}

func (m metricsHook) ExecutionClientReady()   {}
func (m metricsHook) ExecutionClientSyncing() {}
func (m metricsHook) ExecutionClientFailure() {}
func (m metricsHook) ExecutionClientLastFetchedBlock(b uint64) {
	m.srv.Locked(func(*fakeeth.State) {
		if b > m.o.maxMetric {
			m.o.maxMetric = b
		}
	})
}

// fatalHook turns the client's deliberate logger.Fatal into "this goroutine ends".
type fatalHook struct {
	srv *fakeeth.Server
	o   *obs
}

func (h fatalHook) OnWrite(*zapcore.CheckedEntry, []zapcore.Field) {
	h.srv.Locked(func(*fakeeth.State) { h.o.fatal = true })
	runtime.Goexit()
}

func newLogger(srv *fakeeth.Server, o *obs) (*zap.Logger, *observer.ObservedLogs) {
	core, logs := observer.New(zapcore.InfoLevel)
	return zap.New(core, zap.WithFatalHook(fatalHook{srv, o})), logs
}

func renderLogs(l *observer.ObservedLogs) string {
	var sb strings.Builder
	all := l.All()
	if len(all) > 60 {
		all = all[len(all)-60:]
	}
	for _, e := range all {
		fmt.Fprintf(&sb, "    [%s] %s", e.Level, e.Message)
		for _, k := range []string{"from_block", "to_block", "target_block", "events", "error"} {
			if v, ok := e.ContextMap()[k]; ok {
				fmt.Fprintf(&sb, " %s=%v", k, v)
			}
		}
		sb.WriteByte('\n')
	}
	return sb.String()
}

// ---- oracle -------------------------------------------------------------------------------

type verdict struct {
	sig, msg string
}

// judge checks the delivered sequence against the statement:
//   - block numbers strictly increasing;
//   - no block >= start with non-removed contract logs lies between two consecutive entries (or between
//     start and the first entry at/after start): once the stream has delivered a later block the earlier one can never
//     come any more, so this is a skip irrespective of timing;
//   - an entry with logs carries exactly the block's non-removed contract logs in order; an entry without
//     logs (batch-advance marker, "we have advanced to this block") is only allowed on a block without such logs;
//   - if through != nil (the client itself reported having fetched up to there): nothing is missing up to *through.
func judge(chain *fakeeth.Chain, start uint64, entries []stamped, through *uint64) *verdict {
	cursor := start
	for i, e := range entries {
		n := e.bl.BlockNumber
		if i > 0 && n <= entries[i-1].bl.BlockNumber {
			return &verdict{"not-increasing:after=" + faultLabel(e),
				fmt.Sprintf("entry #%d has block %d after entry #%d with block %d (block numbers must be strictly increasing; %s)",
					i, n, i-1, entries[i-1].bl.BlockNumber, seenBefore(entries[:i], n))}
		}
		if n < start {
			continue // blocks before the requested start: not covered by the statement
		}
		for b := cursor; b < n; b++ {
			if v := chain.Valid(b); len(v) > 0 {
				return &verdict{"skipped-block:after=" + faultLabel(e),
					fmt.Sprintf("block %d emitted %d non-removed log(s) and was never delivered, but the stream moved past it: entry #%d is block %d", b, len(v), i, n)}
			}
		}
		want := chain.Valid(n)
		if len(e.bl.Logs) == 0 {
			if len(want) > 0 {
				return &verdict{"empty-entry-on-log-block", fmt.Sprintf("entry #%d for block %d carries no logs but the block emitted %d", i, n, len(want))}
			}
		} else {
			if len(e.bl.Logs) != len(want) {
				return &verdict{"wrong-logs", fmt.Sprintf("entry #%d for block %d carries %d logs, the block emitted %d non-removed", i, n, len(e.bl.Logs), len(want))}
			}
			for k := range want {
				if !fakeeth.SameLog(want[k], e.bl.Logs[k]) {
					return &verdict{"wrong-log-order", fmt.Sprintf("entry #%d block %d: log at position %d is (tx %d, index %d), expected (tx %d, index %d)",
						i, n, k, e.bl.Logs[k].TxIndex, e.bl.Logs[k].Index, want[k].TxIndex, want[k].Index)}
				}
			}
		}
		cursor = n + 1
	}
	if through != nil {
		for b := cursor; b <= *through; b++ {
			if v := chain.Valid(b); len(v) > 0 {
				return &verdict{"missing-at-end", fmt.Sprintf("client reported having fetched up to block %d but block %d (%d logs) was never delivered", *through, b, len(v))}
			}
		}
	}
	return nil
}

func faultLabel(e stamped) string {
	if e.lastFault == "" {
		return "none"
	}
	return e.lastFault
}

func seenBefore(es []stamped, n uint64) string {
	for i, e := range es {
		if e.bl.BlockNumber == n {
			return fmt.Sprintf("block %d was already delivered as entry #%d", n, i)
		}
	}
	return "block not delivered before"
}

func renderEntries(es []stamped) string {
	var sb strings.Builder
	for i, e := range es {
		fmt.Fprintf(&sb, "    #%d block %d logs=%d (faults so far %d)\n", i, e.bl.BlockNumber, len(e.bl.Logs), e.faults)
	}
	return sb.String()
}

func renderReqs(rs []fakeeth.GetLogsReq) string {
	var sb strings.Builder
	for _, r := range rs {
		fmt.Fprintf(&sb, " [%d..%d]%s", r.From, r.To, map[string]string{"ok": "", "fail": "!fail", "kill": "!kill", "badaddr": "!addr"}[r.Outcome])
	}
	return sb.String()
}

// ---- interpreter --------------------------------------------------------------------------

func run(p Prog) *prog.Result {
	res := &prog.Result{}
	classes := map[string]bool{}
	t0 := time.Now()
	var script []string
	debugDump := func() string { return "" }
	defer func() {
		if d := time.Since(t0); d > time.Second && os.Getenv("VERIF_C13_DEBUG") != "" {
			fmt.Fprintf(os.Stderr, "SLOW %v discard=%v classes=%v start=%d follow=%d batch=%d script=%v\n%s\n", d, res.Discard, classes, p.Start, p.Follow, p.Batch, script, debugDump())
		}
	}()
	defer func() {
		for c := range classes {
			res.Classes = append(res.Classes, c)
		}
		sort.Strings(res.Classes)
	}()
	if p.Batch == 0 {
		p.Batch = 1
	}
	chain := fakeeth.BuildChain(contractAddr, p.Blocks)
	srv, err := fakeeth.New(chain, p.Head0)
	if err != nil {
		res.Discard = true
		prog.Count("TestPropStreamLogs", "discard:listen-failed", 1)
		return res
	}
	defer srv.Close()
	o := &obs{}
	logger, logbuf := newLogger(srv, o)
	debugDump = func() string {
		st := srv.Snapshot()
		return fmt.Sprintf("  state=%+v\n  entries:\n%s  log:\n%s", st, renderEntries(o.entries), renderLogs(logbuf))
	}
	ctx, cancel := context.WithCancel(context.Background())
	defer cancel()
	ec, err := executionclient.New(ctx, srv.URL(), contractAddr,
		executionclient.WithLogger(logger),
		executionclient.WithMetrics(metricsHook{srv, o}),
		executionclient.WithFollowDistance(p.Follow),
		executionclient.WithLogBatchSize(p.Batch),
		executionclient.WithReconnectionInitialInterval(time.Millisecond),
	)
	if err != nil {
		res.Discard = true
		prog.Count("TestPropStreamLogs", "discard:dial-failed", 1)
		if os.Getenv("VERIF_C13_DEBUG") != "" {
			fmt.Fprintf(os.Stderr, "DIAL-FAILED %v\n", err)
		}
		return res
	}
	stream := ec.StreamLogs(ctx, p.Start)
	collected := make(chan struct{})
	go func() {
		defer close(collected)
		for bl := range stream {
			srv.Locked(func(st *fakeeth.State) {
				o.entries = append(o.entries, stamped{bl: bl, faults: st.FaultsFired, lastFault: st.LastFault})
			})
		}
		srv.Locked(func(*fakeeth.State) { o.closed = true })
	}()

	syncTimeouts := 0
	// hung: the client did not come back with a subscription within resubWait. Besides a starved machine
	// the known cause is a race inside go-ethereum's rpc.Client (a call whose send overlaps a connection
	// teardown never returns; FilterLogs / SubscribeNewHead are called without deadline). Not judged.
	hung := false
	ensureLive := func() bool { // false: the stream is over or the client hangs
		if hung {
			return false
		}
		if !srv.WaitUntil(resubWait, func(st *fakeeth.State) bool { return o.closed || st.LiveSubs > 0 }) {
			hung = true
			return false
		}
		var closed bool
		srv.Locked(func(*fakeeth.State) { closed = o.closed })
		return !closed
	}
	waitResub := func(subs0 int) {
		if !srv.WaitUntil(resubWait, func(st *fakeeth.State) bool { return o.closed || (st.SubscribeOK > subs0 && st.LiveSubs > 0) }) {
			hung = true
		}
	}

	head := p.Head0
	for i, s := range p.Steps {
		if !ensureLive() {
			break
		}
		subs0 := srv.Snapshot().SubscribeOK
		switch s.Op {
		case "head":
			head += s.Adv
			switch s.GetFault {
			case "fail":
				srv.FailGetLogs(s.Nth)
			case "kill":
				srv.KillOnGetLogs(s.Nth)
			}
			srv.AnnounceHead(head)
			script = append(script, fmt.Sprintf("head %d", head))
			// NoWait is honoured only in front of another head (two heads in quick succession): a fault
			// racing with an unprocessed head would make the case's outcome depend on the client's select order.
			if head < p.Follow {
				classes["head-below-follow"] = true
				continue
			}
			if s.NoWait && i+1 < len(p.Steps) && p.Steps[i+1].Op == "head" {
				classes["heads-in-quick-succession"] = true
				continue
			}
			target := head - p.Follow + 1
			done := func(st *fakeeth.State) bool {
				return o.closed || o.maxMetric >= target || (st.SubscribeOK > subs0 && st.LiveSubs > 0)
			}
			var known uint64
			srv.Locked(func(*fakeeth.State) { known = o.maxMetric })
			if known < p.Start {
				known = p.Start
			}
			if target <= known {
				continue // at or below the client's cursor: the client ignores it
			}
			if !srv.WaitUntil(stepWait, done) {
				syncTimeouts++
			}
		case "kill":
			srv.KillConnections()
			script = append(script, "kill")
			waitResub(subs0)
		case "suberr":
			srv.PoisonSubscriptions()
			script = append(script, "suberr")
			waitResub(subs0)
		case "failsub":
			srv.FailSubscribe(1)
			script = append(script, "failsub")
		}
	}

	// ---- end phase: the last head is announced on every new subscription until the client reports
	// having fetched up to lastHead-follow (its own progress metric; stop condition only).
	lastHead := head
	due := lastHead >= p.Follow && lastHead-p.Follow >= p.Start
	reached := false
	chase := func(h uint64, limit time.Duration, stop func(st *fakeeth.State) bool) {
		deadline := time.Now().Add(limit)
		for {
			if !ensureLive() {
				return
			}
			subs0 := srv.Snapshot().SubscribeOK
			srv.AnnounceHead(h)
			left := time.Until(deadline)
			if left <= 0 {
				return
			}
			resub := false
			srv.WaitUntil(left, func(st *fakeeth.State) bool {
				if o.closed || stop(st) {
					return true
				}
				resub = st.SubscribeOK > subs0 && st.LiveSubs > 0
				return resub
			})
			var over bool
			srv.Locked(func(st *fakeeth.State) { over = o.closed || stop(st) })
			if over || !resub {
				return
			}
		}
	}
	probed := false
	if due {
		want := lastHead - p.Follow + 1
		chase(lastHead, endWait, func(*fakeeth.State) bool { return o.maxMetric >= want })
		srv.Locked(func(*fakeeth.State) { reached = o.maxMetric >= want })
		var closed bool
		srv.Locked(func(*fakeeth.State) { closed = o.closed })
		if !reached && !closed && !hung {
			// The stream is stuck below lastHead-follow. Either the harness is starved (-> Discard) or the
			// client's cursor is already past blocks it never delivered. Two more heads decide it: a
			// delivered entry beyond the missing block is a skip whatever the timing was.
			probed = true
			probeHead := lastHead + 2
			pw := probeHead - p.Follow + 1
			chase(probeHead, probeWait, func(*fakeeth.State) bool {
				if o.maxMetric >= pw {
					return true
				}
				return len(o.entries) > 0 && o.entries[len(o.entries)-1].bl.BlockNumber > lastHead-p.Follow
			})
			srv.Locked(func(*fakeeth.State) { reached = o.maxMetric >= want })
		}
	}

	if os.Getenv("VERIF_C13_DEBUG") == "2" && due && !reached {
		buf := make([]byte, 1<<20)
		fmt.Fprintf(os.Stderr, "STUCK-STACKS\n%s\nEND-STACKS\n", buf[:runtime.Stack(buf, true)])
	}
	// ---- teardown: Close first (a cancelled context alone would leave reconnect() spinning).
	var wasClosed, fatal bool
	srv.Locked(func(*fakeeth.State) { wasClosed, fatal = o.closed, o.fatal })
	_ = ec.Close()
	cancel()
	select {
	case <-collected:
	case <-time.After(teardownWait):
		res.Discard = true
		prog.Count("TestPropStreamLogs", "discard:teardown-timeout", 1)
		classes["teardown-timeout"] = true
		return res
	}
	srv.Close()

	st := srv.Snapshot()
	entries := o.entries
	var through *uint64
	if due && reached {
		t := lastHead - p.Follow
		through = &t
	}
	v := judge(chain, p.Start, entries, through)
	if v == nil && wasClosed && !fatal {
		v = &verdict{"stream-ended", "the StreamLogs channel was closed although the client neither gave up (Fatal) nor was closed"}
	}
	for _, r := range st.GetLogs {
		if r.Outcome == "badaddr" && v == nil {
			v = &verdict{"wrong-filter-address", fmt.Sprintf("eth_getLogs [%d..%d] was not filtered by exactly the contract address", r.From, r.To)}
		}
	}

	// classes / non-triviality
	if len(entries) > 0 && entries[len(entries)-1].faults > entries[0].faults {
		res.NonTrivial = true
	}
	if fatal {
		classes["terminated-by-design"] = true
	}
	if probed {
		classes["probed"] = true
	}
	if syncTimeouts > 0 {
		classes["sync-timeout"] = true
	}
	if hung {
		classes["client-hung"] = true
	}
	if !due {
		classes["nothing-due"] = true
	}
	if due && reached {
		classes["complete"] = true
	}
	markers, before, big := 0, 0, false
	for _, e := range entries {
		if len(e.bl.Logs) == 0 {
			markers++
		}
		if e.bl.BlockNumber < p.Start {
			before++
		}
	}
	for _, r := range st.GetLogs {
		if r.Logs > 12 {
			big = true
		}
		if r.Outcome == "fail" {
			classes["fault:failget"] = true
		}
		if r.Outcome == "kill" {
			classes["fault:killget"] = true
		}
	}
	if markers > 0 {
		classes["marker-entries"] = true
	}
	if before > 0 {
		classes["entries-before-start"] = true
	}
	if big {
		classes["getlogs>12"] = true
	}
	if st.SubscribeFail > 0 {
		classes["fault:failsub"] = true
	}
	for _, s := range script {
		if s == "kill" || s == "suberr" {
			classes["fault:"+s] = true
		}
	}
	classes[fmt.Sprintf("faults-fired=%d", min(st.FaultsFired, 4))] = true

	if v != nil {
		res.Fail = prog.Failf("C13:"+v.sig, "%s\n  start=%d follow=%d batch=%d lastHead=%d script=%v\n  eth_getLogs seen:%s\n  delivered:\n%s  client log:\n%s",
			v.msg, p.Start, p.Follow, p.Batch, lastHead, script, renderReqs(st.GetLogs), renderEntries(entries), renderLogs(logbuf))
		return res
	}
	if due && !reached && !fatal {
		// stuck without a demonstrable skip: not judged
		res.Discard = true
		if hung {
			prog.Count("TestPropStreamLogs", "discard:client-hung", 1)
		} else {
			prog.Count("TestPropStreamLogs", "discard:stuck", 1)
		}
		classes["stuck"] = true
	}
	return res
}

// ---- generator ----------------------------------------------------------------------------

func genBlock(t *rapid.T) []fakeeth.LogSpec {
	n := rapid.SampledFrom([]int{0, 0, 0, 0, 0, 1, 1, 2, 3, 5, 14}).Draw(t, "nlogs")
	out := make([]fakeeth.LogSpec, n)
	for i := range out {
		out[i] = fakeeth.LogSpec{
			NewTx:   rapid.IntRange(0, 2).Draw(t, "newtx") == 0,
			Removed: rapid.IntRange(0, 9).Draw(t, "removed") == 0,
			Noise:   rapid.IntRange(0, 9).Draw(t, "noise") == 0,
		}
	}
	return out
}

type rawStep struct {
	kind     string
	adv      uint64
	nowait   bool
	getfault string
	nth      int
}

func genRawStep(t *rapid.T) rawStep {
	return rawStep{
		kind:     rapid.SampledFrom([]string{"head", "head", "head", "kill", "kill", "suberr", "suberr", "failsub", "headfault", "headfault", "headfault"}).Draw(t, "kind"),
		adv:      rapid.SampledFrom([]uint64{0, 1, 1, 1, 2, 3, 5, 9}).Draw(t, "adv"),
		nowait:   rapid.IntRange(0, 5).Draw(t, "nowait") == 5,
		getfault: rapid.SampledFrom([]string{"fail", "kill"}).Draw(t, "getfault"),
		nth:      rapid.IntRange(0, 11).Draw(t, "nth"),
	}
}

func gen(t *rapid.T) Prog {
	p := Prog{
		Start:  rapid.Uint64Range(1, 12).Draw(t, "start"),
		Follow: rapid.Uint64Range(0, 8).Draw(t, "follow"),
		Batch:  rapid.SampledFrom([]uint64{1, 1, 2, 2, 3, 4, 5, 8, 13, 20}).Draw(t, "batch"),
	}
	p.Head0 = rapid.Uint64Range(0, p.Start+p.Follow+2).Draw(t, "head0")
	p.Blocks = append([][]fakeeth.LogSpec{nil}, // block 0 (genesis) carries nothing
		rapid.SliceOfN(rapid.Custom(genBlock), 7, 47).Draw(t, "blocks")...)
	raw := rapid.SliceOfN(rapid.Custom(genRawStep), 2, 12).Draw(t, "steps")
	tailAdv := rapid.Uint64Range(0, 6).Draw(t, "tail")

	// Repair pass (a pure function of the draws, so that shrinking stays effective): a small model of the
	// client's retry budget turns faults that would exhaust it into plain heads. StreamLogs gives up (Fatal)
	// on the third failure in a row without progress; progress = a head fully processed since the last failure.
	head, cursor, tries, progress := p.Head0, p.Start, 0, false
	pendingFailSub := 0
	delivered := false // the model has delivered something: keep most of the budget for faults after that
	fault := func() {  // account one failure
		if progress {
			tries = 0
		} else {
			tries++
		}
		progress = false
	}
	settle := func() { // an armed eth_subscribe failure hits at the resubscription that follows a failure
		for ; pendingFailSub > 0; pendingFailSub-- {
			fault()
		}
	}
	for _, r := range raw {
		kind := r.kind
		switch kind {
		case "kill", "suberr":
			if tries+pendingFailSub < 2 && (delivered || tries+pendingFailSub < 1) {
				fault()
				settle()
				p.Steps = append(p.Steps, Step{Op: kind})
				continue
			}
			kind = "head"
		case "failsub":
			if tries+pendingFailSub < 1 {
				pendingFailSub++
				p.Steps = append(p.Steps, Step{Op: "failsub"})
				continue
			}
			kind = "head"
		}
		s := Step{Op: "head", Adv: r.adv, NoWait: r.nowait}
		head += s.Adv
		if head >= p.Follow && head-p.Follow >= cursor {
			to := head - p.Follow
			batches := int((to-cursor)/p.Batch) + 1
			if kind == "headfault" && tries+pendingFailSub < 2 && (delivered || tries+pendingFailSub < 1) {
				fault()
				settle()
				s.GetFault = r.getfault
				s.Nth = 1 + r.nth%batches
				cursor += uint64(s.Nth-1) * p.Batch // at least the batches before the fault were delivered
				delivered = delivered || s.Nth > 1
			} else {
				cursor = to + 1
				progress = true
				delivered = true
			}
		}
		p.Steps = append(p.Steps, s)
	}
	// a final head far enough for something to be due
	tail := Step{Op: "head", Adv: tailAdv}
	if head+tail.Adv < p.Follow+cursor {
		tail.Adv += p.Follow + cursor - (head + tail.Adv)
	}
	p.Steps = append(p.Steps, tail)
	return p
}

func TestPropStreamLogs(t *testing.T) { prog.Check(t, "C13", "TestPropStreamLogs", gen, run) }

func TestReplay(t *testing.T) {
	prog.Replay(t, "C13", "TestPropStreamLogs", run)
	prog.Replay(t, "C13", "TestPropFetchHistorical", runHist)
	prog.Replay(t, "C13", "TestPropPackLogs", runPack)
}

// ---- FetchHistoricalLogs ------------------------------------------------------------------

type HistProg struct {
	Blocks   [][]fakeeth.LogSpec `json:"blocks"`
	From     uint64              `json:"from"`
	Follow   uint64              `json:"follow"`
	Batch    uint64              `json:"batch"`
	Head     uint64              `json:"head"`
	GetFault string              `json:"getfault,omitempty"` // fail | kill at the Nth eth_getLogs
	Nth      int                 `json:"nth,omitempty"`
}

func runHist(p HistProg) *prog.Result {
	res := &prog.Result{}
	if p.Batch == 0 {
		p.Batch = 1
	}
	chain := fakeeth.BuildChain(contractAddr, p.Blocks)
	srv, err := fakeeth.New(chain, p.Head)
	if err != nil {
		res.Discard = true
		return res
	}
	defer srv.Close()
	o := &obs{}
	logger, logbuf := newLogger(srv, o)
	ctx, cancel := context.WithCancel(context.Background())
	defer cancel()
	ec, err := executionclient.New(ctx, srv.URL(), contractAddr,
		executionclient.WithLogger(logger),
		executionclient.WithFollowDistance(p.Follow),
		executionclient.WithLogBatchSize(p.Batch),
		executionclient.WithReconnectionInitialInterval(time.Millisecond),
	)
	if err != nil {
		res.Discard = true
		return res
	}
	defer ec.Close()
	switch p.GetFault {
	case "fail":
		srv.FailGetLogs(p.Nth)
	case "kill":
		srv.KillOnGetLogs(p.Nth)
	}
	due := p.Head >= p.Follow && p.Head-p.Follow >= p.From
	logsCh, errCh, err := ec.FetchHistoricalLogs(ctx, p.From)
	failf := func(sig, f string, a ...any) *prog.Result {
		st := srv.Snapshot()
		res.Fail = prog.Failf("C13:hist-"+sig, "%s\n  from=%d follow=%d batch=%d head=%d fault=%s/%d\n  eth_getLogs seen:%s\n  client log:\n%s",
			fmt.Sprintf(f, a...), p.From, p.Follow, p.Batch, p.Head, p.GetFault, p.Nth, renderReqs(st.GetLogs), renderLogs(logbuf))
		return res
	}
	if err != nil {
		if !errors.Is(err, executionclient.ErrNothingToSync) {
			res.Discard = true // eth_blockNumber is never failed by this harness
			return res
		}
		res.Classes = []string{"nothing-to-sync"}
		if due {
			for b := p.From; b <= p.Head-p.Follow; b++ {
				if len(chain.Valid(b)) > 0 {
					return failf("nothing-to-sync-but-due", "ErrNothingToSync although block %d in [%d, %d] emitted logs", b, p.From, p.Head-p.Follow)
				}
			}
		}
		return res
	}
	var entries []stamped
	timeout := time.After(teardownWait)
collect:
	for {
		select {
		case bl, ok := <-logsCh:
			if !ok {
				break collect
			}
			entries = append(entries, stamped{bl: bl})
		case <-timeout: // e.g. the go-ethereum client race described in run(): FilterLogs never returns
			res.Discard = true
			prog.Count("TestPropFetchHistorical", "discard:timeout", 1)
			return res
		}
	}
	var ferr error
	select {
	case ferr = <-errCh:
	case <-time.After(teardownWait):
		res.Discard = true
		prog.Count("TestPropFetchHistorical", "discard:timeout", 1)
		return res
	}
	st := srv.Snapshot()
	var through *uint64
	if ferr == nil && due {
		t := p.Head - p.Follow
		through = &t
	}
	if v := judge(chain, p.From, entries, through); v != nil {
		return failf(v.sig, "%s (fetch error: %v)\n  delivered:\n%s", v.msg, ferr, renderEntries(entries))
	}
	// not covered by the statement, only counted: entries outside [from, head-follow], error reporting
	for _, e := range entries {
		if !due || e.bl.BlockNumber < p.From || e.bl.BlockNumber > p.Head-p.Follow {
			res.Classes = append(res.Classes, "entry-out-of-range")
			break
		}
	}
	if (ferr == nil) != (st.FaultsFired == 0) {
		res.Classes = append(res.Classes, "error-channel-mismatch")
	}
	logBlocks := 0
	for _, e := range entries {
		if len(e.bl.Logs) > 0 {
			logBlocks++
		}
	}
	res.NonTrivial = len(st.GetLogs) >= 2 && logBlocks >= 2
	res.Classes = append(res.Classes, fmt.Sprintf("batches=%d", min(len(st.GetLogs), 6)))
	if st.FaultsFired > 0 {
		res.Classes = append(res.Classes, "fault:"+p.GetFault)
	}
	sort.Strings(res.Classes)
	return res
}

func genHist(t *rapid.T) HistProg {
	p := HistProg{
		From:   rapid.Uint64Range(0, 12).Draw(t, "from"),
		Follow: rapid.Uint64Range(0, 8).Draw(t, "follow"),
		Batch:  rapid.SampledFrom([]uint64{1, 1, 2, 2, 3, 3, 4, 5, 8, 13, 20}).Draw(t, "batch"),
	}
	nblocks := rapid.IntRange(12, 48).Draw(t, "nblocks")
	p.Blocks = make([][]fakeeth.LogSpec, nblocks)
	for i := 1; i < nblocks; i++ {
		p.Blocks[i] = genBlock(t)
	}
	if rapid.IntRange(0, 6).Draw(t, "short") == 0 {
		p.Head = rapid.Uint64Range(0, p.From+p.Follow).Draw(t, "head") // mostly nothing to sync
	} else {
		p.Head = p.From + p.Follow + rapid.Uint64Range(0, uint64(nblocks)).Draw(t, "head")
	}
	if rapid.IntRange(0, 2).Draw(t, "faulty") == 0 && p.Head >= p.Follow && p.Head-p.Follow >= p.From {
		batches := int((p.Head-p.Follow-p.From)/p.Batch) + 1
		p.GetFault = rapid.SampledFrom([]string{"fail", "kill"}).Draw(t, "getfault")
		p.Nth = rapid.IntRange(1, batches).Draw(t, "nth")
	}
	return p
}

func TestPropFetchHistorical(t *testing.T) {
	prog.Check(t, "C13", "TestPropFetchHistorical", genHist, runHist)
}

// ---- PackLogs alone -----------------------------------------------------------------------

type PackProg struct {
	Blocks [][]fakeeth.LogSpec `json:"blocks"`
}

func runPack(p PackProg) *prog.Result {
	res := &prog.Result{}
	chain := fakeeth.BuildChain(contractAddr, p.Blocks)
	var in []ethtypes.Log
	multi := false
	for b := uint64(0); b < chain.Len(); b++ {
		v := chain.Valid(b)
		for i := 1; i < len(v); i++ {
			if v[i].TxIndex == v[i-1].TxIndex {
				multi = true
			}
		}
		in = append(in, v...)
	}
	packed := executionclient.PackLogs(append([]ethtypes.Log(nil), in...))
	var entries []stamped
	for _, bl := range packed {
		entries = append(entries, stamped{bl: bl})
	}
	var through *uint64
	if chain.Len() > 0 {
		t := chain.Len() - 1
		through = &t
	}
	if v := judge(chain, 0, entries, through); v != nil {
		res.Fail = prog.Failf("C13:pack-"+v.sig, "PackLogs on %d canonical logs: %s", len(in), v.msg)
		return res
	}
	for _, e := range entries {
		if len(e.bl.Logs) == 0 {
			res.Fail = prog.Failf("C13:pack-empty-entry", "PackLogs produced an entry without logs for block %d", e.bl.BlockNumber)
			return res
		}
	}
	res.NonTrivial = len(in) > 12 && multi
	return res
}

func genPack(t *rapid.T) PackProg {
	n := rapid.IntRange(1, 30).Draw(t, "nblocks")
	p := PackProg{Blocks: make([][]fakeeth.LogSpec, n)}
	for i := range p.Blocks {
		p.Blocks[i] = genBlock(t)
	}
	return p
}

func TestPropPackLogs(t *testing.T) { prog.Check(t, "C13", "TestPropPackLogs", genPack, runPack) }
