package c08

// "... without ... allocating without bound, before and after any history of previously validated messages": besides
// the per-call allocation bound, what the validator RETAINS must not grow with a history of messages it refuses.
// A case picks one axis along which N otherwise well-formed messages differ (validator keys unknown to the registry,
// arbitrary 48-byte keys, unregistered operators in the envelope, ever new raw garbage) and measures the live heap
// (after two GC cycles) before and after the history. Messages it accepts may legitimately leave per-signer state, so
// only histories in which every message was refused are judged.

import (
	"crypto/sha256"
	"encoding/binary"
	"fmt"
	"os"
	"runtime"
	"sync"
	"testing"
	"time"

	"github.com/herumi/bls-eth-go-binary/bls"

	"pgregory.net/rapid"

	"github.com/bloxapp/ssv/message/validation"
	"github.com/bloxapp/ssv/network/commons"
	ssvtypes "github.com/bloxapp/ssv/protocol/v2/types"

	"verif/harness/internal/prog"
	"verif/harness/internal/valfx"
	"verif/harness/internal/vmsg"
)

type RetProg struct {
	Signed bool   `json:"signed"`
	Axis   string `json:"axis"` // unknown-validators random-keys unregistered-operators raw-garbage
	N      int    `json:"n"`
	Role   int    `json:"role"`
	QType  int    `json:"qtype"`
}

const (
	retConst   = 96 << 10 // allowance independent of the history length (caches that fill once, GC noise)
	retPerMsgB = 24       // allowance per refused message, bytes
)

// The node keeps one process-wide, bounded cache that IS keyed by network input: protocol/v2/types.DeserializeBLSPublicKey
// remembers up to 128 000 deserialized validator keys (about 280 bytes each) and validation deserializes the key of
// every message id. Bounded, hence allowed; to keep it out of the measurement it is filled to capacity once per
// process (every later key evicts an older one).
var fillKeyCache = sync.OnceFunc(func() {
	const capacity = 128_000
	workers := runtime.NumCPU()
	var wg sync.WaitGroup
	for w := 0; w < workers; w++ {
		wg.Add(1)
		go func(w int) {
			defer wg.Done()
			for i := w; i < capacity+64; i += workers {
				var b [32]byte
				binary.LittleEndian.PutUint64(b[:], uint64(i)+1)
				b[20] = 0x5a
				sk := &bls.SecretKey{}
				if err := sk.SetLittleEndian(b[:]); err != nil {
					panic(err)
				}
				if _, err := ssvtypes.DeserializeBLSPublicKey(sk.GetPublicKey().Serialize()); err != nil {
					panic(err)
				}
			}
		}(w)
	}
	wg.Wait()
})

func liveHeap() uint64 {
	// objects with finalizers (the RSA verifier wraps OpenSSL handles) are only freed by the collection AFTER the one
	// that ran their finalizer, and finalizers run on their own goroutine, which may lag on a busy machine: collect and
	// yield until the reading has been stable three times in a row, and take the lowest reading
	var ms runtime.MemStats
	best, stable := ^uint64(0), 0
	for i := 0; i < 60 && stable < 3; i++ {
		runtime.GC()
		time.Sleep(5 * time.Millisecond)
		runtime.ReadMemStats(&ms)
		if ms.HeapAlloc+2048 < best {
			best, stable = ms.HeapAlloc, 0
		} else {
			stable++
		}
	}
	return best
}

func runRet(p RetProg) *prog.Result {
	res := &prog.Result{}
	env := valfx.NewEnv(p.Signed)
	env.AddDuties(4)
	fillKeyCache()
	base := vmsg.Spec{Topic: "right", EnvSig: "valid", SigKind: "ok", PSigKind: "ok", Just: "none", RecvRelMs: 4000, Role: p.Role, SSVType: "consensus",
		QType: p.QType, Round: 1, Signers: []uint64{1}, EnvOp: 1, Val: 5}
	if p.QType == 0 {
		base.Leader, base.Value = true, "A-value"
	}
	build := func(i int) (string, []byte) {
		s := base
		switch p.Axis {
		case "unknown-validators":
			s.PKAlt = valfx.DetPK(i)
		case "random-keys":
			h := sha256.Sum256([]byte(fmt.Sprintf("verif-key-%d", i)))
			s.PKAlt = append(h[:], h[:16]...)
		case "unregistered-operators":
			s.Val = 0
			s.EnvOp = uint64(1000 + i)
			s.EnvSig = "rogue"
		case "raw-garbage":
			h := sha256.Sum256([]byte(fmt.Sprintf("verif-raw-%d", i)))
			return commons.Topics()[i%128], append(h[:], h[:]...)
		}
		topic, data, _ := s.Build(env, p.Signed)
		return topic, data
	}
	recv := env.NetCfg.Beacon.GetSlotStartTime(env.Slot0()).Add(4e9)
	env.Clock.Set(recv)
	// pre-build the inputs so that the builder's own garbage is not measured
	type in struct {
		topic string
		data  []byte
	}
	// the first N messages warm up whatever fills once (lazy tables of the crypto libraries, caches keyed by the
	// registry's operators and validators); the growth is measured over the second N
	ins := make([]in, 2*p.N)
	for i := range ins {
		ins[i].topic, ins[i].data = build(i)
	}
	accepted := 0
	feed := func(x in) {
		if _, _, err := validation.ValidateP2PMessageAt(env.MV, valfx.PMsg(x.topic, x.data), recv); err == nil {
			accepted++
		}
	}
	for _, x := range ins[:p.N] {
		feed(x)
	}
	before := liveHeap()
	for _, x := range ins[p.N:] {
		feed(x)
	}
	after := liveHeap()
	runtime.KeepAlive(ins)
	runtime.KeepAlive(env)
	grown := int64(after) - int64(before)
	if os.Getenv("VERIF_DEBUG") != "" {
		fmt.Printf("RET axis=%s signed=%v n=%d accepted=%d grown=%d per=%.1f\n", p.Axis, p.Signed, p.N, accepted, grown, float64(grown)/float64(p.N))
	}
	res.Classes = []string{"axis=" + p.Axis, fmt.Sprintf("signed=%v", p.Signed), fmt.Sprintf("all-refused=%v", accepted == 0)}
	if accepted > 0 {
		return res // accepted messages may leave per-signer state: not judged
	}
	res.NonTrivial = true
	prog.Count("TestPropRetainedState", "refused_messages", p.N)
	if lim := int64(retConst + retPerMsgB*p.N); grown > lim {
		res.Fail = prog.Failf("C08:retained-state-grows-with-refused-history:"+p.Axis, "after %d refused messages (axis %s, signed=%v) the live heap grew by %d bytes = %.0f bytes per message (allowance %d + %d per message): the validator retains state for messages it refuses",
			p.N, p.Axis, p.Signed, grown, float64(grown)/float64(p.N), retConst, retPerMsgB)
	}
	return res
}

func genRet(t *rapid.T) RetProg {
	p := RetProg{Signed: rapid.IntRange(0, 2).Draw(t, "signed") == 0,
		Axis:  rapid.SampledFrom([]string{"unknown-validators", "unknown-validators", "random-keys", "unregistered-operators", "raw-garbage"}).Draw(t, "axis"),
		N:     rapid.SampledFrom([]int{2500, 5000}).Draw(t, "n"),
		Role:  rapid.SampledFrom([]int{0, 1, 2, 3, 4}).Draw(t, "role"),
		QType: rapid.IntRange(0, 3).Draw(t, "qtype")}
	if p.Axis == "unregistered-operators" {
		p.Signed = true // the envelope operator only exists in signed mode
	}
	return p
}

func TestPropRetainedState(t *testing.T) {
	prog.Check(t, "C08", "TestPropRetainedState", genRet, runRet)
}

func TestReplayRetained(t *testing.T) { prog.Replay(t, "C08", "TestPropRetainedState", runRet) }
