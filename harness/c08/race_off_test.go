//go:build !race

package c08

const raceEnabled = false
