package c08

import (
	"context"
	"encoding/json"
	"fmt"
	"github.com/bloxapp/ssv/network/peers"
	operatordatastore "github.com/bloxapp/ssv/operator/datastore"
	registrystorage "github.com/bloxapp/ssv/registry/storage"
	"github.com/ethereum/go-ethereum/p2p/enr"
	"os"
	"runtime"
	"sort"
	"strings"
	"testing"
	"time"

	spectypes "github.com/bloxapp/ssv-spec/types"
	pubsub "github.com/libp2p/go-libp2p-pubsub"
	"github.com/libp2p/go-libp2p/core/crypto"
	"github.com/libp2p/go-libp2p/core/peer"
	"github.com/libp2p/go-libp2p/core/record"
	"pgregory.net/rapid"

	"github.com/bloxapp/ssv/message/validation"
	"github.com/bloxapp/ssv/network/commons"
	"github.com/bloxapp/ssv/network/records"
	"github.com/bloxapp/ssv/protocol/v2/ssv/queue"

	"verif/harness/internal/prog"
	"verif/harness/internal/valfx"
	"verif/harness/internal/vmsg"
)

func TestMain(m *testing.M) { prog.Main(m) }

// ---- validation: any input, after any history ------------------------------------------------------

type Input struct {
	Spec     *vmsg.Spec `json:"spec,omitempty"`
	Raw      []byte     `json:"raw,omitempty"`
	RawTopic string     `json:"raw_topic,omitempty"`
}

type Prog struct {
	Signed bool    `json:"signed"`
	Own    string  `json:"own,omitempty"` // the node's own-operator store (WithOwnOperatorID): "" none, not-ready, member, outsider
	Inputs []Input `json:"inputs"`
}

// ownOpts builds the validator options for the node-side configuration: cli/operator always wires an operator data
// store in; it is not ready on an exporter or on an operator that is not registered yet.
func ownOpts(own string) []validation.Option {
	switch own {
	case "not-ready":
		return []validation.Option{validation.WithOwnOperatorID(operatordatastore.New(nil))}
	case "member":
		return []validation.Option{validation.WithOwnOperatorID(operatordatastore.New(&registrystorage.OperatorData{ID: 2}))}
	case "outsider":
		return []validation.Option{validation.WithOwnOperatorID(operatordatastore.New(&registrystorage.OperatorData{ID: 99}))}
	}
	return nil
}

var genOwn = rapid.SampledFrom([]string{"", "", "not-ready", "not-ready", "member", "outsider"})

// returns runs f on its own goroutine and reports whether it returned within the allowance (a call that waits for
// something the input cannot provide never does; the goroutine is left behind).
func returns(f func()) bool {
	done := make(chan struct{})
	go func() { defer close(done); f() }()
	select {
	case <-done:
		return true
	case <-time.After(20 * time.Second):
		return false
	}
}

// allocation allowance per call: c*len(input)+C (bytes)
const allocPerByte, allocConst = 256, 4 << 20

func allocated(f func()) uint64 {
	var a, b runtime.MemStats
	runtime.ReadMemStats(&a)
	f()
	runtime.ReadMemStats(&b)
	return b.TotalAlloc - a.TotalAlloc
}

var maxAllocRatio float64

func run(p Prog) *prog.Result {
	res := &prog.Result{}
	env := valfx.NewEnv(p.Signed, ownOpts(p.Own)...)
	env.AddDuties(16)                                 // proposer / sync-committee duties registered: those roles' messages get past the duty rule
	env2 := valfx.NewEnv(p.Signed, ownOpts(p.Own)...) // for the ValidatePubsubMessage wrapper (it reads the wall clock)
	classes := map[string]bool{}
	deep := 0
	for i, in := range p.Inputs {
		var topic string
		var data []byte
		recv := env.Clock.Now()
		if in.Spec != nil {
			topic, data, recv = in.Spec.Build(env, p.Signed)
		} else {
			topic, data = in.RawTopic, in.Raw
		}
		if recv.After(env.Clock.Now()) && recv.Before(env.Clock.Now().Add(400*24*time.Hour)) {
			env.Clock.Set(recv) // virtual "now" follows reception times, forward only
		}
		var verr error
		var sig, detail string
		returned := true
		n := allocated(func() {
			returned = returns(func() {
				r := prog.Guard(func() *prog.Result {
					_, _, verr = validation.ValidateP2PMessageAt(env.MV, valfx.PMsg(topic, data), recv)
					return &prog.Result{}
				})
				if r.Fail != nil {
					sig, detail = r.Fail.Sig, r.Fail.Msg
				}
			})
		})
		if !returned {
			st := goroutineDump()
			if !parkedInValidation(st) {
				res.Discard = true // slow machine, not a structural hang
				return res
			}
			res.Fail = prog.Failf("C08:validation-hang", "input #%d (len %d, own-operator store %q): validation had not returned after 20 s and is parked on a lock / condition:\n%s", i, len(data), p.Own, firstStacks(st))
			return res
		}
		if sig != "" {
			res.Fail = prog.Failf(sig, "input #%d (len %d) panicked inside validation:\n%s", i, len(data), detail)
			return res
		}
		if lim := uint64(allocPerByte*len(data) + allocConst); n > lim {
			res.Fail = prog.Failf("C08:alloc-unbounded", "input #%d of %d bytes made validation allocate %d bytes (allowance %d)", i, len(data), n, lim)
			return res
		}
		class := validation.ErrorClass(verr)
		text := validation.ErrorText(verr)
		if verr != nil && text == "" {
			text = "untyped: " + strings.SplitN(verr.Error(), ":", 2)[0]
		}
		if verr == nil {
			text = "accepted"
		}
		classes["r:"+text] = true
		switch text {
		case "accepted", "signer has already advanced to a later slot", "signer has already advanced to a later round", "too many messages of same type per round",
			"early message", "late message", "message round is too far from estimated", "round is too high for this role", "signer is not leader",
			"root doesn't match full data hash", "invalid justifications", "duplicated proposal with different data", "too many duties per epoch",
			"no duty for this epoch", "no duty for this epoch (ignored)", "signers are not sorted", "signer is duplicated", "signer is not in committee",
			"decided signers size is not between quorum and committee size", "non-decided with multiple signers", "no partial messages",
			"duplicated partial signature message", "signer is not expected", "partial signature type and role don't match", "unknown partial signature message type",
			"unknown QBFT message type", "zero signature", "wrong signature size", "zero signer ID", "signature verification", "operator not found",
			"malformed prepare justifications", "malformed round change justifications", "prepare justifications unexpected for this message type",
			"round change justifications unexpected for this message type", "unexpected consensus message for this role", "no signers":
			deep++ // got past envelope / SSZ decoding into consensus / partial-signature validation
		}
		_ = class
		// the real entry point (wall-clock reception time) on a second validator: only "no panic, result is one of three"
		r := prog.Guard(func() *prog.Result {
			vr := env2.MV.ValidatePubsubMessage(context.Background(), peer.ID("p"), valfx.PMsg(topic, data))
			if vr != pubsub.ValidationAccept && vr != pubsub.ValidationIgnore && vr != pubsub.ValidationReject {
				return &prog.Result{Fail: prog.Failf("C08:bad-result", "ValidatePubsubMessage returned %v", vr)}
			}
			return &prog.Result{}
		})
		if r.Fail != nil {
			res.Fail = prog.Failf(r.Fail.Sig, "input #%d: ValidatePubsubMessage: %s", i, r.Fail.Msg)
			return res
		}
	}
	res.NonTrivial = deep > 0
	for c := range classes {
		res.Classes = append(res.Classes, c)
	}
	sort.Strings(res.Classes)
	return res
}

// ---- generators ---------------------------------------------------------------------------------

func boundaryU64(t *rapid.T, label string, extra ...uint64) uint64 {
	vals := append([]uint64{0, 1, 2, 3, 4, 5, 6, 7, 8, 11, 12, 13, 14, 1 << 31, 1<<63 - 1, 1 << 63, 1<<63 + 1, 1<<64 - 1}, extra...)
	if rapid.IntRange(0, 3).Draw(t, label+"_any") == 0 {
		return rapid.Uint64().Draw(t, label)
	}
	return rapid.SampledFrom(vals).Draw(t, label)
}

func genSigners(t *rapid.T) []uint64 {
	switch rapid.IntRange(0, 9).Draw(t, "signers_shape") {
	case 0:
		return nil
	case 1, 2, 3, 4:
		return []uint64{uint64(rapid.IntRange(0, 8).Draw(t, "signer"))}
	case 5:
		return []uint64{1, 2, 3}
	case 6:
		return []uint64{1, 2, 3, 4}
	case 7:
		return rapid.SliceOfN(rapid.Uint64Range(0, 14), 0, 13).Draw(t, "signers")
	case 8:
		return []uint64{1, 2, 3, 4, 5, 6, 7, 8, 9, 10, 11, 12, 13}
	default:
		return []uint64{boundaryU64(t, "bigsigner")}
	}
}

func genMuts(t *rapid.T, label string) []vmsg.ByteMut {
	if rapid.IntRange(0, 3).Draw(t, label+"_on") != 0 {
		return nil
	}
	return rapid.SliceOfN(rapid.Custom(func(t *rapid.T) vmsg.ByteMut {
		return vmsg.ByteMut{Off: rapid.IntRange(0, 600).Draw(t, "off"), Xor: rapid.SampledFrom([]byte{1, 0x80, 0xff, 0x7f, 4}).Draw(t, "xor")}
	}), 1, 4).Draw(t, label)
}

// genSpec starts from a message the validator accepts and applies 0-3 deviations, so that most inputs get
// deep into validation and histories of accepted messages build up; a tenth of the inputs is all-random.
func genSpec(t *rapid.T) *vmsg.Spec {
	if rapid.IntRange(0, 9).Draw(t, "wild") == 0 {
		return genWild(t)
	}
	s := &vmsg.Spec{Topic: "right", EnvSig: "valid", SigKind: "ok", PSigKind: "ok", Just: "none", RecvRelMs: 4000}
	s.Val = rapid.SampledFrom([]int{0, 0, 0, 1, 6, 7}).Draw(t, "val") // committees 4, 7, 10, 13
	s.Role = rapid.SampledFrom([]int{0, 0, 0, 1, 1, 2, 3, 4}).Draw(t, "role")
	s.SlotRel = int64(rapid.IntRange(0, 3).Draw(t, "slotrel"))
	if rapid.IntRange(0, 3).Draw(t, "slot_any") == 0 {
		s.SlotRel = int64(rapid.IntRange(0, 14).Draw(t, "slotrel_any")) // every height residue modulo the committee size
	}
	s.Round = uint64(rapid.IntRange(1, 3).Draw(t, "round"))
	if rapid.IntRange(0, 3).Draw(t, "round_any") == 0 {
		// later rounds, received when they are current (quick rounds of 2 s up to round 8, then 2 min each)
		s.Round = uint64(rapid.IntRange(4, 12).Draw(t, "round_late"))
		if s.Round <= 8 {
			s.RecvRelMs = int64(s.Round-1)*2000 + 500
		} else {
			s.RecvRelMs = 16000 + int64(s.Round-9)*120000 + 500
		}
	}
	n := valfx.CommitteeSize(s.Val)
	signer := uint64(rapid.IntRange(1, n).Draw(t, "signer"))
	s.EnvOp = signer
	if rapid.IntRange(0, 9).Draw(t, "nonbeacon") == 0 {
		// validator registration / voluntary exit: partial signatures only
		s.Role = rapid.SampledFrom([]int{5, 6}).Draw(t, "nbrole")
	}
	if s.Role >= 5 || rapid.IntRange(0, 3).Draw(t, "ispartial") == 0 {
		s.SSVType = "partial"
		s.PSigner, s.PCount = signer, 1
		s.PType = 0
		// the pre-consensus type that goes with the role, half of the time
		pre := map[int]int{1: 2, 2: 1, 4: 3, 5: 4, 6: 5}
		if pt, ok := pre[s.Role]; ok && (s.Role >= 5 || rapid.Bool().Draw(t, "preconsensus")) {
			s.PType = pt
		}
	} else {
		s.SSVType = "consensus"
		s.QType = rapid.IntRange(0, 3).Draw(t, "qtype")
		s.Signers = []uint64{signer}
		switch s.QType {
		case 0:
			s.Leader = true
			s.Value = rapid.SampledFrom([]string{"A-value", "B-value"}).Draw(t, "value")
			if s.Round > 1 {
				s.Just = "rc-quorum"
			}
		case 2:
			if rapid.IntRange(0, 2).Draw(t, "decided") == 0 {
				s.Signers = nil
				for i := 1; i <= n-(n-1)/3; i++ {
					s.Signers = append(s.Signers, uint64(i))
				}
				s.Value = "A-value"
			}
		}
	}
	w := genWild(t)
	for k := rapid.SampledFrom([]int{0, 0, 1, 1, 1, 2, 3}).Draw(t, "ndev"); k > 0; k-- {
		switch rapid.IntRange(0, 21).Draw(t, "dev") {
		case 0:
			s.Val = w.Val
		case 1:
			s.Role = w.Role
		case 2:
			s.SSVType = w.SSVType
		case 3:
			s.QType = w.QType
		case 4:
			s.HeightAbs, s.SlotRel = w.HeightAbs, w.SlotRel
		case 5:
			s.Round = w.Round
		case 6:
			s.Signers, s.Leader = w.Signers, false
		case 7:
			s.Value = w.Value
		case 8:
			s.BadRoot = true
		case 9:
			s.Just = w.Just
		case 10:
			s.SigKind = w.SigKind
		case 11:
			s.PType = w.PType
		case 12:
			s.PSigner = w.PSigner
		case 13:
			s.PCount = w.PCount
		case 14:
			s.PInner, s.PDupRoot = w.PInner, w.PDupRoot
		case 15:
			s.PSigKind = w.PSigKind
		case 16:
			s.EnvOp = w.EnvOp
		case 17:
			s.EnvSig = w.EnvSig
		case 18:
			s.Topic, s.TopicN = w.Topic, w.TopicN
		case 19:
			s.RecvRelMs = w.RecvRelMs
		case 20:
			s.InnerMuts = genMuts(t, "innerdev")
		case 21:
			s.DomainX = true
		}
	}
	return s
}

func genWild(t *rapid.T) *vmsg.Spec {
	s := &vmsg.Spec{}
	s.Val = rapid.SampledFrom([]int{0, 0, 0, 0, 1, 1, 2, 3, 4, 5, 6, 7}).Draw(t, "wval")
	s.Role = rapid.SampledFrom([]int{0, 0, 0, 1, 2, 3, 4, 5, 6, 7, 200}).Draw(t, "wrole")
	s.SSVType = rapid.SampledFrom([]string{"consensus", "consensus", "consensus", "partial", "partial", "event", "dkg", "unknown"}).Draw(t, "wssvtype")
	s.DomainX = rapid.IntRange(0, 20).Draw(t, "wdomx") == 0
	s.QType = rapid.SampledFrom([]int{0, 0, 1, 2, 2, 3, 3, 4, 255}).Draw(t, "wqtype")
	if rapid.IntRange(0, 2).Draw(t, "whabs") == 0 {
		h := boundaryU64(t, "wheight")
		s.HeightAbs = &h
	} else {
		s.SlotRel = int64(rapid.SampledFrom([]int{0, 0, 0, 1, 2, 3, 4, 8, 31, 32, 33, 35, -1, -2, -40, 64, 1000}).Draw(t, "wslotrel"))
	}
	s.Round = boundaryU64(t, "wround")
	s.Signers = genSigners(t)
	s.Value = rapid.SampledFrom([]string{"", "A-value", "A-value", "B-value", strings.Repeat("x", 300)}).Draw(t, "wvalue")
	s.BadRoot = rapid.IntRange(0, 6).Draw(t, "wbadroot") == 0
	s.Just = rapid.SampledFrom([]string{"none", "none", "none", "garbage", "nested", "prepares", "rc-prepares"}).Draw(t, "wjust")
	s.SigKind = rapid.SampledFrom([]string{"ok", "ok", "ok", "ok", "zero", "short", "long", "empty"}).Draw(t, "wsigkind")
	s.PType = rapid.SampledFrom([]int{0, 0, 1, 2, 3, 4, 5, 6, 99}).Draw(t, "wptype")
	s.PSigner = uint64(rapid.IntRange(0, 8).Draw(t, "wpsigner"))
	s.PCount = rapid.SampledFrom([]int{0, 1, 1, 1, 2, 13, 14}).Draw(t, "wpcount")
	if rapid.IntRange(0, 5).Draw(t, "wpinner_on") == 0 {
		v := uint64(rapid.IntRange(0, 8).Draw(t, "wpinner"))
		s.PInner = &v
	}
	s.PDupRoot = rapid.IntRange(0, 6).Draw(t, "wpdup") == 0
	s.PSigKind = rapid.SampledFrom([]string{"ok", "ok", "ok", "zero", "short"}).Draw(t, "wpsigkind")
	s.EnvOp = rapid.SampledFrom([]uint64{1, 1, 1, 2, 3, 4, 7, 13, 14, 15, 15, 16, 0, 1<<64 - 1}).Draw(t, "wenvop") // 14 unregistered; 15, 16 registered with a malformed key
	s.EnvSig = rapid.SampledFrom([]string{"valid", "valid", "valid", "valid", "other", "rogue", "garbage", "stale"}).Draw(t, "wenvsig")
	s.Topic = rapid.SampledFrom([]string{"right", "right", "right", "right", "right", "right", "wrong", "garbage", "empty"}).Draw(t, "wtopic")
	s.TopicN = rapid.IntRange(0, 127).Draw(t, "wtopicn")
	s.RecvRelMs = int64(rapid.SampledFrom([]int{4000, 4000, 4000, 0, 100, 8000, 12000, 30000, 400000, -1000, -13000, 5000000}).Draw(t, "wrecv"))
	s.InnerMuts = genMuts(t, "winner")
	s.OuterMuts = genMuts(t, "wouter")
	return s
}

// boundaryLen draws lengths around the sizes the decoders branch on (signature 256, envelope header 264, SSZ fixed parts).
func boundaryLen(t *rapid.T) int {
	base := rapid.SampledFrom([]int{0, 4, 8, 56, 60, 64, 96, 256, 264, 324, 512}).Draw(t, "blen")
	return base + rapid.IntRange(-2, 9).Draw(t, "bdelta")
}

func genInput(t *rapid.T) Input {
	switch rapid.IntRange(0, 9).Draw(t, "inkind") {
	case 1:
		n := boundaryLen(t)
		if n < 0 {
			n = 0
		}
		return Input{Raw: rapid.SliceOfN(rapid.Byte(), n, n).Draw(t, "braw"), RawTopic: commons.Topics()[rapid.IntRange(0, 127).Draw(t, "brawtopic")]}
	case 0:
		return Input{Raw: rapid.SliceOfN(rapid.Byte(), 0, rapid.SampledFrom([]int{4, 70, 300, 1200}).Draw(t, "rawmax")).Draw(t, "raw"),
			RawTopic: commons.Topics()[rapid.IntRange(0, 127).Draw(t, "rawtopic")]}
	default:
		return Input{Spec: genSpec(t)}
	}
}

func gen(t *rapid.T) Prog {
	p := Prog{Signed: rapid.Bool().Draw(t, "signed"), Own: genOwn.Draw(t, "own")}
	n := rapid.IntRange(1, 16).Draw(t, "ninputs")
	for i := 0; i < n; i++ {
		var earlier []int
		for j, in := range p.Inputs {
			if in.Spec != nil {
				earlier = append(earlier, j)
			}
		}
		if len(earlier) > 0 && rapid.IntRange(0, 3).Draw(t, "again") == 0 {
			// an earlier message once more: as it was, from the next signer, in the next round, or through another operator's envelope
			c := *p.Inputs[rapid.SampledFrom(earlier).Draw(t, "again_which")].Spec
			switch rapid.IntRange(0, 4).Draw(t, "again_how") {
			case 1:
				if c.SSVType == "partial" {
					c.PSigner++
				} else if len(c.Signers) == 1 {
					c.Signers = []uint64{c.Signers[0] + 1}
				}
				c.EnvOp++
			case 2:
				c.Round++
			case 3:
				c.EnvOp = rapid.SampledFrom([]uint64{1, 2, 15, 16}).Draw(t, "again_env")
			}
			p.Inputs = append(p.Inputs, Input{Spec: &c})
			continue
		}
		p.Inputs = append(p.Inputs, genInput(t))
	}
	return p
}

func TestPropValidateNoCrash(t *testing.T) { prog.Check(t, "C08", "TestPropValidateNoCrash", gen, run) }

// ---- concurrent validation must not hang -----------------------------------------------------------------

type ConcProg struct {
	Signed  bool        `json:"signed"`
	Own     string      `json:"own,omitempty"`
	Specs   []vmsg.Spec `json:"specs"`
	Workers int         `json:"workers"`
}

// runConc validates the inputs from several goroutines at once (same and different message ids). A hang is judged
// structurally: after a generous wait every unfinished worker must be parked on a mutex inside message validation.
func runConc(p ConcProg) *prog.Result {
	res := &prog.Result{NonTrivial: len(p.Specs) >= 2}
	env := valfx.NewEnv(p.Signed, ownOpts(p.Own)...)
	env.AddDuties(16)
	type in struct {
		topic string
		data  []byte
		recv  time.Time
	}
	var ins []in
	for i := range p.Specs {
		tp, d, r := p.Specs[i].Build(env, p.Signed)
		ins = append(ins, in{tp, d, r})
	}
	done := make(chan string, len(ins)*p.Workers)
	start := make(chan struct{})
	total := 0
	for w := 0; w < p.Workers; w++ {
		for _, x := range ins {
			total++
			go func(x in) {
				<-start
				r := prog.Guard(func() *prog.Result {
					validation.ValidateP2PMessageAt(env.MV, valfx.PMsg(x.topic, x.data), x.recv)
					return &prog.Result{}
				})
				if r.Fail != nil {
					done <- r.Fail.Sig + "\n" + r.Fail.Msg
				} else {
					done <- ""
				}
			}(x)
		}
	}
	close(start)
	deadline := time.After(20 * time.Second)
	for got := 0; got < total; got++ {
		select {
		case f := <-done:
			if f != "" {
				res.Fail = prog.Failf("C08:panic-under-concurrency", "%s", f)
				return res
			}
		case <-deadline:
			st := goroutineDump()
			if parkedInValidation(st) {
				res.Fail = prog.Failf("C08:validation-hang", "%d of %d concurrent validations returned no verdict within 20 s; unfinished goroutines are parked on a lock / condition inside message validation:\n%s", total-got, total, firstStacks(st))
			} else {
				res.Discard = true // slow machine, not a structural hang
			}
			return res
		}
	}
	return res
}

func goroutineDump() string {
	buf := make([]byte, 1<<20)
	return string(buf[:runtime.Stack(buf, true)])
}

// parkedInValidation: some goroutine is inside message validation and blocked on a synchronisation primitive (a
// structural hang, as opposed to a slow machine, where the goroutines are runnable or running).
func parkedInValidation(st string) bool {
	for _, g := range strings.Split(st, "\n\n") {
		if !strings.Contains(g, "message/validation.(*messageValidator)") {
			continue
		}
		head := strings.SplitN(g, "\n", 2)[0]
		for _, w := range []string{"sync.Mutex.Lock", "sync.RWMutex", "sync.Cond.Wait", "semacquire", "chan receive", "chan send", "select"} {
			if strings.Contains(head, w) {
				return true
			}
		}
	}
	return false
}

func firstStacks(st string) string {
	var out []string
	for _, g := range strings.Split(st, "\n\n") {
		if strings.Contains(g, "message/validation") {
			out = append(out, g)
		}
		if len(out) == 3 {
			break
		}
	}
	return strings.Join(out, "\n\n")
}

func genConc(t *rapid.T) ConcProg {
	p := ConcProg{Signed: rapid.Bool().Draw(t, "signed"), Own: genOwn.Draw(t, "own"), Workers: rapid.IntRange(2, 4).Draw(t, "workers")}
	if raceEnabled {
		p.Signed = false
	}
	n := rapid.IntRange(2, 6).Draw(t, "nspecs")
	for i := 0; i < n; i++ {
		p.Specs = append(p.Specs, *genSpec(t))
	}
	return p
}

func TestPropValidateConcurrentNoHang(t *testing.T) {
	prog.Check(t, "C08", "TestPropValidateConcurrentNoHang", genConc, runConc)
}

// ---- decoders -------------------------------------------------------------------------------------

type DecProg struct {
	Target string `json:"target"`
	Data   []byte `json:"data"`
}

type rawRecord struct {
	payload []byte
	signed  bool
}

func (r *rawRecord) Domain() string { return "ssv" }
func (r *rawRecord) Codec() []byte {
	if r.signed {
		return (&records.SignedNodeInfo{NodeInfo: &records.NodeInfo{}}).Codec()
	}
	return (&records.NodeInfo{}).Codec()
}
func (r *rawRecord) MarshalRecord() ([]byte, error) { return r.payload, nil }
func (r *rawRecord) UnmarshalRecord([]byte) error   { return nil }

var sealKey = func() crypto.PrivKey {
	k, _, err := crypto.GenerateSecp256k1Key(strings.NewReader(strings.Repeat("verif-deterministic-seed", 8)))
	if err != nil {
		panic(err)
	}
	return k
}()

func runDec(p DecProg) *prog.Result {
	res := &prog.Result{}
	var decodedOK bool
	n := allocated(func() {
		switch p.Target {
		case "signed-envelope":
			_, _, _, err := commons.DecodeSignedSSVMessage(p.Data)
			decodedOK = err == nil
		case "network-msg":
			m, err := commons.DecodeNetworkMsg(p.Data)
			if err == nil && m != nil {
				_, err2 := queue.DecodeSSVMessage(m)
				decodedOK = err2 == nil
			}
		case "ssv-consensus", "ssv-partial", "ssv-event":
			mt := map[string]spectypes.MsgType{"ssv-consensus": spectypes.SSVConsensusMsgType, "ssv-partial": spectypes.SSVPartialSignatureMsgType, "ssv-event": 200}[p.Target]
			_, err := queue.DecodeSSVMessage(&spectypes.SSVMessage{MsgType: mt, Data: p.Data})
			decodedOK = err == nil
		case "node-info-record":
			decodedOK = (&records.NodeInfo{}).UnmarshalRecord(p.Data) == nil
		case "signed-node-info-record":
			decodedOK = (&records.SignedNodeInfo{}).UnmarshalRecord(p.Data) == nil
		case "node-info-consume":
			decodedOK = (&records.NodeInfo{}).Consume(p.Data) == nil
		case "signed-node-info-consume":
			decodedOK = (&records.SignedNodeInfo{}).Consume(p.Data) == nil
		case "node-info-sealed", "signed-node-info-sealed":
			signed := p.Target == "signed-node-info-sealed"
			ev, err := record.Seal(&rawRecord{payload: p.Data, signed: signed}, sealKey)
			if err != nil {
				return
			}
			b, err := ev.Marshal()
			if err != nil {
				return
			}
			if signed {
				decodedOK = (&records.SignedNodeInfo{}).Consume(b) == nil
			} else {
				decodedOK = (&records.NodeInfo{}).Consume(b) == nil
			}
		case "subnets":
			_, err := records.Subnets{}.FromString(string(p.Data))
			decodedOK = err == nil
		case "handshake-subnets":
			// the subnets string of a peer's handshake payload (NodeInfo.Metadata.Subnets), decoded and then put through
			// what the connection layer does with a peer's vector (handshaker.updateNodeSubnets -> subnets index;
			// connHandler.sharesEnoughSubnets; conn manager scoring), this node being subscribed to all / some subnets
			theirs, err := records.Subnets{}.FromString(string(p.Data))
			if err != nil {
				return
			}
			decodedOK = true
			for _, mineStr := range []string{records.AllSubnets, "00000000000000000000000000000001", "80000000000000000000000000000000"} {
				mine, _ := records.Subnets{}.FromString(mineStr)
				_ = records.SharedSubnets(mine, theirs, 1)
				_ = records.SharedSubnets(theirs, mine, len(mine))
				_ = records.SharedSubnets(mine, theirs, 0)
				_ = records.DiffSubnets(mine, theirs)
				_ = records.DiffSubnets(theirs, mine)
			}
			_ = theirs.String()
			_ = theirs.Active()
			_ = theirs.Clone()
			idx := peers.NewSubnetsIndex(commons.Subnets())
			idx.UpdatePeerSubnets("peer-a", theirs)
			_ = idx.GetPeerSubnets("peer-a")
			_ = idx.GetSubnetsStats()
			idx.UpdatePeerSubnets("peer-a", records.Subnets{})
		case "enr-entries":
			// a remote node's ENR (the remote chooses the entries; discovery's checkPeer reads them): first byte = length of the
			// "domaintype" entry (>= 0x80: entry absent), second byte = length of the "subnets" entry (>= 0x80: absent)
			var rec enr.Record
			d := p.Data
			take := func() ([]byte, bool) {
				if len(d) == 0 || d[0] >= 0x80 {
					if len(d) > 0 {
						d = d[1:]
					}
					return nil, false
				}
				n := int(d[0]) % 40
				d = d[1:]
				if n > len(d) {
					n = len(d)
				}
				v := d[:n]
				d = d[n:]
				return v, true
			}
			if v, ok := take(); ok {
				rec.Set(enr.WithEntry("domaintype", v))
			}
			if v, ok := take(); ok {
				rec.Set(enr.WithEntry("subnets", v))
			}
			_, err1 := records.GetDomainTypeEntry(&rec)
			_, err2 := records.GetSubnetsEntry(&rec)
			decodedOK = err1 == nil && err2 == nil
		default:
			panic("unknown target " + p.Target)
		}
	})
	if lim := uint64(allocPerByte*len(p.Data) + allocConst); n > lim {
		res.Fail = prog.Failf("C08:alloc-unbounded-"+p.Target, "%d input bytes made %s allocate %d bytes (allowance %d)", len(p.Data), p.Target, n, lim)
		return res
	}
	res.NonTrivial = decodedOK
	res.Classes = []string{p.Target, fmt.Sprintf("%s ok=%v", p.Target, decodedOK)}
	return res
}

var decTargets = []string{"signed-envelope", "network-msg", "ssv-consensus", "ssv-partial", "ssv-event", "node-info-record", "signed-node-info-record",
	"node-info-consume", "signed-node-info-consume", "node-info-sealed", "signed-node-info-sealed", "subnets", "handshake-subnets", "enr-entries"}

func genEntries(t *rapid.T) []byte {
	n := rapid.IntRange(0, 8).Draw(t, "nentries")
	es := make([]string, n)
	for i := range es {
		es[i] = rapid.OneOf(
			rapid.SampledFrom([]string{"", "0", "-1", "9223372036854775807", "99999999999999999999", "AAAA", "!!!!", "{}", `{"NodeVersion":"v","ExecutionNode":"e","ConsensusNode":"c","Subnets":"ffffffffffffffffffffffffffffffff"}`, `{"Entries":[]}`, `{"Entries":["","net"]}`, `{"Entries":["","net","{}"]}`, `{"Entries":["","net","{\"Subnets\":\"zz\"}"]}`}),
			rapid.StringN(0, 40, 60),
		).Draw(t, "entry")
	}
	b, _ := json.Marshal(map[string]any{"Entries": es})
	return b
}

func genDec(t *rapid.T) DecProg {
	p := DecProg{Target: rapid.SampledFrom(decTargets).Draw(t, "target")}
	structured := rapid.Bool().Draw(t, "structured")
	switch {
	case structured && strings.Contains(p.Target, "node-info") && !strings.HasSuffix(p.Target, "consume"):
		p.Data = genEntries(t)
	case structured && strings.HasPrefix(p.Target, "ssv-"):
		// a valid encoding, byte-mutated
		env := valfx.NewEnv(false)
		s := genSpec(t)
		s.SSVType = map[string]string{"ssv-consensus": "consensus", "ssv-partial": "partial", "ssv-event": "event"}[p.Target]
		_, data, _ := s.Build(env, false)
		if m, err := commons.DecodeNetworkMsg(data); err == nil {
			p.Data = m.Data
		}
	case structured && (p.Target == "subnets" || p.Target == "handshake-subnets"):
		p.Data = []byte(rapid.StringMatching(`(0x)?[0-9a-fA-Fg]{0,40}`).Draw(t, "hex"))
	case structured && p.Target == "enr-entries":
		dl := rapid.SampledFrom([]int{0, 1, 3, 4, 4, 5, 8, 0x80}).Draw(t, "dtlen")
		sl := rapid.SampledFrom([]int{0, 1, 15, 16, 16, 17, 32, 0x80}).Draw(t, "snlen")
		p.Data = append([]byte{byte(dl)}, rapid.SliceOfN(rapid.Byte(), dl%0x80, dl%0x80).Draw(t, "dt")...)
		p.Data = append(p.Data, byte(sl))
		p.Data = append(p.Data, rapid.SliceOfN(rapid.Byte(), sl%0x80, sl%0x80).Draw(t, "sn")...)
	case rapid.IntRange(0, 2).Draw(t, "bl") == 0:
		n := boundaryLen(t)
		if n < 0 {
			n = 0
		}
		p.Data = rapid.SliceOfN(rapid.Byte(), n, n).Draw(t, "bdata")
	default:
		p.Data = rapid.SliceOfN(rapid.Byte(), 0, rapid.SampledFrom([]int{3, 40, 300, 2000}).Draw(t, "max")).Draw(t, "data")
	}
	return p
}

func TestPropDecodersNoCrash(t *testing.T) {
	prog.Check(t, "C08", "TestPropDecodersNoCrash", genDec, runDec)
}

// FuzzValidateBytes: coverage-guided search over raw pubsub bytes (thorough tier). The oracle is the same
// run(): no panic, bounded allocation, result in {accept, ignore, reject}; a crasher is written as a program.
func FuzzValidateBytes(f *testing.F) {
	env := valfx.NewEnv(false)
	for i, s := range []*vmsg.Spec{
		{SSVType: "consensus", QType: 0, Leader: true, Round: 1, Value: "A-value", SigKind: "ok", Topic: "right", RecvRelMs: 4000},
		{SSVType: "consensus", QType: 0, Leader: true, Round: 0, Value: "A-value", SigKind: "ok", Topic: "right", RecvRelMs: 4000},
		{SSVType: "consensus", QType: 3, Signers: []uint64{2}, Round: 2, SigKind: "ok", Just: "rc-prepares", Topic: "right", RecvRelMs: 4000},
		{SSVType: "consensus", QType: 2, Signers: []uint64{1, 2, 3}, Round: 1, Value: "A-value", SigKind: "ok", Topic: "right", RecvRelMs: 4000},
		{SSVType: "partial", PSigner: 1, PCount: 2, PSigKind: "ok", SigKind: "ok", Topic: "right", RecvRelMs: 4000},
		{SSVType: "partial", Role: 2, PType: 1, PSigner: 1, PCount: 1, PSigKind: "ok", SigKind: "ok", Topic: "right", RecvRelMs: 4000},
	} {
		_, data, _ := s.Build(env, false)
		f.Add(data, uint8(i), false)
		_, data, _ = s.Build(env, true)
		f.Add(data, uint8(i), true)
	}
	f.Fuzz(func(t *testing.T, data []byte, topic uint8, signed bool) {
		tp := valfx.Topic(env.Vals[0].PK)
		if topic >= 128 {
			tp = commons.Topics()[topic%128]
		}
		prog.CheckOne(t, "C08", "TestPropValidateNoCrash", Prog{Signed: signed, Inputs: []Input{{Raw: data, RawTopic: tp}}}, run)
	})
}

func FuzzDecoders(f *testing.F) {
	f.Add([]byte(`{"Entries":["","net","{}"]}`), uint8(5))
	f.Add([]byte(`{"Entries":["YQ==","Yg==","1","pk","c2ln","{\"Entries\":[\"\",\"net\"]}"]}`), uint8(6))
	f.Add([]byte("0xffffffffffffffffffffffffffffffff"), uint8(11))
	f.Fuzz(func(t *testing.T, data []byte, target uint8) {
		prog.CheckOne(t, "C08", "TestPropDecodersNoCrash", DecProg{Target: decTargets[int(target)%len(decTargets)], Data: data}, runDec)
	})
}

func TestReplay(t *testing.T) {
	prog.Replay(t, "C08", "TestPropValidateNoCrash", run)
	prog.Replay(t, "C08", "TestPropDecodersNoCrash", runDec)
	prog.Replay(t, "C08", "TestPropValidateConcurrentNoHang", runConc)
}

var _ = os.Getenv
