package c02

import (
	"bytes"
	"fmt"
	"sort"
	"testing"

	specqbft "github.com/bloxapp/ssv-spec/qbft"
	spectypes "github.com/bloxapp/ssv-spec/types"
	"github.com/bloxapp/ssv-spec/types/testingutils"
	"github.com/herumi/bls-eth-go-binary/bls"
	"go.uber.org/zap"
	"pgregory.net/rapid"

	"github.com/bloxapp/ssv/protocol/v2/qbft/controller"

	"verif/harness/internal/fx"
	"verif/harness/internal/prog"
	"verif/harness/internal/qbftsim"
)

func TestMain(m *testing.M) { prog.Main(m) }

// validCert is the certificate predicate written from the statement, independent of the code under test:
// a commit-type message for the expected identifier whose signers are non-empty, non-zero, pairwise distinct
// committee members, at least 2f+1 of them, whose aggregate BLS signature verifies for exactly those members over
// my own recomputation of the signing root, and whose full data hashes to the signed root.
func validCert(ks *testingutils.TestKeySet, identifier []byte, m *specqbft.SignedMessage) (bool, string) {
	if m == nil {
		return false, "nil"
	}
	if m.Message.MsgType != specqbft.CommitMsgType {
		return false, "not a commit"
	}
	if !bytes.Equal(m.Message.Identifier, identifier) {
		return false, "identifier"
	}
	if len(m.Signers) == 0 {
		return false, "no signers"
	}
	seen := map[spectypes.OperatorID]bool{}
	var pks []bls.PublicKey
	for _, s := range m.Signers {
		if s == 0 {
			return false, "zero signer"
		}
		if seen[s] {
			return false, "repeated signer"
		}
		seen[s] = true
		sk, ok := ks.Shares[s]
		if !ok {
			return false, "foreign signer"
		}
		pks = append(pks, *sk.GetPublicKey())
	}
	if uint64(len(m.Signers)) < ks.Threshold {
		return false, "fewer than 2f+1 signers"
	}
	root, err := spectypes.ComputeSigningRoot(&m.Message, spectypes.ComputeSignatureDomain(fx.Domain, spectypes.QBFTSignatureType))
	if err != nil {
		return false, "signing root: " + err.Error()
	}
	var sig bls.Sign
	if err := sig.Deserialize(m.Signature); err != nil {
		return false, "signature does not deserialize"
	}
	if !sig.FastAggregateVerify(pks, root[:]) {
		return false, "aggregate signature does not verify for the listed signers"
	}
	if h, _ := specqbft.HashDataRoot(m.FullData); h != m.Message.Root {
		return false, "H(full data) != root"
	}
	return true, ""
}

// ---- 1. monitor on simulated executions -------------------------------------------------------------

func runMonitor(p qbftsim.Prog) *prog.Result {
	res := &prog.Result{}
	s := qbftsim.New(p)
	certs, local := 0, 0
	savesSeen := map[spectypes.OperatorID]int{}
	fail := func(sig, f string, a ...any) bool {
		res.Fail = prog.Failf("C02:"+sig, f+"\nlog:\n%s", append(a, s.Dump())...)
		return false
	}
	check := func(ev *qbftsim.Event) bool {
		o := s.Ops[ev.Op]
		if ev.Returned != nil {
			certs++
			if ok, why := validCert(s.KS, s.ID, ev.Returned); !ok {
				return fail("returned-decided-without-certificate", "op%d returned a decided message that is not a quorum certificate (%s): %s", ev.Op, why, qbftsim.Describe(ev.Returned))
			}
			if ev.Kind == "deliver" && len(s.Pool[ev.Pool].Msg.Signers) == 1 {
				// decision reached locally by counting commits: value check + legitimate leader's proposal
				local++
				if err := fx.ValueCheck(ev.Returned.FullData); err != nil {
					return fail("local-decision-invalid-value", "op%d decided locally on a value that fails its own value check", ev.Op)
				}
				leaderOK := false
				for _, pm := range s.Pool {
					m := pm.Msg
					if m.Message.MsgType == specqbft.ProposalMsgType && m.Message.Height == ev.Returned.Message.Height && m.Message.Round == ev.Returned.Message.Round && m.Message.Root == ev.Returned.Message.Root &&
						len(m.Signers) == 1 && uint64(m.Signers[0]) == leaderOf(p, ev.Returned.Message.Height, ev.Returned.Message.Round) {
						leaderOK = true
					}
				}
				if !leaderOK {
					return fail("local-decision-without-leader-proposal", "op%d decided locally in round %d on %s but no proposal for it by the round's leader op%d was ever sent",
						ev.Op, ev.Returned.Message.Round, qbftsim.RootName(ev.Returned.Message.Root), leaderOf(p, ev.Returned.Message.Height, ev.Returned.Message.Round))
				}
			}
		}
		// a flip to decided without a returned certificate must still be backed by one in the commit container
		if ev.After.Decided && !ev.Before.Decided && ev.Returned == nil {
			return fail("decided-flip-without-certificate", "op%d's instance became decided but ProcessMsg returned no decided message", ev.Op)
		}
		for _, sv := range o.Store.Saves[savesSeen[ev.Op]:] {
			certs++
			if ok, why := validCert(s.KS, s.ID, sv.Instance.DecidedMessage); !ok {
				return fail("stored-instance-without-certificate", "op%d stored (%s) an instance whose decided message is not a quorum certificate (%s)", ev.Op, sv.Kind, why)
			}
			if !sv.Instance.State.Decided || !bytes.Equal(sv.Instance.State.DecidedValue, sv.Instance.DecidedMessage.FullData) {
				return fail("stored-instance-state-mismatch", "op%d stored an instance whose state (decided=%v) does not match its certificate", ev.Op, sv.Instance.State.Decided)
			}
		}
		savesSeen[ev.Op] = len(o.Store.Saves)
		return true
	}
	for _, op := range p.Ops {
		s.Step(op, check)
		if res.Fail != nil {
			return res
		}
	}
	res.NonTrivial = certs > 0 && (s.MaxRound > 1 || s.ByzAccepted > 0)
	res.Classes = []string{fmt.Sprintf("certs>0=%v", certs > 0), fmt.Sprintf("local-decisions>0=%v", local > 0), fmt.Sprintf("learnt>0=%v", s.LearntDecided > 0), fmt.Sprintf("verify=%v", p.Verify)}
	return res
}

func leaderOf(p qbftsim.Prog, height specqbft.Height, round specqbft.Round) uint64 {
	n := uint64(p.N)
	return (uint64(height)%n+uint64(round)%n+n-1)%n + 1
}

func genMonitor(t *rapid.T) qbftsim.Prog {
	v := true
	return qbftsim.Gen(t, qbftsim.GenOpts{Ns: []int{4, 4, 7}, MaxOps: 40, VerifyOnly: &v, NetFaults: true})
}

func TestPropCertMonitor(t *testing.T) {
	prog.Check(t, "C02", "TestPropCertMonitor", genMonitor, runMonitor)
}

// genMonitorDirected: the maximum number of Byzantine operators and, in every script slot, one of the Byzantine
// strategy scripts (equivocation, lock split, lock split + early decision, invalid-later, replay across heights,
// commit faults, commit impersonation, type confusion), over several heights.
func genMonitorDirected(t *rapid.T) qbftsim.Prog {
	v := true
	return qbftsim.Gen(t, qbftsim.GenOpts{Ns: []int{4, 4, 4, 7}, MaxOps: 30, VerifyOnly: &v, MultiHeight: true, NetFaults: true, ForceByz: true, Directed: true})
}

func TestPropCertMonitorDirected(t *testing.T) {
	prog.Check(t, "C02", "TestPropCertMonitorDirected", genMonitorDirected, runMonitor)
}

func genMonitorBig(t *rapid.T) qbftsim.Prog {
	v := true
	return qbftsim.Gen(t, qbftsim.GenOpts{Ns: []int{7, 10, 13}, MaxOps: 60, VerifyOnly: &v, NetFaults: true, ForceByz: true})
}

func TestPropCertMonitorBig(t *testing.T) {
	prog.Check(t, "C02", "TestPropCertMonitorBig", genMonitorBig, runMonitor)
}

// ---- 2. forgery search ------------------------------------------------------------------------------

type Mut struct {
	K string `json:"k"`
	A int    `json:"a,omitempty"`
}

type ForgeProg struct {
	N       int      `json:"n"`
	Self    int      `json:"self"`
	Height  uint64   `json:"height"` // controller's current height
	State   string   `json:"state"`  // fresh running decided
	CertH   int      `json:"cert_h"` // certificate height = Height + CertH
	Round   uint64   `json:"round"`
	Value   string   `json:"value"`
	Signers []uint64 `json:"signers"` // who really signs (committee members)
	Muts    []Mut    `json:"muts"`
	Full    bool     `json:"full_node"`
}

func buildCert(ks *testingutils.TestKeySet, id []byte, height specqbft.Height, round specqbft.Round, value []byte, signers []uint64) *specqbft.SignedMessage {
	msg := &specqbft.Message{MsgType: specqbft.CommitMsgType, Height: height, Round: round, Identifier: id, Root: qbftsim.Root(value)}
	var parts []*specqbft.SignedMessage
	for _, s := range signers {
		parts = append(parts, fx.Sign(ks, spectypes.OperatorID(s), msg))
	}
	agg := fx.Aggregate(parts)
	agg.FullData = value
	return agg
}

func runForge(p ForgeProg) *prog.Result {
	res := &prog.Result{}
	ks := fx.KeySet(p.N)
	mid := fx.Identifier(ks, spectypes.BNRoleAttester)
	id := mid[:]
	logger := zap.NewNop()
	mk := func() (*controller.Controller, *fx.MemStore) {
		st := fx.NewMemStore()
		c := controller.NewController(id, fx.Share(ks, spectypes.OperatorID(p.Self)), fx.NodeConfig(&fx.Net{}, &fx.Timer{}, st, true), p.Full)
		h := specqbft.Height(p.Height)
		switch p.State {
		case "running":
			if err := c.StartNewInstance(logger, h, qbftsim.Values["A"]); err != nil {
				panic(err)
			}
		case "decided":
			if err := c.StartNewInstance(logger, h, qbftsim.Values["A"]); err != nil {
				panic(err)
			}
			all := []uint64{}
			for i := 1; i <= int(ks.Threshold); i++ {
				all = append(all, uint64(i))
			}
			if r, err := c.ProcessMsg(logger, buildCert(ks, id, h, 1, qbftsim.Values["A"], all)); err != nil || r == nil {
				panic(fmt.Sprintf("setup: valid certificate refused: %v", err))
			}
		}
		return c, st
	}
	certH := int64(p.Height) + int64(p.CertH)
	if certH < 0 {
		certH = 0
	}
	height := specqbft.Height(certH)
	value := qbftsim.Values[p.Value]
	cert := buildCert(ks, id, height, specqbft.Round(p.Round), value, p.Signers)
	twin := buildCert(ks, id, height, specqbft.Round(p.Round), value, p.Signers) // unmutated
	for _, m := range p.Muts {
		switch m.K {
		case "dup-signer":
			if len(cert.Signers) > 1 {
				cert.Signers[m.A%len(cert.Signers)] = cert.Signers[(m.A+1)%len(cert.Signers)]
			}
		case "append-dup":
			if len(cert.Signers) > 0 {
				cert.Signers = append(cert.Signers, cert.Signers[m.A%len(cert.Signers)])
			}
		case "insert-zero":
			cert.Signers = append([]spectypes.OperatorID{0}, cert.Signers...)
		case "replace-zero":
			if len(cert.Signers) > 0 {
				cert.Signers[m.A%len(cert.Signers)] = 0
			}
		case "foreign":
			if len(cert.Signers) > 0 {
				cert.Signers[m.A%len(cert.Signers)] = spectypes.OperatorID(p.N + 1 + m.A%3)
			}
		case "append-unsigned": // claims one more member than signed
			for s := 1; s <= p.N; s++ {
				has := false
				for _, x := range cert.Signers {
					has = has || x == spectypes.OperatorID(s)
				}
				if !has {
					cert.Signers = append(cert.Signers, spectypes.OperatorID(s))
					break
				}
			}
		case "swap-signer": // lists a member that did not sign instead of one that did
			for s := 1; s <= p.N; s++ {
				has := false
				for _, x := range cert.Signers {
					has = has || x == spectypes.OperatorID(s)
				}
				if !has && len(cert.Signers) > 0 {
					cert.Signers[m.A%len(cert.Signers)] = spectypes.OperatorID(s)
					break
				}
			}
		case "reorder":
			sort.Slice(cert.Signers, func(i, j int) bool { return cert.Signers[i] > cert.Signers[j] })
		case "rotate":
			if len(cert.Signers) > 1 {
				cert.Signers = append(cert.Signers[1:], cert.Signers[0])
			}
		case "sig-garbage":
			cert.Signature = bytes.Repeat([]byte{byte(m.A + 1)}, 96)
		case "sig-flip":
			cert.Signature[m.A%len(cert.Signature)] ^= 1
		case "sig-other-msg":
			other := cert.Message
			other.Round++
			var parts []*specqbft.SignedMessage
			for _, s := range p.Signers {
				parts = append(parts, fx.Sign(ks, spectypes.OperatorID(s), &other))
			}
			if len(parts) > 0 {
				cert.Signature = fx.Aggregate(parts).Signature
			}
		case "fulldata-flip":
			if len(cert.FullData) > 0 {
				cert.FullData = append([]byte(nil), cert.FullData...)
				cert.FullData[m.A%len(cert.FullData)] ^= 1
			}
		case "fulldata-other":
			cert.FullData = qbftsim.Values["C"]
		case "fulldata-drop":
			cert.FullData = nil
		case "root-flip":
			cert.Message.Root[m.A%32] ^= 1
		case "height":
			cert.Message.Height += specqbft.Height(1 + m.A%2)
		case "round":
			cert.Message.Round += specqbft.Round(1 + m.A%3)
		case "identifier":
			x := append([]byte(nil), cert.Message.Identifier...)
			x[m.A%len(x)] ^= 1
			cert.Message.Identifier = x
		case "type":
			cert.Message.MsgType = specqbft.MessageType(m.A % 4)
		}
	}
	valid, why := validCert(ks, id, cert)

	accepted := func(c *controller.Controller, st *fx.MemStore, m *specqbft.SignedMessage) (bool, string) {
		h := m.Message.Height
		before := false
		if inst := c.StoredInstances.FindInstance(h); inst != nil {
			before = inst.State.Decided && bytes.Equal(inst.State.DecidedValue, m.FullData)
		}
		nSaves := len(st.Saves)
		ret, err := c.ProcessMsg(logger, m)
		how := ""
		if ret != nil {
			how += " returned-decided"
		}
		if inst := c.StoredInstances.FindInstance(h); inst != nil && inst.State.Decided && bytes.Equal(inst.State.DecidedValue, m.FullData) && !before {
			how += " instance-flipped"
		}
		if len(st.Saves) > nSaves {
			how += " stored"
		}
		_ = err
		return how != "", how
	}
	c, st := mk()
	acc, how := accepted(c, st, cert)
	if acc && !valid {
		res.Fail = prog.Failf("C02:forged-certificate-accepted", "controller (state=%s height=%d full=%v) accepted [%s] a decided message that is not a certificate: %s\nsigners=%v really-signed-by=%v muts=%+v",
			p.State, p.Height, p.Full, how, why, cert.Signers, p.Signers, p.Muts)
		return res
	}
	c2, st2 := mk()
	twinAcc, _ := accepted(c2, st2, twin)
	twinValid, _ := validCert(ks, id, twin)
	res.Classes = []string{fmt.Sprintf("state=%s", p.State), fmt.Sprintf("valid=%v accepted=%v", valid, acc), fmt.Sprintf("twin valid=%v accepted=%v", twinValid, twinAcc)}
	// non-trivial: the unmutated twin is a valid certificate this controller state accepts, and the mutant was refused
	// (or the mutant is itself valid and accepted in a non-initial state)
	res.NonTrivial = (twinValid && twinAcc && !valid && !acc) || (valid && acc && p.State != "fresh")
	return res
}

var mutKinds = []string{"dup-signer", "append-dup", "insert-zero", "replace-zero", "foreign", "append-unsigned", "swap-signer", "reorder", "rotate", "sig-garbage", "sig-flip",
	"sig-other-msg", "fulldata-flip", "fulldata-other", "fulldata-drop", "root-flip", "height", "round", "identifier", "type"}

func genForge(t *rapid.T) ForgeProg {
	n := rapid.SampledFrom([]int{4, 4, 7, 10, 13}).Draw(t, "n")
	q := int(fx.KeySet(n).Threshold)
	p := ForgeProg{N: n, Self: rapid.IntRange(1, n).Draw(t, "self"), Height: uint64(rapid.IntRange(0, 6).Draw(t, "height")),
		State: rapid.SampledFrom([]string{"fresh", "running", "running", "decided"}).Draw(t, "state"),
		CertH: rapid.SampledFrom([]int{0, 0, 0, 0, 1, 3, -1, -2}).Draw(t, "certh"),
		Round: uint64(rapid.SampledFrom([]int{1, 1, 1, 2, 3, 7, 0}).Draw(t, "round")),
		Value: rapid.SampledFrom([]string{"A", "A", "B", "X"}).Draw(t, "value"),
		Full:  rapid.Bool().Draw(t, "full")}
	cnt := rapid.SampledFrom([]int{q, q, q, q + 1, n, q - 1, q - 1, 2, 1}).Draw(t, "nsigners")
	if cnt > n {
		cnt = n
	}
	if cnt < 1 {
		cnt = 1
	}
	ids := rapid.SliceOfNDistinct(rapid.IntRange(1, n), cnt, cnt, rapid.ID[int]).Draw(t, "signers")
	sort.Ints(ids)
	for _, i := range ids {
		p.Signers = append(p.Signers, uint64(i))
	}
	nm := rapid.SampledFrom([]int{0, 1, 1, 1, 1, 2, 3}).Draw(t, "nmuts")
	for i := 0; i < nm; i++ {
		p.Muts = append(p.Muts, Mut{K: rapid.SampledFrom(mutKinds).Draw(t, "mut"), A: rapid.IntRange(0, 50).Draw(t, "arg")})
	}
	return p
}

func TestPropCertForgery(t *testing.T) {
	prog.Check(t, "C02", "TestPropCertForgery", genForge, runForge)
}

func TestReplay(t *testing.T) {
	prog.Replay(t, "C02", "TestPropCertMonitor", runMonitor)
	prog.Replay(t, "C02", "TestPropCertMonitorBig", runMonitor)
	prog.Replay(t, "C02", "TestPropCertMonitorDirected", runMonitor)
	prog.Replay(t, "C02", "TestPropCertForgery", runForge)
}
