package c09

import (
	"fmt"
	"sort"
	"strings"
	"sync"
	"testing"

	spectypes "github.com/bloxapp/ssv-spec/types"
	"pgregory.net/rapid"

	"github.com/bloxapp/ssv/message/validation"

	"verif/harness/internal/prog"
	"verif/harness/internal/valfx"
	"verif/harness/internal/vmsg"
)

func TestMain(m *testing.M) { prog.Main(m) }

// ---- program ------------------------------------------------------------------------------------

type Prog struct {
	Signed bool        `json:"signed"`
	Prefix []vmsg.Spec `json:"prefix"` // honest messages validated first by both validators
	Base   vmsg.Spec   `json:"base"`   // honest message: the unmutated twin
	Rule   string      `json:"rule"`   // the one rule the mutant breaks
	Arg    int         `json:"arg"`
}

const slotMs = 12000

func committeeSize(val int) int { return valfx.CommitteeSize(val) }

// recvFor is a reception time (relative to the slot start) at which an honest message of the given round fits
// the round window with a round to spare: quick rounds last 2 s up to round 8, then 2 min each.
func recvFor(round uint64) int64 {
	switch {
	case round <= 2:
		return 4000
	case round <= 8:
		return int64(round-1)*2000 + 500
	default:
		return 16000 + int64(round-9)*120000 + 500
	}
}
func quorum(val int) int { n := committeeSize(val); return n - (n-1)/3 }

func kindOf(s *vmsg.Spec) string {
	if s.SSVType == "partial" {
		return "partial"
	}
	switch s.QType {
	case 0:
		return "proposal"
	case 1:
		return "prepare"
	case 2:
		if len(s.Signers) > 1 {
			return "decided"
		}
		return "commit"
	case 3:
		return "rc"
	}
	return "?"
}

// ---- the independent predicate: what the statement allows, evaluated on the message description -------------

type hist struct {
	slot  int64
	round uint64
	kind  string
	data  string
}

type model struct {
	signed bool
	h      map[string][]hist // key val/role/signer
}

func key(val, role int, signer uint64) string { return fmt.Sprintf("%d/%d/%d", val, role, signer) }

func roleMaxRound(role int) uint64 {
	switch spectypes.BeaconRole(role) {
	case spectypes.BNRoleAttester, spectypes.BNRoleAggregator:
		return 12
	default:
		return 6
	}
}

// allowed says whether the statement permits accepting s given what the same signers had accepted before.
// Window rules are only judged on inputs clearly outside the window ("" = allowed or not judged).
func (m *model) allowed(s *vmsg.Spec) string {
	if !valfx.IsActive(s.Val) {
		return "validator is not known / active / non-liquidated"
	}
	if s.Topic != "right" {
		return "sent on another topic than the validator's"
	}
	if m.signed {
		if s.EnvSig != "valid" {
			return "operator signature does not verify over exactly the payload"
		}
		if s.EnvOp < 1 || s.EnvOp > 13 {
			return "envelope operator is not registered"
		}
	}
	n := committeeSize(s.Val)
	// clearly outside the slot window
	if s.RecvRelMs <= -2*slotMs {
		return "clearly too early for its slot"
	}
	late := int64(0)
	switch spectypes.BeaconRole(s.Role) {
	case spectypes.BNRoleProposer, spectypes.BNRoleSyncCommittee, spectypes.BNRoleSyncCommitteeContribution:
		late = (3 + 3) * slotMs
	case spectypes.BNRoleAttester, spectypes.BNRoleAggregator:
		late = (34 + 3) * slotMs
	}
	if late > 0 && s.RecvRelMs >= late {
		return "clearly too late for its slot"
	}
	if s.SSVType == "partial" {
		if s.PSigner == 0 || int(s.PSigner) > n {
			return "partial-signature signer is not a committee member"
		}
		return ""
	}
	if len(s.Signers) == 0 && !s.Leader {
		return "no signers"
	}
	signers := s.Signers
	if !s.Leader {
		for i, x := range signers {
			if x == 0 || int(x) > n {
				return "signer is zero or not a committee member"
			}
			if i > 0 && signers[i-1] >= x {
				return "signers not sorted / not distinct"
			}
		}
		if len(signers) > 1 && !(s.QType == 2 && len(signers) >= quorum(s.Val) && len(signers) <= n) {
			return "more than one signer on something that is not a quorum-sized commit"
		}
	}
	if s.Value != "" && s.BadRoot {
		return "attached full data does not match the root"
	}
	if s.Round > roleMaxRound(s.Role) {
		return "round beyond the role's maximum"
	}
	if s.RecvRelMs >= 0 && s.RecvRelMs < 14000 { // quick rounds of 2 s: estimated round = 1 + elapsed/2 s; one round of slack allowed
		est := uint64(1 + s.RecvRelMs/2000)
		if s.Round >= est+1+2 {
			return "round clearly beyond the round window"
		}
	}
	if s.Round == 0 {
		return "round 0"
	}
	return ""
}

// historyAllows applies the per-signer limits of the statement to a consensus message.
func (m *model) historyAllows(s *vmsg.Spec, signers []uint64, slot int64) string {
	if s.SSVType != "consensus" {
		return ""
	}
	k := kindOf(s)
	for _, sg := range signers {
		for _, e := range m.h[key(s.Val, s.Role, sg)] {
			switch {
			case e.slot > slot:
				return fmt.Sprintf("signer %d goes back in slot", sg)
			case e.slot == slot && e.kind != "partial" && e.round > s.Round:
				return fmt.Sprintf("signer %d goes back in round", sg)
			case e.slot == slot && e.round == s.Round && e.kind == k && k != "decided":
				return fmt.Sprintf("second %s of signer %d in one round", k, sg)
			}
		}
	}
	return ""
}

func (m *model) record(s *vmsg.Spec, signers []uint64, slot int64) {
	for _, sg := range signers {
		kk := key(s.Val, s.Role, sg)
		m.h[kk] = append(m.h[kk], hist{slot, s.Round, kindOf(s), s.Value})
	}
}

func signersOf(e *valfx.Env, s *vmsg.Spec) []uint64 {
	if s.SSVType == "partial" {
		return []uint64{s.PSigner}
	}
	if s.Leader {
		return []uint64{uint64(s.LeaderID(e))}
	}
	return s.Signers
}

// ---- interpreter --------------------------------------------------------------------------------------

type side struct {
	env *valfx.Env
	mdl *model
}

func newSide(signed bool) *side {
	e := valfx.NewEnv(signed)
	e.AddDuties(32)
	return &side{env: e, mdl: &model{signed: signed, h: map[string][]hist{}}}
}

// validate runs one message through the real validator and the predicate; returns (accepted, violation).
func (sd *side) validate(s *vmsg.Spec, signed bool) (bool, string, *prog.Failure) {
	topic, data, recv := s.Build(sd.env, signed)
	if recv.After(sd.env.Clock.Now()) {
		sd.env.Clock.Set(recv)
	}
	_, _, err := validation.ValidateP2PMessageAt(sd.env.MV, valfx.PMsg(topic, data), recv)
	acc := err == nil
	txt := validation.ErrorText(err)
	if err != nil && txt == "" {
		txt = err.Error()
	}
	slot := int64(s.Slot(sd.env))
	sg := signersOf(sd.env, s)
	if acc {
		why := sd.mdl.allowed(s)
		if why == "" {
			why = sd.mdl.historyAllows(s, sg, slot)
		}
		if why != "" {
			return acc, txt, prog.Failf("C09:accepted-rule-breaking:"+sigOf(why), "validator accepted a %s message although: %s\nmessage: %+v", kindOf(s), why, *s)
		}
		sd.mdl.record(s, sg, slot)
	}
	return acc, txt, nil
}

func sigOf(why string) string {
	out := []rune{}
	for _, r := range why {
		switch {
		case r >= 'a' && r <= 'z':
			out = append(out, r)
		case r == ' ' || r == '/':
			out = append(out, '-')
		}
	}
	s := string(out)
	for len(s) > 0 && s[len(s)-1] == '-' {
		s = s[:len(s)-1]
	}
	if len(s) > 48 {
		s = s[:48]
	}
	return s
}

// mutate applies rule to base: pre-messages (sent to the mutant's validator only) and the mutant.
func mutate(rule string, base vmsg.Spec, arg int) ([]vmsg.Spec, vmsg.Spec) {
	m := base
	n := committeeSize(base.Val)
	var pre []vmsg.Spec
	switch rule {
	case "unknown-validator":
		m.Val = 5
	case "liquidated-validator":
		m.Val = 2
	case "metadata-less-validator":
		m.Val = 3
	case "non-attesting-validator":
		m.Val = 4
	case "wrong-topic":
		m.Topic, m.TopicN = "wrong", arg
	case "signature-over-other-bytes":
		m.EnvSig = "stale"
	case "signature-by-another-operator":
		m.EnvSig = "other"
	case "unregistered-operator":
		m.EnvOp, m.EnvSig = 14, "rogue"
	case "signers-unsorted":
		m.Signers = append([]uint64(nil), m.Signers...)
		sort.Slice(m.Signers, func(i, j int) bool { return m.Signers[i] > m.Signers[j] })
	case "signers-duplicated":
		m.Signers = append([]uint64(nil), m.Signers...)
		m.Signers[len(m.Signers)-1] = m.Signers[len(m.Signers)-2]
	case "signer-zero":
		m.Leader = false
		if len(m.Signers) > 1 {
			m.Signers = append([]uint64{0}, m.Signers[1:]...)
		} else {
			m.Signers = []uint64{0}
		}
	case "signer-foreign":
		m.Leader = false
		m.Signers = append([]uint64(nil), m.Signers...)
		if len(m.Signers) == 0 {
			m.Signers = []uint64{0}
		}
		m.Signers[len(m.Signers)-1] = uint64(n + 1 + arg%3)
	case "two-signers-non-commit":
		m.Leader = false
		m.Signers = []uint64{1, 2}
	case "subquorum-commit":
		m.Signers = m.Signers[:2]
	case "non-leader-proposal":
		m.Leader = false
		ld := uint64(0)
		// any committee member but the leader
		e := valfx.NewEnv(false)
		ld = uint64(base.LeaderID(e))
		m.Signers = []uint64{(ld-1+1+uint64(arg%(n-1)))%uint64(n) + 1}
		m.EnvOp = m.Signers[0]
	case "fulldata-mismatch":
		m.BadRoot = true
	case "attached-fulldata-mismatch": // prepare / commit carrying full data that does not hash to its root
		m.Value, m.BadRoot = "junk-full-data", true
	case "slot-too-early":
		m.RecvRelMs = -int64(3+arg%3) * slotMs
	case "slot-too-late":
		m.RecvRelMs = int64(45+arg%10) * slotMs
	case "round-beyond-window":
		m.Round = uint64(6 + arg%3)
		m.RecvRelMs = 4000
		m.Leader = m.QType == 0
		if m.QType == 0 {
			m.Just = "rc-quorum"
		}
	case "round-beyond-role-max":
		m.Round = roleMaxRound(m.Role) + 1 + uint64(arg%3)
		m.RecvRelMs = 4000
		if m.QType == 0 {
			m.Just = "rc-quorum"
		}
	case "slot-regression", "round-regression":
		// an earlier accepted message of the same signer for a later slot / round. For proposals the leader
		// rotates with slot and round, so the earlier message is a prepare by the base's leader.
		p := base
		if p.QType == 0 {
			ld := uint64(base.LeaderID(valfx.NewEnv(false)))
			p.QType, p.Leader, p.Signers, p.Value, p.Just, p.EnvOp = 1, false, []uint64{ld}, "", "none", ld
		}
		if rule == "slot-regression" {
			p.SlotRel++
		} else {
			p.Round++
		}
		pre = append(pre, p)
	case "duplicate":
		pre = append(pre, base)
	case "second-proposal-different-data":
		p := base
		p.Value = "other-value"
		pre = append(pre, p)
	case "partial-signer-foreign":
		m.PSigner = uint64(n + 1 + arg%3)
		v := m.PSigner
		m.PInner = &v
	case "partial-signer-zero":
		m.PSigner = 0
		v := uint64(0)
		m.PInner = &v
	}
	return pre, m
}

func rulesFor(base *vmsg.Spec, signed bool) []string {
	r := []string{"unknown-validator", "liquidated-validator", "metadata-less-validator", "non-attesting-validator", "wrong-topic", "slot-too-early"}
	switch spectypes.BeaconRole(base.Role) {
	case spectypes.BNRoleAttester, spectypes.BNRoleAggregator, spectypes.BNRoleProposer, spectypes.BNRoleSyncCommittee, spectypes.BNRoleSyncCommitteeContribution:
		r = append(r, "slot-too-late")
	}
	if signed {
		r = append(r, "signature-over-other-bytes", "signature-by-another-operator", "unregistered-operator")
	}
	if base.SSVType == "partial" {
		return append(r, "partial-signer-foreign", "partial-signer-zero")
	}
	r = append(r, "signer-zero", "signer-foreign", "round-beyond-window", "round-beyond-role-max", "slot-regression", "round-regression")
	switch kindOf(base) {
	case "decided":
		r = append(r, "signers-unsorted", "signers-duplicated", "subquorum-commit", "fulldata-mismatch")
	case "proposal":
		r = append(r, "non-leader-proposal", "fulldata-mismatch", "two-signers-non-commit", "duplicate", "second-proposal-different-data")
	case "rc":
		r = append(r, "two-signers-non-commit", "duplicate")
		if base.Value != "" {
			r = append(r, "fulldata-mismatch")
		}
	default:
		r = append(r, "two-signers-non-commit", "duplicate", "attached-fulldata-mismatch")
	}
	return r
}

func run(p Prog) *prog.Result {
	res := &prog.Result{}
	mut, twin := newSide(p.Signed), newSide(p.Signed)
	for i := range p.Prefix {
		for _, sd := range []*side{mut, twin} {
			if _, _, f := sd.validate(&p.Prefix[i], p.Signed); f != nil {
				res.Fail = f
				return res
			}
		}
	}
	pre, m := mutate(p.Rule, p.Base, p.Arg)
	preOK := true
	for i := range pre {
		acc, _, f := mut.validate(&pre[i], p.Signed)
		if f != nil {
			res.Fail = f
			return res
		}
		preOK = preOK && acc
	}
	interleaved := "none"
	if len(pre) > 0 && pre[0].SSVType == "consensus" {
		// history rules: something harmless between the earlier message and the rule-breaking one must not make the
		// validator forget what the signer already sent. Its own acceptance is not required.
		last := pre[len(pre)-1]
		signer := uint64(0)
		if sg := signersOf(mut.env, &last); len(sg) > 0 {
			signer = sg[0]
		}
		var mid *vmsg.Spec
		switch (p.Arg / 7) % 4 {
		case 1: // the same signer's post-consensus partial signature for the same duty (same validator, role and slot)
			x := vmsg.Spec{Topic: "right", EnvSig: "valid", SigKind: "ok", PSigKind: "ok", Just: "none", Val: last.Val, Role: last.Role, SlotRel: last.SlotRel,
				RecvRelMs: last.RecvRelMs, SSVType: "partial", PSigner: signer, PCount: 1, EnvOp: signer}
			mid, interleaved = &x, "own-partial-signature-same-slot"
		case 2: // another member's prepare for the same round
			x := last
			other := signer%uint64(committeeSize(last.Val)) + 1
			x.QType, x.Leader, x.Signers, x.Value, x.Just, x.EnvOp = 1, false, []uint64{other}, "", "none", other
			mid, interleaved = &x, "other-signer-prepare"
		case 3: // the same signer's message for another role of the same validator (separate per-role state)
			x := vmsg.Spec{Topic: "right", EnvSig: "valid", SigKind: "ok", PSigKind: "ok", Just: "none", Val: last.Val, Role: (last.Role + 1) % 2, SlotRel: last.SlotRel,
				RecvRelMs: 4000, SSVType: "consensus", QType: 1, Round: 1, Signers: []uint64{signer}, EnvOp: signer}
			mid, interleaved = &x, "own-prepare-other-role"
		}
		if mid != nil && signer != 0 {
			if _, _, f := mut.validate(mid, p.Signed); f != nil {
				res.Fail = f
				return res
			}
		}
	}
	base := p.Base
	twinAcc, twinTxt, f := twin.validate(&base, p.Signed)
	if f != nil {
		res.Fail = f
		return res
	}
	mutAcc, mutTxt, f := mut.validate(&m, p.Signed)
	if f != nil {
		res.Fail = f
		return res
	}
	if !preOK {
		// the history the mutation relies on was itself refused (e.g. duty limit): the "mutant" breaks no rule here
		res.Classes = []string{"rule=" + p.Rule, "history-mutation-not-effective"}
		return res
	}
	if mutAcc {
		res.Fail = prog.Failf("C09:mutant-accepted:"+p.Rule, "a %s message breaking exactly one rule (%s) was accepted (its unmutated twin: accepted=%v %s)\nmutant: %+v", kindOf(&m), p.Rule, twinAcc, twinTxt, m)
		return res
	}
	res.NonTrivial = twinAcc // the rejection is due to the mutation: the twin, after the identical prefix, is accepted
	res.Classes = []string{"rule=" + p.Rule, fmt.Sprintf("twin-accepted=%v", twinAcc), "kind=" + kindOf(&p.Base), "mutant:" + mutTxt, "interleaved=" + interleaved}
	if !twinAcc {
		res.Classes = append(res.Classes, "twin-refused:"+twinTxt)
	}
	return res
}

// ---- generator -------------------------------------------------------------------------------------

func genHonest(t *rapid.T, slotRel int64) vmsg.Spec {
	s := vmsg.Spec{Topic: "right", EnvSig: "valid", SigKind: "ok", PSigKind: "ok", Just: "none", RecvRelMs: 4000, SlotRel: slotRel}
	s.Val = rapid.SampledFrom(append([]int{0, 0}, valfx.ActiveIdx()...)).Draw(t, "val")
	n := committeeSize(s.Val)
	s.Role = rapid.SampledFrom([]int{0, 0, 0, 1, 2, 3, 4}).Draw(t, "role")
	signer := uint64(rapid.IntRange(1, n).Draw(t, "signer"))
	s.EnvOp = signer
	s.Round = uint64(rapid.IntRange(1, 3).Draw(t, "round"))
	if rapid.IntRange(0, 2).Draw(t, "anyround") == 0 {
		// any round the role allows, received when that round is current
		s.Round = uint64(rapid.IntRange(1, int(roleMaxRound(s.Role))).Draw(t, "round_any"))
	}
	s.RecvRelMs = recvFor(s.Round)
	if rapid.IntRange(0, 4).Draw(t, "ispartial") == 0 {
		s.SSVType, s.PSigner, s.PCount = "partial", signer, 1
		s.Round = 0
		s.RecvRelMs = 4000
		switch spectypes.BeaconRole(s.Role) {
		case spectypes.BNRoleAggregator:
			s.PType = rapid.SampledFrom([]int{0, 2}).Draw(t, "ptype")
		case spectypes.BNRoleProposer:
			s.PType = rapid.SampledFrom([]int{0, 1}).Draw(t, "ptype")
		case spectypes.BNRoleSyncCommitteeContribution:
			s.PType = rapid.SampledFrom([]int{0, 3}).Draw(t, "ptype")
		}
		return s
	}
	s.SSVType = "consensus"
	s.QType = rapid.IntRange(0, 3).Draw(t, "qtype")
	s.Signers = []uint64{signer}
	switch s.QType {
	case 0:
		s.Leader = true
		s.Value = rapid.SampledFrom([]string{"A-value", "B-value"}).Draw(t, "value")
		if s.Round > 1 {
			s.Just = "rc-quorum"
		}
		s.EnvOp = 1 // any registered operator may relay; the leader id is resolved at build time
	case 2:
		if rapid.Bool().Draw(t, "decided") {
			q := quorum(s.Val)
			cnt := rapid.IntRange(q, n).Draw(t, "ndecided")
			ids := rapid.SliceOfNDistinct(rapid.IntRange(1, n), cnt, cnt, rapid.ID[int]).Draw(t, "dsigners")
			sort.Ints(ids)
			s.Signers = nil
			for _, i := range ids {
				s.Signers = append(s.Signers, uint64(i))
			}
			s.Value = "A-value"
			s.EnvOp = s.Signers[0]
		}
	}
	return s
}

func gen(t *rapid.T) Prog {
	p := Prog{Signed: rapid.Bool().Draw(t, "signed")}
	np := rapid.IntRange(0, 5).Draw(t, "nprefix")
	shift := int64(rapid.IntRange(0, 13).Draw(t, "slotshift")) // heights of every residue modulo the committee sizes
	for i := 0; i < np; i++ {
		p.Prefix = append(p.Prefix, genHonest(t, shift+int64(i/2)))
	}
	p.Base = genHonest(t, shift+int64(np/2)+int64(rapid.IntRange(0, 1).Draw(t, "baseslot")))
	p.Rule = rapid.SampledFrom(rulesFor(&p.Base, p.Signed)).Draw(t, "rule")
	p.Arg = rapid.IntRange(0, 1000).Draw(t, "arg")
	return p
}

// ---- topic rule over every subnet -----------------------------------------------------------------------
//
// The fixture of the rule-mutant test has a handful of validators, i.e. a handful of subnets. The topic rule
// quantifies over (validator subnet, topic) pairs, so this test uses a store with one active validator per subnet
// and sends an honest message on an arbitrary one of the 128 topics. Oracle: accepted only on the topic whose
// number is the key's subnet (computed here from the key bytes, not through network/commons); the same message on
// that topic in a twin validator shows that nothing else stands in the way.

type TopicProg struct {
	Signed bool      `json:"signed"`
	Msg    vmsg.Spec `json:"msg"` // Val indexes valfx.TopicStore(); Topic "index", TopicN the topic number
}

func runTopic(p TopicProg) *prog.Result {
	res := &prog.Result{}
	st := valfx.TopicStore()
	v := st.Vals[p.Msg.Val%len(st.Vals)]
	own := valfx.Subnet(v.PK)
	sent := p.Msg.TopicN % 128
	validate := func(s vmsg.Spec) (bool, string) {
		e := valfx.NewEnvStore(st, p.Signed)
		e.AddDuties(2)
		topic, data, recv := s.Build(e, p.Signed)
		if recv.After(e.Clock.Now()) {
			e.Clock.Set(recv)
		}
		_, _, err := validation.ValidateP2PMessageAt(e.MV, valfx.PMsg(topic, data), recv)
		return err == nil, validation.ErrorText(err)
	}
	twin := p.Msg
	twin.Topic, twin.TopicN = "index", own
	twinAcc, twinTxt := validate(twin)
	acc, txt := validate(p.Msg)
	if acc && sent != own {
		res.Fail = prog.Failf("C09:accepted-on-foreign-topic", "a %s message for a validator of subnet %d was accepted on topic %d (on its own topic: accepted=%v %s)\nmessage: %+v",
			kindOf(&p.Msg), own, sent, twinAcc, twinTxt, p.Msg)
		return res
	}
	res.NonTrivial = twinAcc && sent != own
	res.Classes = []string{"kind=" + kindOf(&p.Msg), fmt.Sprintf("own-topic=%v", sent == own), fmt.Sprintf("twin-accepted=%v", twinAcc),
		fmt.Sprintf("shares-last-digit=%v", sent%10 == own%10), fmt.Sprintf("one-is-suffix-of-other=%v", sent != own && (strings.HasSuffix(fmt.Sprint(sent), fmt.Sprint(own)) || strings.HasSuffix(fmt.Sprint(own), fmt.Sprint(sent)) || strings.HasPrefix(fmt.Sprint(sent), fmt.Sprint(own)) || strings.HasPrefix(fmt.Sprint(own), fmt.Sprint(sent))))}
	if sent != own {
		res.Classes = append(res.Classes, "foreign:"+txt)
	}
	return res
}

func genTopic(t *rapid.T) TopicProg {
	p := TopicProg{Signed: rapid.Bool().Draw(t, "signed")}
	s := vmsg.Spec{Topic: "index", EnvSig: "valid", SigKind: "ok", PSigKind: "ok", Just: "none", RecvRelMs: 4000}
	s.Val = rapid.IntRange(0, len(valfx.TopicStore().Vals)-1).Draw(t, "val")
	s.Role = rapid.SampledFrom([]int{0, 0, 1, 2, 3, 4}).Draw(t, "role")
	signer := uint64(rapid.IntRange(1, 4).Draw(t, "signer"))
	s.EnvOp = signer
	if rapid.IntRange(0, 4).Draw(t, "ispartial") == 0 {
		s.SSVType, s.PSigner, s.PCount = "partial", signer, 1
	} else {
		s.SSVType, s.Round = "consensus", 1
		s.QType = rapid.IntRange(0, 3).Draw(t, "qtype")
		s.Signers = []uint64{signer}
		if s.QType == 0 {
			s.Leader, s.Value, s.EnvOp = true, "A-value", 1
		}
	}
	own := valfx.Subnet(valfx.TopicStore().Vals[s.Val].PK)
	switch rapid.IntRange(0, 5).Draw(t, "topic_kind") {
	case 0: // a topic whose decimal name shares a suffix or prefix with the right one
		c := []int{own % 10, own % 100, 100 + own%100, 10 + own%10, 20 + own%10, own * 10 % 128, own*10%128 + 1, own / 10, own / 100}
		s.TopicN = rapid.SampledFrom(c).Draw(t, "topic_like") % 128
	case 1:
		s.TopicN = (own + rapid.SampledFrom([]int{1, 127, 64, 2, 126}).Draw(t, "topic_near")) % 128
	default:
		s.TopicN = rapid.IntRange(0, 127).Draw(t, "topic")
	}
	p.Msg = s
	return p
}

func TestPropTopicRule(t *testing.T) { prog.Check(t, "C09", "TestPropTopicRule", genTopic, runTopic) }

// ---- leader rule over every committee size, height residue and round --------------------------------------
//
// "comes from the round leader if it is a proposal": the leader rotates with height + round modulo the committee
// size, so the rule quantifies over (committee size, height mod n, round, claimed signer). The case sends one
// proposal (round-change quorum attached above round 1, received when its round is current) signed by a drawn
// committee member. Oracle: accepted only if that member is the round-robin leader, computed here as
// committee[(height + round - 1) mod n]; the leader's own proposal in a twin validator shows the refusal is
// about the signer.

type LeaderProg struct {
	Signed bool      `json:"signed"`
	Msg    vmsg.Spec `json:"msg"` // a proposal with Leader=false and one drawn signer
}

func runLeader(p LeaderProg) *prog.Result {
	res := &prog.Result{}
	validate := func(s vmsg.Spec) (bool, string) {
		e := valfx.NewEnv(p.Signed)
		e.AddDuties(40)
		topic, data, recv := s.Build(e, p.Signed)
		if recv.After(e.Clock.Now()) {
			e.Clock.Set(recv)
		}
		_, _, err := validation.ValidateP2PMessageAt(e.MV, valfx.PMsg(topic, data), recv)
		return err == nil, validation.ErrorText(err)
	}
	e := valfx.NewEnv(false)
	leader := uint64(p.Msg.LeaderID(e))
	n := committeeSize(p.Msg.Val)
	twin := p.Msg
	twin.Signers, twin.EnvOp = []uint64{leader}, leader
	twinAcc, twinTxt := validate(twin)
	refusals := map[string]bool{}
	// every other committee member in turn, starting from the drawn one
	for i := 0; i < n; i++ {
		signer := (p.Msg.Signers[0]-1+uint64(i))%uint64(n) + 1
		if signer == leader {
			continue
		}
		m := p.Msg
		m.Signers, m.EnvOp = []uint64{signer}, signer
		acc, txt := validate(m)
		if acc {
			res.Fail = prog.Failf("C09:non-leader-proposal-accepted", "a proposal by operator %d was accepted for height %d round %d of a %d-operator committee whose leader is operator %d (the leader's own proposal: accepted=%v %s)\nmessage: %+v",
				signer, p.Msg.Slot(e), p.Msg.Round, n, leader, twinAcc, twinTxt, m)
			return res
		}
		refusals["non-leader:"+txt] = true
	}
	res.NonTrivial = twinAcc
	res.Classes = []string{fmt.Sprintf("N=%d", n), fmt.Sprintf("round=%d", p.Msg.Round), fmt.Sprintf("twin-accepted=%v", twinAcc),
		fmt.Sprintf("height-mod-n=0:%v", uint64(p.Msg.Slot(e))%uint64(n) == 0), fmt.Sprintf("round-mod-n=0:%v", p.Msg.Round%uint64(n) == 0),
		fmt.Sprintf("height-and-round-mod-n=0:%v", uint64(p.Msg.Slot(e))%uint64(n) == 0 && p.Msg.Round%uint64(n) == 0)}
	for k := range refusals {
		res.Classes = append(res.Classes, k)
	}
	if !twinAcc {
		res.Classes = append(res.Classes, "leader-refused:"+twinTxt)
	}
	sort.Strings(res.Classes)
	return res
}

func genLeader(t *rapid.T) LeaderProg {
	p := LeaderProg{Signed: rapid.Bool().Draw(t, "signed")}
	s := vmsg.Spec{Topic: "right", EnvSig: "valid", SigKind: "ok", PSigKind: "ok", Just: "none", SSVType: "consensus", QType: 0, Value: "A-value"}
	s.Val = rapid.SampledFrom(valfx.ActiveIdx()).Draw(t, "val")
	n := committeeSize(s.Val)
	s.Role = rapid.SampledFrom([]int{0, 0, 1, 1, 2, 3, 4}).Draw(t, "role")
	s.SlotRel = int64(rapid.IntRange(0, 26).Draw(t, "slot"))
	max := int(roleMaxRound(s.Role))
	s.Round = uint64(rapid.IntRange(1, max).Draw(t, "round"))
	if rapid.IntRange(0, 2).Draw(t, "wrap") == 0 {
		// the rotation's wrap-around points: height and round at or next to a multiple of the committee size
		h0 := int64(valfx.NewEnv(false).Slot0())
		res := rapid.SampledFrom([]int64{0, 0, 1, int64(n) - 1}).Draw(t, "hres")
		s.SlotRel = (res - h0%int64(n) + int64(n)) % int64(n)
		if rapid.Bool().Draw(t, "second_lap") {
			s.SlotRel += int64(n)
		}
		var rs []int
		for r := 1; r <= max; r++ {
			if r%n == 0 || r%n == 1 || r%n == n-1 {
				rs = append(rs, r)
			}
		}
		s.Round = uint64(rapid.SampledFrom(rs).Draw(t, "round_wrap"))
	}
	s.RecvRelMs = recvFor(s.Round)
	if s.Round > 1 {
		s.Just = "rc-quorum"
	}
	signer := uint64(rapid.IntRange(1, n).Draw(t, "signer"))
	s.Signers, s.EnvOp = []uint64{signer}, signer
	p.Msg = s
	return p
}

func TestPropLeaderRule(t *testing.T) {
	prog.Check(t, "C09", "TestPropLeaderRule", genLeader, runLeader)
}

func TestPropRuleMutants(t *testing.T) { prog.Check(t, "C09", "TestPropRuleMutants", gen, run) }

// ---- concurrency clause: conflicting pairs validated at once ---------------------------------------------

type ConcProg struct {
	Signed bool        `json:"signed"`
	Pairs  []vmsg.Spec `json:"pairs"` // each entry is validated together with its conflicting sibling
	Kinds  []string    `json:"kinds"` // per pair: duplicate | different-data
}

func runConc(p ConcProg) *prog.Result {
	res := &prog.Result{NonTrivial: len(p.Pairs) > 0}
	e := valfx.NewEnv(p.Signed)
	e.AddDuties(8)
	type job struct {
		pair int
		spec vmsg.Spec
	}
	var jobs []job
	for i, s := range p.Pairs {
		sib := s
		if p.Kinds[i] == "different-data" && s.Value != "" {
			sib.Value = "conflicting-value"
		}
		jobs = append(jobs, job{i, s}, job{i, sib})
	}
	type built struct {
		pair  int
		topic string
		data  []byte
	}
	var bs []built
	recv := e.Clock.Now()
	for _, j := range jobs {
		tp, d, r := j.spec.Build(e, p.Signed)
		if r.After(recv) {
			recv = r
		}
		bs = append(bs, built{j.pair, tp, d})
	}
	e.Clock.Set(recv)
	accepted := make([]int, len(p.Pairs))
	var mu sync.Mutex
	var wg sync.WaitGroup
	start := make(chan struct{})
	for _, b := range bs {
		wg.Add(1)
		go func(b built) {
			defer wg.Done()
			<-start
			_, _, err := validation.ValidateP2PMessageAt(e.MV, valfx.PMsg(b.topic, b.data), recv)
			if err == nil {
				mu.Lock()
				accepted[b.pair]++
				mu.Unlock()
			}
		}(b)
	}
	close(start)
	wg.Wait()
	for i, n := range accepted {
		if n > 1 {
			res.Fail = prog.Failf("C09:concurrent-conflicting-pair-accepted", "both members of a conflicting pair (%s) were accepted when validated concurrently: %+v", p.Kinds[i], p.Pairs[i])
			return res
		}
	}
	return res
}

func genConc(t *rapid.T) ConcProg {
	p := ConcProg{Signed: rapid.Bool().Draw(t, "signed")}
	if raceEnabled {
		p.Signed = false
	}
	n := rapid.IntRange(1, 6).Draw(t, "npairs")
	used := map[string]bool{}
	for i := 0; i < n; i++ {
		s := genHonest(t, 0)
		if s.SSVType != "consensus" || kindOf(&s) == "decided" {
			continue
		}
		k := fmt.Sprintf("%d/%d/%v/%v", s.Val, s.Role, s.Signers, s.Leader)
		if used[k] { // one pair per signer state, otherwise pairs conflict with each other legitimately
			continue
		}
		used[k] = true
		p.Pairs = append(p.Pairs, s)
		p.Kinds = append(p.Kinds, rapid.SampledFrom([]string{"duplicate", "different-data"}).Draw(t, "ckind"))
	}
	return p
}

func TestPropConcurrentPairs(t *testing.T) {
	prog.Check(t, "C09", "TestPropConcurrentPairs", genConc, runConc)
}

func TestReplay(t *testing.T) {
	prog.Replay(t, "C09", "TestPropRuleMutants", run)
	prog.Replay(t, "C09", "TestPropConcurrentPairs", runConc)
	prog.Replay(t, "C09", "TestPropTopicRule", runTopic)
	prog.Replay(t, "C09", "TestPropLeaderRule", runLeader)
}
