//go:build race

package c09

// Under the race detector the concurrent tests run in unsigned-envelope mode only: operator/keys caches the
// OpenSSL form of an RSA public key lazily without synchronisation (rsa_linux.go checkCachePubkey), which the
// detector reports whenever two validations first use one operator key at the same time. That race is outside the
// listed properties (recorded in DESIGN.md section 11) and would otherwise end every -race run with "race detected".
const raceEnabled = true
