//go:build !race

package c09

const raceEnabled = false
