#!/usr/bin/env python3
"""storeseed2.py <ID> <k> <status> <what_i_ran>: copy seed k (1|2) of seeding round $SEEDROUND (default 2) of property ID
from /tmp/seedwork<round>-<ID>/<k> into /verif/seeded/<ID>-<k+2*(round-1)>/ and write meta.json."""
import json, os, shutil, sys
pid, k, status, ran = sys.argv[1], int(sys.argv[2]), sys.argv[3], sys.argv[4]
rnd = int(os.environ.get("SEEDROUND", "2"))  # seeding round (2 or 3)
src = f"/tmp/seedwork{rnd}-{pid}/{k}"
dst = f"/verif/seeded/{pid}-{k+2*(rnd-1)}"
os.makedirs(dst, exist_ok=True)
for f in os.listdir(src):
    p = os.path.join(src, f)
    if os.path.isfile(p) and os.path.getsize(p) < 400_000 and (f in ("patch.diff", "demo.txt", "meta.json") or f.startswith("demo") or f.endswith("_test.go")):
        shutil.copy(p, os.path.join(dst, "agent_meta.json" if f == "meta.json" else f))
if os.path.isdir(os.path.join(src, "demo")):
    shutil.copytree(os.path.join(src, "demo"), os.path.join(dst, "demo"), dirs_exist_ok=True)
am = {}
try:
    am = json.load(open(os.path.join(src, "meta.json")))
except Exception as e:
    am = {"summary": "(agent meta.json unreadable: %s)" % e}
meta = {
    "property": pid,
    "round": rnd,
    "breaks": am.get("summary", ""),
    "needs_to_manifest": am.get("needs", ""),
    "status": status,
    "what_i_ran": ran,
    "written_by": "independent sub-agent given only the property text, the list of earlier rounds' ideas to avoid, and a scratch git worktree of /repo (nothing from /verif)",
    "files": {"patch": "patch.diff", "demonstration": "demo_test.go / demo* (placement and command in demo.txt)", "agent_meta": "agent_meta.json"},
}
json.dump(meta, open(os.path.join(dst, "meta.json"), "w"), indent=1)
print("stored", dst, sorted(os.listdir(dst)))
