//go:build go1.21

// Overlay stub (verif): quic-go v0.33.0 deliberately refuses to compile on Go >= 1.21.
// QUIC is never exercised by any harness; go120.go (tag go1.20) supplies the definitions.
package qtls
