#!/bin/bash
# seedeval.sh <ID> <patch.diff> : confirm that a seeded change compiles and passes the pinned suite (root module),
# then run ./check <ID> quick against it (via mutcheck). Scratch copy only; /repo is never touched.
set -u
ID=$1; PATCH=$(readlink -f "$2")
S=$(mktemp -d /var/tmp/seedeval-$ID-XXXXXX)
trap 'rm -rf "$S"' EXIT
rsync -a --exclude .git /repo/ "$S/repo/"
( cd "$S/repo" && patch -p1 --no-backup-if-mismatch < "$PATCH" >/dev/null ) || { echo "SEEDEVAL patch failed"; exit 3; }
export GOFLAGS=-mod=mod GOPROXY=off GOSUMDB=off GOTOOLCHAIN=local
( cd "$S/repo" && go build -overlay /verif/overlay/overlay.json ./... ) || { echo "SEEDEVAL build failed"; exit 4; }
( cd "$S/repo" && go test -json -vet=off -count=1 -timeout 25m ./... > "$S/suite.json" 2>/dev/null )
python3 - "$S/suite.json" <<'PY'
import json,sys
b=json.load(open('/root/.vp/BASELINE.json'))
res={}
for l in open(sys.argv[1]):
    try: e=json.loads(l)
    except: continue
    if e.get('Action') in ('pass','fail','skip') and e.get('Test'):
        res[e['Package']+'::'+e['Test']]=e['Action']
miss=[t for t in b['stable_pass'] if res.get(t)!='pass' and not t.startswith('github.com/bloxapp/ssv/e2e')]
print('SEEDEVAL suite: stable tests not passing with the change:', len(miss), miss[:8])
PY
cd /verif && ./mutcheck.sh "$ID" "$PATCH" 2>&1 | grep -v "^  " | cut -c1-240 | tail -4
echo "SEEDEVAL check exit=${PIPESTATUS[0]}"
