#!/bin/bash
# ev2.sh <ID> <k> <demo dest relative to repo root> <go test args...>: confirm demo + evaluate check for a seed of round $SEEDROUND (default 2)
ID=$1; K=$2; DEST=$3; shift 3
R=${SEEDROUND:-2}
D=/tmp/seedwork$R-$ID/$K
echo "=== $ID-r$R-$K"
/verif/seedconfirm.sh $D/patch.diff $D/demo_test.go "$DEST" "$@" 2>&1 | tail -1
/verif/seedeval.sh $ID $D/patch.diff 2>&1 | grep -v "^  \|^$\|^KNOWN" | cut -c1-240 | tail -3
