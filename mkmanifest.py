#!/usr/bin/env python3
"""Writes MANIFEST.json from checks.json + manifest_meta.json (kept in one place so the two cannot drift)."""
import json, os, subprocess
R = os.path.dirname(os.path.abspath(__file__))
import glob
cfg = {}
for f in sorted(glob.glob(os.path.join(R, "harness", "*", "check.json"))):
    cfg.update(json.load(open(f)))
meta = json.load(open(os.path.join(R, "manifest_meta.json")))
props = [json.loads(l)["id"] for l in open(os.path.join(R, "properties.jsonl"))]
checks = []
for pid in props:
    if pid not in cfg:
        continue
    c = cfg[pid]
    checks.append({
        "property_id": pid,
        "quick_cmd": f"./check {pid} quick",
        "thorough_cmd": f"./check {pid} thorough",
        "evidence_file": f"/verif/evidence/{pid}.json",
        "replay_cmd_template": "./check --replay {path}",
        "engine": "rapid-harness",
        "level_claimed": {"category": c.get("level", "exploration"), "text": c["level_text"], "design_ref": c.get("design_ref", f"DESIGN.md §4 {pid}")},
        "level_note": c["level_note"],
        "technique": c["technique"],
    })
m = {
    "version": 1,
    "setup_cmd": "./setup.sh",
    "hooks": meta["hooks"],
    "engines": meta["engines"],
    "checks": checks,
    "notes": meta["notes"],
    "not_applicable": [{"property_id": p, "reason": meta["not_applicable"].get(p, "check not built yet in this session; see DESIGN.md")} for p in props if p not in cfg],
}
json.dump(m, open(os.path.join(R, "MANIFEST.json"), "w"), indent=1)
print("claimed", [c["property_id"] for c in checks])
