#!/bin/bash
# run_all.sh <tier> [ids...]: runs ./check for every property in turn, one line per check (id tier rc wall).
TIER=${1:-quick}; shift
IDS=${@:-C01 C02 C03 C04 C05 C06 C07 C08 C09 C10 C11 C12 C13 C14 C15 C16 C17 C18}
cd "$(dirname "$0")"
for id in $IDS; do
  t0=$(date +%s)
  ./check $id $TIER > /tmp/run_all_$id.log 2>&1; rc=$?
  t1=$(date +%s)
  echo "RUNALL $id $TIER rc=$rc wall=$((t1-t0))s $(grep -c '^VIOLATION' /tmp/run_all_$id.log) violations; $(grep -E '^\[C[0-9]+ ' /tmp/run_all_$id.log | tail -1)"
  grep -E "^VIOLATION|^\[violation\]|^INCONCLUSIVE" /tmp/run_all_$id.log | cut -c1-300 | head -5
done
