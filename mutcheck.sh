#!/bin/bash
# mutcheck.sh <ID> <patch.diff> [quick|thorough]
# Runs ./check <ID> against a scratch copy of /repo with <patch.diff> applied; /repo itself is never touched.
# Prints the check's output; exit code is the check's (1 = the mutation was detected).
set -u
ID=$1; PATCH=$(readlink -f "$2"); TIER=${3:-quick}
S=$(mktemp -d /var/tmp/mut-$ID-XXXXXX)
trap 'rm -rf "$S"' EXIT
rsync -a --exclude .git /repo/ "$S/repo/"
( cd "$S/repo" && patch -p1 --no-backup-if-mismatch < "$PATCH" >/dev/null ) || { echo "patch failed"; exit 3; }
rsync -a --exclude bin --exclude .git --exclude evidence /verif/ "$S/verif/"
rm -f "$S/verif/harness/go.mod" "$S/verif/harness/go.mod.gen"
cd "$S/verif" && VERIF_REPO="$S/repo" VERIF_NO_SAVE_REPLAY=1 ./check "$ID" "$TIER"
