#!/usr/bin/env python3
"""mktable.py [thorough-evidence-dir]: prints the measured table of DESIGN.md §8.1 from evidence/*.json (quick tier,
this directory) and, if given, a directory with thorough-tier evidence files (e.g. a background run's snapshot)."""
import json, os, sys
here = os.path.dirname(os.path.abspath(__file__))
tdir = sys.argv[1] if len(sys.argv) > 1 else None
def load(d, pid):
    try:
        return json.load(open(os.path.join(d, "evidence", pid + ".json")))
    except Exception:
        return None
def fmt(n):
    return f"{n:,}".replace(",", " ")
print("| id | quick cases | quick non-trivial | quick wall | thorough cases | thorough non-trivial | thorough wall |")
print("|-|-|-|-|-|-|-|")
for i in range(1, 19):
    pid = f"C{i:02d}"
    q = load(here, pid)
    t = load(tdir, pid) if tdir else None
    row = [pid]
    for e, tier in ((q, "quick"), (t, "thorough")):
        if e and e.get("tier") == tier:
            c = e["coverage"]
            row += [fmt(c["evaluations"]), fmt(c["distinct_nontrivial"]), f"{e['wall_s']:.0f} s"]
        else:
            row += ["–", "–", "–"]
    print("| " + " | ".join(row) + " |")
