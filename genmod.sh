#!/bin/bash
# Regenerates harness/go.mod, harness/go.sum and overlay/overlay.json from /repo's current tree.
set -e
cd "$(dirname "$0")"
export GOFLAGS=-mod=mod GOPROXY=off GOSUMDB=off GOTOOLCHAIN=local
REPO=${VERIF_REPO:-/repo}
MC=$(go env GOMODCACHE)
tmp=$(mktemp)
{
  echo "module verif/harness"
  # copy everything but the module line (keeps the three replace directives of /repo/go.mod)
  grep -v '^module ' "$REPO/go.mod"
  echo
  echo "require github.com/bloxapp/ssv v0.0.0"
  echo "require pgregory.net/rapid v1.3.0"
  echo "replace github.com/bloxapp/ssv => $REPO"
} > "$tmp"
if ! cmp -s "$tmp" harness/go.mod.gen 2>/dev/null || [ ! -f harness/go.mod ]; then
  cp "$tmp" harness/go.mod.gen
  cp "$tmp" harness/go.mod
  cp "$REPO/go.sum" harness/go.sum
  for m in pgregory.net/rapid; do
    z="$MC/cache/download/$m/@v/v1.3.0"
    echo "$m v1.3.0 $(cat $z.ziphash)" >> harness/go.sum
    echo "$m v1.3.0/go.mod h1:$(go mod download -json $m@v1.3.0 2>/dev/null | python3 -c 'import sys,json; print(json.load(sys.stdin)["GoModSum"][3:])' 2>/dev/null)" >> harness/go.sum || true
  done
fi
rm -f "$tmp"
cat > overlay/overlay.json <<JSON
{"Replace": {
 "$MC/github.com/quic-go/quic-go@v0.33.0/internal/qtls/go121.go": "$PWD/overlay/quic_go121.go",
 "$MC/github.com/quic-go/qtls-go1-20@v0.2.3/unsafe.go": "$PWD/overlay/qtls_unsafe.go"
}}
JSON
