#!/bin/bash
# setup_cmd: regenerate go.mod / overlay and pre-build every harness test binary (offline).
set -e
cd "$(dirname "$0")"
export GOFLAGS=-mod=mod GOPROXY=off GOSUMDB=off GOTOOLCHAIN=local
./genmod.sh
./check --build-all
