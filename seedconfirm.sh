#!/bin/bash
# seedconfirm.sh <patch.diff> <demo_test.go> <dest path relative to repo root> <go test args...>
# Confirms a seeded change's demonstration in a scratch copy of /repo: passes without the change, fails with it.
set -u
PATCH=$(readlink -f "$1"); DEMO=$(readlink -f "$2"); DEST=$3; shift 3
S=$(mktemp -d /var/tmp/seedconfirm-XXXXXX)
trap 'rm -rf "$S"' EXIT
rsync -a --exclude .git /repo/ "$S/repo/"
mkdir -p "$(dirname "$S/repo/$DEST")"; cp "$DEMO" "$S/repo/$DEST"
export GOFLAGS=-mod=mod GOPROXY=off GOSUMDB=off GOTOOLCHAIN=local
cd "$S/repo"
go test -vet=off -count=1 -overlay /verif/overlay/overlay.json "$@" > "$S/without.txt" 2>&1; RC0=$?
patch -p1 --no-backup-if-mismatch < "$PATCH" >/dev/null || { echo "SEEDCONFIRM patch failed"; exit 3; }
go test -vet=off -count=1 -overlay /verif/overlay/overlay.json "$@" > "$S/with.txt" 2>&1; RC1=$?
echo "SEEDCONFIRM without-change rc=$RC0  with-change rc=$RC1"
grep -E "^(--- FAIL|--- PASS|FAIL|ok)" "$S/without.txt" | head -5 | sed 's/^/  without: /'
grep -E "^(--- FAIL|--- PASS|FAIL|ok)" "$S/with.txt" | head -5 | sed 's/^/  with:    /'
[ $RC0 -eq 0 ] && [ $RC1 -ne 0 ] && echo "SEEDCONFIRM OK" || echo "SEEDCONFIRM NOT-CONFIRMED"
